#!/bin/bash
# usage: tools/sweep.sh "<seeds>" CNN ...   : quick tier of each check for each seed; one summary line per run in .scratch/sweep.log
cd /verif
SEEDS=$1; shift
for s in $SEEDS; do for p in "$@"; do
  out=$(VERIF_SEED=$s ./check $p quick 2>&1); rc=$?
  echo "seed=$s $p rc=$rc $(echo "$out" | grep -E "held on|VIOLATED|INCONCLUSIVE" | head -1 | cut -c1-160)" >> .scratch/sweep.log
  if [ $rc -ne 0 ]; then echo "$out" | grep -A1 "^VIOLATION" | head -8 | cut -c1-400 >> .scratch/sweep.log; fi
done; done
