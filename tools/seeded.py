#!/venv/bin/python
"""Confirm a seeded property-breaking change and run the property's check against it.

usage: tools/seeded.py verify /verif/seeded/<id>      (directory with patch.diff, demo.py, meta.json{property,...})
       tools/seeded.py check  /verif/seeded/<id> [CNN ...]   (only run the checks)
Steps (all in a scratch git worktree of /repo outside /repo and /verif, removed afterwards):
  1 demo.py on the unchanged tree must exit 0    2 patch applies    3 demo.py on the changed tree must exit != 0
  4 the pinned 42-test baseline still passes on the changed tree    5 ./check <property> quick with VERIF_REPO=<worktree> reports a VIOLATION
Results are written into meta.json under "confirmed".
"""
import json
import os
import subprocess
import sys
import time

V = os.path.dirname(os.path.dirname(os.path.abspath(__file__)))


def sh(cmd, **k):
    return subprocess.run(cmd, shell=isinstance(cmd, str), capture_output=True, text=True, **k)


def main():
    mode, d = sys.argv[1], os.path.abspath(sys.argv[2])
    meta_p = os.path.join(d, "meta.json")
    meta = json.load(open(meta_p)) if os.path.exists(meta_p) else {}
    props = sys.argv[3:] or [meta["property"]]
    sid = os.path.basename(d)
    wt = "/tmp/osaca-seedchk-%s-%d" % (sid, os.getpid())
    sh(["git", "-C", "/repo", "worktree", "add", "--detach", wt, "HEAD"])
    res = {"at": time.strftime("%Y-%m-%d %H:%M:%S"), "repo_head": sh("git -C /repo rev-parse --short HEAD").stdout.strip()}
    try:
        env = dict(os.environ, PYTHONPATH=wt, HOME="/tmp/osaca-seedhome-%d" % os.getpid())
        os.makedirs(env["HOME"], exist_ok=True)
        demo = os.path.join(d, "demo.py")
        if mode == "verify":
            p = sh(["/venv/bin/python", demo], env=env, cwd=wt, timeout=1800)
            res["demo_unchanged_exit"] = p.returncode
            res["demo_unchanged_tail"] = (p.stdout + p.stderr)[-300:]
        a = sh(["git", "-C", wt, "apply", os.path.join(d, "patch.diff")])
        res["patch_applies"] = a.returncode == 0
        if a.returncode != 0:
            res["apply_error"] = a.stderr[-300:]
        if mode == "verify" and res["patch_applies"]:
            p = sh(["/venv/bin/python", demo], env=env, cwd=wt, timeout=1800)
            res["demo_changed_exit"] = p.returncode
            res["demo_changed_tail"] = (p.stdout + p.stderr)[-300:]
            b = sh(["/venv/bin/python", os.path.join(V, "tools", "baseline.py"), wt], timeout=3600)
            res["baseline_ok"] = b.returncode == 0
            res["baseline_tail"] = b.stdout[-300:]
        if res["patch_applies"]:
            res["checks"] = {}
            for pr in props:
                t0 = time.time()
                c = sh(["./check", pr, "quick"], cwd=V, env=dict(os.environ, VERIF_REPO=wt), timeout=3600)
                keys = sorted(set(l.split("key=")[1].split(" what=")[0] for l in c.stdout.split("\n") if "key=" in l))
                res["checks"][pr] = {"exit": c.returncode, "violation": "VIOLATION property=" in c.stdout, "keys": keys[:12],
                                     "wall_s": round(time.time() - t0, 1), "tail": c.stdout[-400:]}
    finally:
        sh(["git", "-C", "/repo", "worktree", "remove", "--force", wt])
        sh("rm -rf /tmp/osaca-seedhome-%d %s" % (os.getpid(), wt))
        # evidence files must come from runs against /repo itself: restore them
        sh("git -C %s checkout -- evidence" % V)
    meta.setdefault("confirmed", {}).update(res)
    json.dump(meta, open(meta_p, "w"), indent=1)
    ok = res.get("patch_applies") and all(c["violation"] for c in res.get("checks", {}).values())
    if mode == "verify":
        ok = ok and res.get("demo_unchanged_exit") == 0 and res.get("demo_changed_exit") not in (0, None) and res.get("baseline_ok")
    print(json.dumps(res, indent=1)[:3000])
    print("SEEDED %s: %s" % (sid, "confirmed and caught" if ok else "NOT OK"))
    sys.exit(0 if ok else 1)


if __name__ == "__main__":
    main()
