"""Prints the markdown table of DESIGN.md section 8 from seeded/*/meta.json."""
import glob, json, os
H = os.path.dirname(os.path.dirname(os.path.abspath(__file__)))
print("| id | property | what was changed | needs to manifest | confirmed (demo 0/≠0, 42 tests) | caught by (quick tier), witness keys |")
print("|---|---|---|---|---|---|")
for d in sorted(glob.glob(H + "/seeded/*")):
    m = json.load(open(d + "/meta.json"))
    c = m.get("confirmed", {})
    ok = c.get("demo_unchanged_exit") == 0 and c.get("demo_changed_exit") not in (0, None) and c.get("baseline_ok")
    ch = "; ".join("%s %s: %s" % (p, "VIOLATION" if x["violation"] else "MISSED", ", ".join("`%s`" % k for k in x["keys"][:3])) for p, x in c.get("checks", {}).items())
    def cut(t, n): t = " ".join(str(t).split()); return t if len(t) <= n else t[: n - 1] + "…"
    print("| %s | %s | %s | %s | %s | %s |" % (os.path.basename(d), m.get("property"), cut(m.get("what_changed", m.get("title", "")), 230), cut(m.get("needs_to_manifest", ""), 230), "yes" if ok else "NO", ch))
