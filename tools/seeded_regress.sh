#!/bin/bash
# usage: tools/seeded_regress.sh <parallel> [ids...]  : re-run only the checks against every seeded change (default: all) -> .scratch/regress-summary.log
cd /verif
P=$1; shift
IDS="$@"; [ -z "$IDS" ] && IDS=$(ls seeded)
: > .scratch/regress-summary.log
printf "%s\n" $IDS | xargs -P "$P" -I{} sh -c 'extra=""; case {} in C04e|C04g) extra="C04 C03";; C04f) extra="C04 C06";; C05h) extra="C05 C04 C06";; C12h) extra="C10";; C13g) extra="C13 C11";; C15g) extra="C07";; C02i) extra="C11";; C02j) extra="C01";; C05j) extra="C06";; C12i) extra="C03";; esac; timeout 2400 /venv/bin/python tools/seeded.py check seeded/{} $extra > .scratch/regress-{}.log 2>&1; tail -1 .scratch/regress-{}.log >> .scratch/regress-summary.log'
