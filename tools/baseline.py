"""Runs the repository's pinned test suite (hooks do not exist / guard off) and compares with /root/.vp/BASELINE.json.
usage: /venv/bin/python tools/baseline.py [repo]"""
import json, os, subprocess, sys, tempfile, xml.etree.ElementTree as ET
repo = sys.argv[1] if len(sys.argv) > 1 else "/repo"
base = json.load(open("/root/.vp/BASELINE.json"))
out = tempfile.mktemp(suffix=".xml", dir="/verif/.scratch")
env = dict(os.environ); env.pop("OSACA_VERIF", None)
env["PYTHONPATH"] = repo
p = subprocess.run(["/venv/bin/python", "-m", "pytest", "-ra", "-q", "-p", "no:cacheprovider", "--timeout=900",
                    "--continue-on-collection-errors", "--junitxml=" + out], cwd=repo, env=env, capture_output=True, text=True)
passed = set()
for tc in ET.parse(out).getroot().iter("testcase"):
    if not any(c.tag in ("failure", "error", "skipped") for c in tc):
        passed.add(tc.get("classname") + "::" + tc.get("name"))
os.unlink(out)
missing = [t for t in base["stable_pass"] if t not in passed]
print("passed %d; baseline stable_pass %d; missing from passed: %s" % (len(passed), len(base["stable_pass"]), missing))
sys.exit(1 if missing else 0)
