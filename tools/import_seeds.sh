#!/bin/bash
# usage: tools/import_seeds.sh  : copies complete deliveries /tmp/osaca-seed-<id>/{patch.diff,demo.py,meta.json} that are not yet under seeded/ ; prints the new ids.
# Never removes anything under /tmp (agents may still be writing).
cd /verif
for d in /tmp/osaca-seed-C*; do
  [ -d "$d" ] || continue
  i=${d#/tmp/osaca-seed-}
  [ -d seeded/$i ] && continue
  if [ -f $d/meta.json ] && [ -f $d/patch.diff ] && [ -f $d/demo.py ]; then
    # complete only if meta.json is valid JSON
    python3 -c "import json,sys; json.load(open('$d/meta.json'))" 2>/dev/null || continue
    mkdir -p seeded/$i; cp $d/patch.diff $d/demo.py $d/meta.json seeded/$i/
    python3 - <<PY
import json
p='seeded/$i/meta.json'
m=json.load(open(p)); m['property']='${i:0:3}'; json.dump(m,open(p,'w'),indent=1)
PY
    echo -n "$i "
  fi
done
echo
