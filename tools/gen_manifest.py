#!/venv/bin/python
"""Regenerates /verif/MANIFEST.json from the table below (kept in one place so it is always valid)."""
import json
import os
import sys

HERE = os.path.dirname(os.path.dirname(os.path.abspath(__file__)))
sys.path.insert(0, HERE)

CHECKS = {}   # filled by vf/props modules that exist: id -> (category, text, note, technique, design_ref)

TABLE = {
    "C17": ("fault_enumeration",
            "Normalised reports of true CLI subprocesses under private throw-away HOME directories are compared with the cold report for the model content in force, over cache histories (cold, warm companion, home cache with read-only data directory, stale internal_version, package-directory pickles, model edited / reverted / shadowed, in-process second load), crash points of the cache write (file cut at 0 / header / middle / last byte; real kills of the writer after k bytes of the pickle stream, both cache locations, arch and ISA cache) and races (8 processes released together or staggered on an empty cache); a driver records cache hit/miss/write events so that a 'warm' run without a hit is inconclusive. Evidence lists distinct crash points and race outcomes.",
            "Trusted: the driver's pickle proxy, os.access patch, write barrier and what-if / library-path actions (vf/cli.py); report normalisation strips only the timestamp and file-name lines. Histories also cover the ISA description, models given by path under user-chosen file names, two models racing in one directory, a model changed in memory only, a header-only load as first access, and a cache file written by the reference tree earlier (fixtures/c17, tools/make_cache_fixture.py).",
            "runtime monitoring with fault injection: crash-point and race enumeration over cache histories, report equality oracle",
            "C17"),
    "C18": ("exploration",
            "Random sequences of 6-20 analyses (both ISAs, several models, --fixed / -f / --ignore-unknown / --lines / default arch, shipped and generated kernels with unknown, memory-composed, read-modify-write, write-back and alternative-port instructions, guaranteed A..B..A revisits) run in one uninstrumented process; every report is compared with the report of a fresh process for the same request (a tenth of the fresh runs repeated for determinism). Violations are minimised to one predecessor and one line.",
            "Trusted: vf/cli.py drivers; fresh-process reports as reference.",
            "runtime monitoring: history-vs-fresh-process report equality over random call sequences",
            "C18"),
    "C19": ("exploration",
            "The real CLI is run under monitors on what kernel_dg sees (clock polls, sleeps, os.kill, worker start/join, path generators, the created KernelDG, the process table afterwards) on recurrence kernels with exponentially many paths below and above the multi-process threshold, on kernel_x86_long_LCD.s and on ordinary kernels, for timeouts 0/1/2/120/-1: warning iff cut short, kills imply warning, every reported cycle verified against the doubled graph and against the untimed result where feasible, throughput/CP equal to the untimed analysis, no child left, and bounded progress (still enumerating at 3*timeout+30 s = violation; later post-processing only reported).",
            "Trusted: the stack inspection that distinguishes 'still searching' (path enumeration, or a parent waiting for live workers) from post-processing; wall-clock margins only bound progress, they are never a verdict on their own (outer watchdog => inconclusive); the bounded-overhead clause is decided on the pauses the waiting parent asks for and on a virtual clock.",
            "runtime monitoring: event log of the timeout protocol (clock, kills, joins, paths) + result soundness oracle",
            "C19"),
    "C11": ("exploration",
            "The real reduce_to_section / get_line_range / inspect are driven on generated files (every marker style of both ISAs, decoy look-alikes, empty bodies) and judged against the generator's own body lines; metamorphic runs of the real inspect() on marked file / --lines / body-only file / body with inserted comment, label, directive and blank lines compare the analysis captured by wrappers on Frontend.full_analysis and KernelDG.get_critical_path (per-instruction pressure, latency, flags, CP, LCD sets, summary).",
            "Trusted: the file generator's bookkeeping of body lines; variants are aligned by instruction order.",
            "runtime monitoring: generated inputs with known selection + metamorphic equality of captured analyses",
            "C11"),
    "C13": ("exploration",
            "The text report printed by the real inspect() and the dict returned by Frontend.full_analysis_dict (captured by a wrapper; --yaml-out file re-loaded in a sample; true CLI subprocesses in separate shards) are compared cell by cell by an independent report parser built from each report's own header line: pressure / CP / LCD cells, summary row, LCD list, X marks and warning count with and without --ignore-unknown, architecture and large-kernel warnings.",
            "Trusted: vf/report_parse.py (validated on every report: structural surprises become layout/ violations, not guesses).",
            "runtime monitoring: two observed outputs of one execution compared by an independent parser",
            "C13"),
    "C09": ("exploration",
            "The real ParserX86ATT.parse_line / parse_file are run on text rendered with random layout from random instruction ASTs and mixed files; the result is compared field by field with the AST the text was rendered from (line number, verbatim text, classification, mnemonic, every operand field).",
            "Trusted: the AST generators and renderers in vf/asmgen.py; declared don't-care classes (displacement-only operands first, upper-case 0X) are listed in the evidence.",
            "runtime monitoring: render/parse round trip against the generator's AST",
            "C09"),
    "C10": ("exploration",
            "As C09 for ParserAArch64: scalar/vector/SVE/predicate registers, lists and ranges, immediates incl. floating point, condition codes, labels, memory references with offsets, extended/shifted index registers, pre/post-index; files with '//' comments, labels, directives.",
            "Trusted: vf/asmgen.py; directive parameters are not judged.",
            "runtime monitoring: render/parse round trip against the generator's AST",
            "C10"),
    "C15": ("exploration",
            "Exhaustive in both tiers over all entries and load/store tables of the 17 non-empty models and both ISA databases parsed independently from the YAML: micro-op shape, port membership, numeric fields, comparison with what the real loader built, real average_port_pressure on every entry, real --db-check counts for all models; one rendered instruction per entry through the real parser and semantics (every entry in thorough, a seed-rotated sixth in quick) and through the real CLI.",
            "Trusted: independent ruamel safe-load of the model files, vf/entry_render.py; rendered lines that do not parse or match another entry are counted, not judged.",
            "runtime monitoring: exhaustive per-entry shape oracle + costing every entry through the real path",
            "C15"),
    "C16": ("exploration",
            "The real KernelDG is run on the same kernel through its single-process and its multi-process path (threshold and cpu_count patched) for worker counts 1,2,3,5,16,len+7 while a wrapper inside each forked worker injects seeded delays and logs completion order; dictionaries must be equal incl. order; three true CLI runs must be byte-identical apart from the timestamp. Evidence lists the distinct completion orders observed.",
            "Trusted: delay injection only around a worker's enumeration; fork start method; complete searches only.",
            "runtime monitoring with schedule perturbation: sequential vs multi-process result equality under injected delays",
            "C16"),
    "C20": ("exploration",
            "The real import_benchmark_output (API, in-process CLI and true subprocess) is run on generated ibench/asmbench files (all documented operand codes of both ISAs, fresh/existing/TP-LT-containing mnemonics, measurements around the snapping points, corrupted asmbench blocks); the emitted stream is parsed back as plain YAML and judged against the README naming convention and the 5% snapping rules (don't-care band between 4.7% and 5.6%).",
            "Trusted: the decoder table from README.rst in vf/props/c20.py.",
            "runtime monitoring: generated inputs, emitted model parsed back and compared with a reference decoder/snapper",
            "C20"),
    "C14": ("exploration",
            "Metamorphic runtime check: every rotation of a kernel is analysed by the real pipeline from a fresh parse and the reported loop-carried dependency sets (members mapped back to original instruction indices, latencies) and their maximum are compared across all offsets, for the shipped corpus (<= 40 lines) on shipped models and for generated register, store/load and write-back kernels on synthetic and shipped models.",
            "Trusted: the rotation/mapping code in vf/props/c14.py; complete LCD search (timeout -1) per rotation.",
            "runtime monitoring: metamorphic re-execution over all rotation offsets",
            "C14"),
    "C05": ("exploration",
            "The dictionary returned by the real get_loopcarried_dependencies() is compared with an own exhaustive enumeration of winding-number-1 cycles over the dependency relation of two explicitly concatenated iterations (relation from the real create_DG on the concatenated text, cross-checked against the pure reference relation on the generator's AST): same cycles, each once, members and latency = sum along the cycle, summary figure = maximum; kernels of up to 12 instructions at file line offsets 0/500/998/5000, with and without flag dependencies.",
            "Trusted: vf/ref_graph.cycles_winding_one, vf/depgen (R-deps); the edge relation is C03/C06's subject and disagreements there are only counted here.",
            "runtime monitoring: reported cycles vs independent exhaustive cycle enumeration",
            "C05"),
    "C04": ("exploration",
            "The real KernelDG.get_critical_path() result (marked lines and per-line CP latencies) is judged on the graph it was computed on by an own longest-path computation: reported total between the longest chain with and without the last instruction's independent load, never below any single instruction latency, marked lines pairwise linked, per-line values are the chain's edge weights; workload = C03's synthetic and curated kernels plus the shipped corpus on the models of its ISA; every other synthetic model sets hidden_loads: true; the reference graph is the observed one completed with load stages the builder left out; a second graph over the second half of the same instruction forms is judged and the first graph is judged again afterwards.",
            "Trusted: vf/ref_graph.py; which instructions are linked is taken as observed (C03/C06 judge that), the weight of every edge is checked against the producer's latencies; the dict report is also asked for first on the fresh graph.",
            "runtime monitoring: result vs own longest-path DP over the observed DAG",
            "C04"),
    "C03": ("exploration",
            "The edge set and latency attributes of the dependency graph built by the real pipeline (parser, ISA semantics, arch semantics, KernelDG) are compared with a reference read-after-write relation computed on the generator's AST (architectural register families, flag operands, write-back, zero idioms, default destination rule), for synthetic ISA databases with random roles on synthetic latency models and for a curated real vocabulary on shipped models, with and without flag dependencies.",
            "Trusted: vf/depgen.py (R-deps), the register family table of C12, the curated role table; flag roles of real instructions are those the shipped ISA database declares.",
            "runtime monitoring: observed graph vs reference RAW relation on generator AST",
            "C03"),
    "C06": ("exploration",
            "Edges between store and load lines of the real dependency graph are compared with a symbolic pointer-tracking reference (origin register + constant delta, unknown after any other write) on generated store/load kernels covering every addressing shape, constant bumps, copies, clobbers, AArch64 pre/post-indexed accesses in between, second stores and near-miss loads, on synthetic ISA databases and on the curated vocabulary over shipped models.",
            "Trusted: vf/depgen.ref_store_load; address registers are modified only through their full-width name; a store's own write-back combined with later accesses through that base is don't-care.",
            "runtime monitoring: observed store->load edges vs symbolic address-equality reference",
            "C06"),
    "C08": ("exploration",
            "The state every instruction has after the real ArchSemantics.add_semantics (micro-ops, pressure, latency, latency without load, throughput, flags) is compared with a reference composition computed from the generated model/ISA-database dicts, on kernels that mix several composed, direct, register-only and unknown instructions in random order (fresh model object per kernel, so in-model pollution by one instruction is seen by the next); unknown instructions are additionally removed and the kernel re-analysed to show they change nothing; a curated real vocabulary on shipped models checks order/repetition independence and that pressure is the uniform split of the reported micro-ops.",
            "Trusted: vf/ref_compose.py and vf/ref_match.py; register forms without numeric data and wildcard register classes at the memory position are don't-care.",
            "runtime monitoring: post-state snapshots vs reference composition model; metamorphic re-analysis",
            "C08"),
    "C07": ("exploration",
            "Every get_instruction result is observed for instructions rendered from (a) random entry patterns of synthetic models (all operand kinds, wildcards, duplicates, shadowing, multi-name entries) incl. near misses and suffix fall-backs through the real ArchSemantics.assign_tp_lt, and (b) each entry of all 17 shipped models and both ISA databases (every entry in thorough), all parsed by the real parser; a three-valued reference matcher on plain YAML/AST descriptors decides soundness, completeness and first-match order.",
            "Trusted: vf/ref_match.py (the MUST / MUST-NOT / DON'T-CARE table of DESIGN.md section 2), the renderers of vf/gen_lookup.py; lookups whose text the real parser did not recover as rendered are skipped and counted (parser properties C09/C10).",
            "runtime monitoring: observed lookups vs three-valued reference matcher; per-entry synthesis over all shipped entries",
            "C07"),
    "C01": ("exploration",
            "Wrappers on the real ArchSemantics.add_semantics / assign_optimal_throughput snapshot every instruction's micro-ops and pressure under uniform, one-pass and two-pass (CLI) scheduling on synthetic port models, on streams rendered from every shipped model's own forms and on the shipped corpus through the real CLI; each snapshot is judged by an independent Hall-condition feasibility oracle and the totals by recomputed column sums. Exploration is the honest level: the input space (models x kernels) is unbounded.",
            "Trusted: vf/ref_sched.py (feasibility = non-negativity, support, total, Hall clause over unions of micro-op port sets), the tolerance 0.01 x sum|P_i| for optimised splits; shipped-model micro-ops are taken from the observed port_uops after checking they are an entry's data.",
            "runtime monitoring: state snapshots at hooked methods + reference feasibility oracle (Hall condition)",
            "C01"),
    "C02": ("exploration",
            "Same monitors as C01; the bounded family of the statement (3 ports, 14 single-micro-op forms, 5355 ordered kernels) is enumerated completely in both tiers and the CLI configuration compared with the exact fractional optimum (gap <= 0.15); on random synthetic and shipped-model kernels optimised <= uniform + 0.01 and optimised >= optimum - tolerance.",
            "Trusted: vf/ref_sched.optimum (max over unions S of occurring port sets of confined cycles / |S|, minimum over alternative assignments).",
            "runtime monitoring: bounded-exhaustive family + random kernels against an exact reference optimum",
            "C02"),
    "C12": ("exploration",
            "Exhaustive enumeration of all ordered pairs of register names (x86: 180 names x 3 spellings, AArch64: 324 x 2) through the real parser and the real is_reg_dependend_of, judged by architectural family equality; exhaustive over the finite name space, so this is as strong as runtime observation gets for this property.",
            "Trusted: the architectural family table in vf/props/c12.py; operands are produced by the real parser.",
            "exhaustive pair enumeration against a reference partition (runtime oracle on the real function)",
            "C12"),
}


def main():
    props = [json.loads(l) for l in open(os.path.join(HERE, "properties.jsonl"))]
    ids = [p["id"] for p in props]
    checks = []
    na = []
    for pid in ids:
        if pid in TABLE and os.path.exists(os.path.join(HERE, "vf", "props", pid.lower() + ".py")):
            cat, text, note, tech, ref = TABLE[pid]
            checks.append({
                "property_id": pid,
                "quick_cmd": "./check %s quick" % pid,
                "thorough_cmd": "./check %s thorough" % pid,
                "evidence_file": "/verif/evidence/%s.json" % pid,
                "replay_cmd_template": "./check %s --replay {path}" % pid,
                "engine": "vf",
                "level_claimed": {"category": cat, "text": text, "design_ref": "DESIGN.md section 4, " + ref},
                "level_note": note,
                "technique": tech,
            })
        else:
            na.append({"property_id": pid, "reason": "check not built yet in this round (runtime monitoring applies; see DESIGN.md section 4) - not claimed until its monitor exists and is silent on the unchanged tree"})
    man = {
        "version": 1,
        "setup_cmd": "/venv/bin/python -m vf.isolate",
        "hooks": {
            "guard": "OSACA_VERIF",
            "enable": "no source hooks: monitors are wrappers installed from the harness on module-level attributes of the real code (see DESIGN.md section 0); checks import osaca from $VERIF_REPO (default /repo) via PYTHONPATH under a scratch HOME",
            "baseline_off_cmd": "cd /repo && /venv/bin/python -m pytest -ra -q -p no:cacheprovider --timeout=900 --continue-on-collection-errors",
            "source_commits": [],
            "add_only": True,
        },
        "engines": [{"name": "vf", "path": "/verif/vf", "serves_properties": [c["property_id"] for c in checks],
                     "kind_free_text": "runtime monitoring: sharded workloads drive the real OSACA code; wrappers observe it at its API boundary; independent reference models decide each observed execution"}],
        "checks": checks,
        "not_applicable": na,
        "notes": "Exit codes: 0 held on everything observed (coverage floors reached), 1 VIOLATION, 2 INCONCLUSIVE (floors missed / harness failure). Known findings: /verif/known_findings.json.",
    }
    with open(os.path.join(HERE, "MANIFEST.json"), "w") as f:
        json.dump(man, f, indent=1)
    try:
        import jsonschema
        jsonschema.validate(man, json.load(open("/root/.vp/MANIFEST.schema.json")))
        print("MANIFEST.json valid;", len(checks), "checks,", len(na), "not claimed")
    except ImportError:
        print("written (jsonschema not available for validation)")


if __name__ == "__main__":
    main()
