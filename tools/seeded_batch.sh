#!/bin/bash
# usage: tools/seeded_batch.sh <parallel> id1 id2 ...   -> /verif/.scratch/seeded-<id>.log
cd /verif
P=$1; shift
printf "%s\n" "$@" | xargs -P "$P" -I{} sh -c '/venv/bin/python tools/seeded.py verify seeded/{} > .scratch/seeded-{}.log 2>&1; tail -1 .scratch/seeded-{}.log >> .scratch/seeded-summary.log'
