"""Writes one brief per property for a further round of seeded changes: tools/gen_briefs.py <outdir> <suffix1> <suffix2> <worktree-prefix>"""
import glob, json, os, sys
H = os.path.dirname(os.path.dirname(os.path.abspath(__file__)))
out, s1, s2, wt = sys.argv[1:5]
os.makedirs(out, exist_ok=True)
head = open(H + "/tools/MUTANT_BRIEF.md").read()
for l in open(H + "/properties.jsonl"):
    p = json.loads(l)
    pid = p["id"]
    prev = []
    for d in sorted(glob.glob(H + "/seeded/%s*" % pid)):
        m = json.load(open(d + "/meta.json"))
        t = " ".join(str(m.get("what_changed", m.get("title", ""))).split())[:420]
        prev.append("- %s (files: %s)" % (t, ", ".join(m.get("files", []))))
    w = "%s%s" % (wt, pid)
    body = head + """
## Your assignment
ID: {a} (first change) and {b} (second change)
Worktree: {w}
Deliver the first change in /tmp/osaca-seed-{a}/ and a second, independent one in /tmp/osaca-seed-{b}/ (each with its own patch.diff/demo.py/meta.json; reset your worktree with `git -C {w} checkout -- .` between the two).

Property {pid}: {title}

Statement: {st}

Quantified over: {q}

Why the existing tests cannot settle it: {why}

Code the property is anchored in: {anchor}

## Changes that already exist - yours must use a DIFFERENT mechanism, code site and triggering input shape
{prev}

Look for other places and other clauses of the statement: other functions on the path (parser -> ISA semantics -> arch semantics -> dependency graph -> frontend -> CLI), other operand kinds, other ISA, data files (osaca/data/*.yml, osaca/data/isa/*.yml), interactions between two call sites, rarely taken branches, option combinations, library entry points next to the CLI.
""".format(a=pid + s1, b=pid + s2, w=w, pid=pid, title=p.get("title", ""), st=p.get("statement", ""), q=p["quantifier"]["text"],
           why=p["why_tests_cant"], anchor=", ".join(f.replace("/repo/", "") for f in p["anchors"]["files"]), prev="\n".join(prev))
    open(os.path.join(out, pid + ".md"), "w").write(body)
print("ok")
