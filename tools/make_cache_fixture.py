#!/venv/bin/python
"""Writes fixtures/c17/{zen3.yml, <companion pickle>, meta.json}: a model file and the cache file the tree under /repo writes for
it today. C17 replays this pair as "a cache left behind by an earlier installation of the same INTERNAL_VERSION": a later tree
must either serve identical reports from it or reject it (version bump). Re-run after a deliberate INTERNAL_VERSION bump."""
import glob, json, os, shutil, subprocess, sys, tempfile
V = os.path.dirname(os.path.dirname(os.path.abspath(__file__)))
out = os.path.join(V, "fixtures", "c17")
os.makedirs(out, exist_ok=True)
for f in glob.glob(out + "/*") + glob.glob(out + "/.*.pickle"):
    os.unlink(f)
d = tempfile.mkdtemp(prefix="c17fix-")
home = os.path.join(d, "home")
os.makedirs(os.path.join(home, ".osaca", "data", "isa"))
shutil.copyfile("/repo/osaca/data/zen3.yml", os.path.join(home, ".osaca", "data", "zen3.yml"))
os.symlink("/repo/osaca/data/isa/x86.yml", os.path.join(home, ".osaca", "data", "isa", "x86.yml"))
code = "from osaca.semantics import MachineModel; m = MachineModel(arch='zen3'); print(m['internal_version'] if 'internal_version' in m else MachineModel.INTERNAL_VERSION)"
p = subprocess.run(["/venv/bin/python", "-c", code], env=dict(os.environ, HOME=home, PYTHONPATH="/repo"), capture_output=True, text=True, cwd=d)
print(p.stdout, p.stderr[-300:])
pk = glob.glob(os.path.join(home, ".osaca", "data", ".zen3_*.pickle"))
assert len(pk) == 1, pk
shutil.copyfile(os.path.join(home, ".osaca", "data", "zen3.yml"), os.path.join(out, "zen3.yml"))
shutil.copyfile(pk[0], os.path.join(out, os.path.basename(pk[0])))
head = subprocess.run(["git", "-C", "/repo", "rev-parse", "--short", "HEAD"], capture_output=True, text=True).stdout.strip()
json.dump({"model": "zen3", "pickle": os.path.basename(pk[0]), "written_by_repo_commit": head, "internal_version": p.stdout.strip()},
          open(os.path.join(out, "meta.json"), "w"), indent=1)
shutil.rmtree(d)
print("fixture written:", os.listdir(out))
