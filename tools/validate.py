"""python3-vt tools/validate.py : validates MANIFEST.json and every evidence file against the schemas."""
import glob, json, sys, os
import jsonschema
H = os.path.dirname(os.path.dirname(os.path.abspath(__file__)))
ok = True
try:
    jsonschema.validate(json.load(open(H + "/MANIFEST.json")), json.load(open("/root/.vp/MANIFEST.schema.json")))
    print("MANIFEST ok")
except Exception as e:
    ok = False; print("MANIFEST INVALID", str(e)[:500])
es = json.load(open("/root/.vp/EVIDENCE.schema.json"))
for f in sorted(glob.glob(H + "/evidence/*.json")):
    try:
        jsonschema.validate(json.load(open(f)), es)
    except Exception as e:
        ok = False; print(f, "INVALID", str(e)[:300])
print("evidence files:", len(glob.glob(H + "/evidence/*.json")))
sys.exit(0 if ok else 1)
