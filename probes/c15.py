import glob, os, time, numbers
from osaca.semantics import MachineModel
bad=[]
def chk_uops(mm, pp, where):
    ports=mm.get_ports()
    if pp is None: return
    alts = list(pp.values()) if isinstance(pp, dict) else [pp]
    for alt in alts:
        if not isinstance(alt,(list,tuple)): bad.append((where,'notlist',alt)); continue
        for u in alt:
            if not (isinstance(u,(list,tuple)) and len(u)==2): bad.append((where,'shape',u)); continue
            c,P=u
            if not isinstance(c,numbers.Real) or isinstance(c,bool) or c<0: bad.append((where,'cycles',u)); continue
            Pl=list(P) if isinstance(P,(str,list,tuple)) else None
            if not Pl: bad.append((where,'emptyports',u)); continue
            for p in Pl:
                if p not in ports: bad.append((where,'port',u,p))
        try: mm.average_port_pressure(pp if not isinstance(pp,dict) else alt)
        except Exception as e: bad.append((where,'cost',repr(e)))
for f in sorted(glob.glob('/repo/osaca/data/*.yml')):
    if os.path.getsize(f)==0: continue
    t=time.time(); mm=MachineModel(path_to_yaml=f); n=0
    a=os.path.basename(f)
    for name,forms in mm['instruction_forms_dict'].items():
        for fo in forms:
            n+=1
            w=(a,name,[type(o).__name__ for o in fo.operands])
            chk_uops(mm, fo.port_pressure, w)
            for k in ('throughput','latency'):
                v=getattr(fo,k)
                if v is not None and (not isinstance(v,numbers.Real) or v<0): bad.append((w,k,v))
    for tbl in ('load_throughput','store_throughput'):
        for m,pp in mm[tbl]: chk_uops(mm,pp,(a,tbl))
    for tbl in ('load_throughput_default','store_throughput_default'):
        chk_uops(mm,mm[tbl],(a,tbl))
    print(a,n,len(mm['instruction_forms']),round(time.time()-t,2))
for b in bad: print(b)
print(len(bad))
