from osaca.parser import ParserAArch64
p=ParserAArch64()
for l in ['csel x0, x1, x2, ne','csel x0, x1, x2, ne // foo','csel x0, x1, x2, ne //foo','csel x0, x1, x2, ne//foo','csel x0, x1, x2, ne ','cset w0, ne\t// x', 'ccmp x0, #1, #0, ne  // y']:
    il=p.parse_line(l,1); print(repr(l), type(il.operands[-1]).__name__, il.comment)
