from osaca.parser import ParserX86ATT, ParserAArch64
from osaca.parser.register import RegisterOperand
px=ParserX86ATT(); pa=ParserAArch64()
fam={}
for b in 'abcd':
    for n in (f'r{b}x',f'e{b}x',f'{b}x',f'{b}l',f'{b}h'): fam[n]=b
for b,names in {'sp':['rsp','esp','sp','spl'],'bp':['rbp','ebp','bp','bpl'],'si':['rsi','esi','si','sil'],'di':['rdi','edi','di','dil']}.items():
    for n in names: fam[n]=b
for i in range(8,16):
    for s in ('','d','w','b'): fam[f'r{i}{s}']=f'r{i}'
for i in range(32):
    for v in 'xyz': fam[f'{v}mm{i}']=f'v{i}'
for i in range(8): fam[f'mm{i}']=f'mm{i}'; fam[f'k{i}']=f'k{i}'
fam['rip']='rip'
bad=[]
for cs in (str.lower,str.upper):
  for a in fam:
    for b in fam:
        r=px.is_reg_dependend_of(RegisterOperand(name=cs(a)),RegisterOperand(name=cs(b)))
        if bool(r)!=(fam[a]==fam[b]): bad.append((cs(a),cs(b),r))
print('x86 bad',len(bad),bad[:40])
# mixed case
bad=[]
for a in fam:
    for b in fam:
        r=px.is_reg_dependend_of(RegisterOperand(name=a.upper()),RegisterOperand(name=b))
        if bool(r)!=(fam[a]==fam[b]): bad.append((a,b,r))
print('x86 mixed bad',len(bad),sorted(set(fam[a] for a,b,r in bad)))
afam={}
for i in range(31):
    for pfx in 'wx': afam[(pfx,str(i))]=f'g{i}'
for i in range(32):
    for pfx in 'bhsdqvz': afam[(pfx,str(i))]=f'v{i}'
for i in range(16): afam[('p',str(i))]=f'p{i}'
afam[('x','sp')]='sp'; afam[('w','sp')]='sp'; afam[('x','zr')]='zr'; afam[('w','zr')]='zr'
bad=[]
for cs in (str.lower,str.upper):
  for a in afam:
    for b in afam:
        try: r=pa.is_reg_dependend_of(RegisterOperand(prefix=cs(a[0]),name=cs(a[1])),RegisterOperand(prefix=cs(b[0]),name=cs(b[1])))
        except Exception as e: r=repr(e)
        if r!=(afam[a]==afam[b]): bad.append((a,b,r))
print('a64 bad',len(bad),bad[:10], sorted(set(afam[a] for a,b,r in bad))[:50])
bad=[]
for a in afam:
    for b in afam:
        r=pa.is_reg_dependend_of(RegisterOperand(prefix=a[0].upper(),name=a[1].upper()),RegisterOperand(prefix=b[0],name=b[1]))
        if r!=(afam[a]==afam[b]): bad.append((a,b,r))
print('a64 mixed bad',len(bad),sorted(set(afam[a] for a,b,r in bad)))
