import glob, os, collections, sys, time, traceback
from osaca.semantics import MachineModel, ArchSemantics
from osaca.parser import get_parser
from osaca.parser.register import RegisterOperand
from osaca.parser.memory import MemoryOperand
from osaca.parser.immediate import ImmediateOperand
from osaca.parser.identifier import IdentifierOperand
from osaca.parser.condition import ConditionOperand
from osaca.parser.prefetch import PrefetchOperand

def x86_reg(name, n):
    if name in ('gpr','*',None): return '%'+['rax','rbx','rcx','rdx','rsi','rdi','r8','r9'][n%8]
    if name in ('xmm','ymm','zmm'): return f'%{name}{n%16}'
    if name=='mm': return f'%mm{n%8}'
    if name=='k': return f'%k{1+n%7}'
    return '%'+name
def x86_mem(m, n):
    s=''
    off = m.offset; base=m.base; idx=m.index; sc=m.scale
    if off in ('imd','*') or isinstance(off,ImmediateOperand): s+='16'
    elif isinstance(off,IdentifierOperand) or off=='id': s+='lbl'
    b = '' if base is None else x86_reg('gpr' if isinstance(base,str) else base.name, n+1)
    i = '' if idx is None else x86_reg('gpr' if isinstance(idx,str) else idx.name, n+2)
    if idx is None: inner=b
    else:
        scv = 8 if sc in ('*',8) else sc
        inner=f'{b},{i},{scv}' if scv!=1 else f'{b},{i}'
    return s+'('+inner+')' if (b or i) else (s or '0')
def render_x86(form):
    ops=[]
    for n,o in enumerate(form.operands):
        if isinstance(o,RegisterOperand): ops.append(x86_reg(o.name,n))
        elif isinstance(o,MemoryOperand): ops.append(x86_mem(o,n))
        elif isinstance(o,ImmediateOperand): ops.append('$1')
        elif isinstance(o,IdentifierOperand): ops.append('.L1')
        else: ops.append('?')
    return form.mnemonic.lower()+' '+', '.join(ops)
def a64_reg(o,n):
    p=o.prefix
    if p in ('*',None): p='x' if o.shape is None else 'v'
    if p in 'wxbhsdq': return f'{p}{n+1}'
    if p in 'vz':
        sh=o.shape
        if sh is None: return f'{p}{n+1}'
        if sh=='*': sh='d'
        lanes={'b':'16','h':'8','s':'4','d':'2'}.get(sh,'') if p=='v' else ''
        return f'{p}{n+1}.{lanes}{sh}'
    if p=='p':
        sh=o.shape
        if sh is None: return f'p{n+1}'
        if sh=='*': sh='d'
        return f'p{n+1}.{sh}'
    return f'{p}{n+1}'
def a64_mem(m,n):
    base='x'+str(n+10)
    inner=base
    idx=m.index
    if idx is not None and idx!='*' or (idx=='*' and False):
        ip = idx if isinstance(idx,str) else idx.prefix
        if ip=='z': inner+=f', z{n+3}.d'
        else:
            inner+=f', {ip if ip not in ("*","gpr") else "x"}{n+3}'
        if m.scale not in (1,None): inner+=', lsl #3'
    elif m.offset in ('imd','*') or isinstance(m.offset,ImmediateOperand):
        if not (m.post_indexed is True): inner+=', #16'
    s='['+inner+']'
    if m.pre_indexed is True: s+='!'
    if m.post_indexed is True: s+=', #16'
    return s
def render_a64(form):
    ops=[]
    for n,o in enumerate(form.operands):
        if isinstance(o,RegisterOperand): ops.append(a64_reg(o,n))
        elif isinstance(o,MemoryOperand): ops.append(a64_mem(o,n))
        elif isinstance(o,ImmediateOperand):
            ops.append({'int':'#1','float':'#1.0e+0f','double':'#1.0e+0','*':'#1'}.get(o.imd_type,'#1'))
        elif isinstance(o,IdentifierOperand): ops.append('.L1')
        elif isinstance(o,ConditionOperand): ops.append('eq' if o.ccode=='*' else o.ccode.lower())
        elif isinstance(o,PrefetchOperand): ops.append('pldl1keep')
        else: ops.append('?')
    return form.mnemonic.lower()+' '+', '.join(ops)

if __name__=='__main__':
    res=collections.Counter(); examples=collections.defaultdict(list)
    for f in sorted(glob.glob('/repo/osaca/data/*.yml')):
        if os.path.getsize(f)==0: continue
        a=os.path.basename(f)[:-4]
        if len(sys.argv)>1 and a not in sys.argv[1:]: continue
        mm=MachineModel(arch=a); isa=mm.get_ISA(); sem=ArchSemantics(mm); p=get_parser(isa)
        t=time.time()
        for name,forms in mm['instruction_forms_dict'].items():
            for fo in forms:
                line=(render_x86 if isa=='x86' else render_a64)(fo)
                try:
                    il=p.parse_line(line,1)
                except Exception as e:
                    res[(a,'parse')]+=1; examples[(a,'parse')].append(line); continue
                try:
                    sem.assign_src_dst(il); sem.assign_tp_lt(il)
                except Exception as e:
                    k=(a,'crash',type(e).__name__); res[k]+=1; examples[k].append((line,repr(e)[:80])); continue
                got=mm.get_instruction(il.mnemonic, il.operands)
                if got is None: res[(a,'nomatch')]+=1; examples[(a,'nomatch')].append(line)
                elif got is not fo: res[(a,'other')]+=1; examples[(a,'other')].append(line)
                else: res[(a,'ok')]+=1
        print(a, round(time.time()-t,1), file=sys.stderr)
    for k,v in sorted(res.items()): print(k,v, examples[k][:6] if k[1]!='ok' else '')
