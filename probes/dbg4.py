from osaca.parser import ParserAArch64
import pyparsing as pp
p=ParserAArch64()
s="ne // foo"
for name,expr in (('condition',p.condition),):
    print(name, list(expr.scanString(s))[:1])
# reconstruct identifier as in the parser to see the end loc
decimal_number = pp.Combine(pp.Optional(pp.Literal("-")) + pp.Word(pp.nums)).setResultsName("value")
hex_number = pp.Combine(pp.Optional(pp.Literal("-")) + pp.Literal("0x") + pp.Word(pp.hexnums)).setResultsName("value")
relocation = pp.Combine(pp.Literal(":") + pp.Word(pp.alphanums + "_") + pp.Literal(":"))
first = pp.Word(pp.alphas + "_.", exact=1); rest = pp.Word(pp.alphanums + "_.")
identifier = pp.Group(pp.Optional(relocation).setResultsName("relocation") + pp.Combine(first + pp.Optional(rest)).setResultsName("name") + pp.Optional(pp.Suppress(pp.Literal("+")) + (hex_number | decimal_number).setResultsName("offset"))).setResultsName("identifier")
for e in (identifier, p.condition, pp.Group(pp.Optional(pp.Literal("#"))+identifier)):
    toks,start,end = next(e.scanString(s)); print(repr(e)[:40], start,end)
print(pp.__version__)
