import random, sys
from osaca.parser import ParserAArch64
from osaca.parser.register import RegisterOperand
from osaca.parser.memory import MemoryOperand
from osaca.parser.immediate import ImmediateOperand
from osaca.parser.identifier import IdentifierOperand
from osaca.parser.condition import ConditionOperand
p=ParserAArch64()
MN=['add','sub','fmla','fmul','ldr','str','ldp','stp','mov','cmp','b.ne','b.eq','fadd','ld1d','st1d','madd','csel','fmov','ld1','st1','dup','whilelo','ptrue','ret','nop','subs','bne']
CC=['eq','ne','cs','hs','cc','lo','mi','pl','vs','vc','hi','ls','ge','lt','gt','le','al']
def up(r,s): return s.upper() if r.random()<0.15 else s
def rnd_reg(r):
    k=r.random()
    if k<0.35:
        pf=r.choice('xw'); n=r.randint(0,30); return ('reg',dict(prefix=pf,name=str(n))), up(r,f'{pf}{n}')
    if k<0.5:
        pf=r.choice('bhsdq'); n=r.randint(0,31); return ('reg',dict(prefix=pf,name=str(n))), up(r,f'{pf}{n}')
    if k<0.75:
        n=r.randint(0,31); lanes,sh=r.choice([('16','b'),('8','b'),('8','h'),('4','h'),('4','s'),('2','s'),('2','d'),('1','d'),(None,'s'),(None,'d'),(None,'b'),(None,'h')])
        idx=r.randint(0,3) if r.random()<0.3 else None
        t=f'v{n}.{lanes or ""}{sh}'+(f'[{idx}]' if idx is not None else '')
        return ('reg',dict(prefix='v',name=str(n),lanes=lanes,shape=sh,index=None if idx is None else str(idx))), t
    if k<0.9:
        n=r.randint(0,31); sh=r.choice(['b','h','s','d',None])
        t=f'z{n}'+(f'.{sh}' if sh else '')
        return ('reg',dict(prefix='z',name=str(n),shape=sh)), t
    n=r.randint(0,15); v=r.choice([None,'/z','/m','.d','.s','.b'])
    d=dict(prefix='p',name=str(n))
    if v in ('/z','/m'): d['predication']=v[1]
    elif v: d['shape']=v[1]
    return ('reg',d), f'p{n}'+(v or '')
def rnd_imm(r):
    k=r.random()
    hs=r.choice(['#','#','']) 
    if k<0.6:
        v=r.randint(-4096,4096) if r.random()<0.7 else r.choice([0,2**32-1,2**63,-2**63])
        if r.random()<0.35: s=('-' if v<0 else '')+'0x'+format(abs(v),'x')
        else: s=str(v)
        return ('imm',v), hs+s
    if k<0.8:
        m=r.choice(['1.0','2.5','0.5','-1.25']); e=r.randint(0,3); sg=r.choice('+-')
        return ('fimm',float(m)*10**(e if sg=='+' else -e),'double'), hs+f'{m}e{sg}{e}'
    m=r.choice(['1.0','2.5','0.5']); e=r.randint(0,3); sg=r.choice('+-')
    return ('fimm',float(m)*10**(e if sg=='+' else -e),'float'), hs+f'{m}e{sg}{e}f'
def rnd_mem(r):
    base=r.choice(['sp']+[f'x{i}' for i in range(31)])
    k=r.random(); d=dict(base=base,offset=None,index=None,scale=1,pre=False,post=None)
    if k<0.2: t=f'[{base}]'
    elif k<0.45:
        v=r.randint(-512,512); d['offset']=v; t=f'[{base}, #{v}]'
    elif k<0.6:
        v=r.randint(-512,512); d['offset']=v; d['pre']=True; t=f'[{base}, #{v}]!'
    elif k<0.75:
        v=r.randint(-512,512); d['post']=v; t=f'[{base}], #{v}'
    else:
        ip=r.choice('xw'); n=r.randint(0,30); d['index']=(ip,str(n))
        if r.random()<0.6:
            sh=r.randint(0,4); op=r.choice(['lsl','sxtw','uxtw']) if ip=='w' or True else 'lsl'
            d['scale']=2**sh; t=f'[{base}, {ip}{n}, {op} #{sh}]'
        else: t=f'[{base}, {ip}{n}]'
    return ('mem',d), t
def gen_line(r):
    mn=r.choice(MN); n=r.randint(0,4); ops=[];txt=[]
    for i in range(n):
        k=r.random(); last=(i==n-1)
        if last and k<0.35: o,t=rnd_mem(r)
        elif k<0.7: o,t=rnd_reg(r)
        elif k<0.9: o,t=rnd_imm(r)
        elif i>0 and last: c=r.choice(CC); o,t=('cc',c.upper()), up(r,c)
        else: o,t=rnd_reg(r)
        ops.append(o); txt.append(t)
    sp=lambda: r.choice(['',' ','  ','\t'])
    line=r.choice(['','\t','    '])+mn+(r.choice([' ','\t','   ']) if n else '')+(sp()+','+sp()).join(txt)
    if r.random()<0.3: line+=r.choice([' ','\t',''])+'// c'
    return line,mn,ops
def check(line,mn,ops):
    il=p.parse_line(line,7); errs=[]
    if il.mnemonic!=mn: errs.append(('mn',il.mnemonic))
    if len(il.operands)!=len(ops): return errs+[('nops',len(il.operands),il.operands)]
    for o,e in zip(il.operands,ops):
        k=e[0]
        if k=='reg':
            d=e[1]
            ok=isinstance(o,RegisterOperand) and o.prefix==d['prefix'] and str(o.name).lower()==d['name'] and o.shape==d.get('shape') and o.lanes==d.get('lanes') and (o.index==d.get('index')) and o.predication==d.get('predication')
            if not ok: errs.append(('reg',d,o))
        elif k=='imm':
            if not(isinstance(o,ImmediateOperand) and o.value==e[1]): errs.append(('imm',e,o))
        elif k=='fimm':
            ok=isinstance(o,ImmediateOperand) and o.imd_type==e[2]
            if ok:
                v=p.normalize_imd(o); ok=abs(v-e[1])<1e-9*max(1,abs(e[1]))
            if not ok: errs.append(('fimm',e,o))
        elif k=='cc':
            if not(isinstance(o,ConditionOperand) and o.ccode==e[1]): errs.append(('cc',e,o))
        else:
            d=e[1]
            ok=isinstance(o,MemoryOperand) and o.base is not None and o.base.name.lower()==(d['base'] if d['base']=='sp' else d['base'][1:]) and o.base.prefix=='x'
            if ok: ok=(o.offset is None)==(d['offset'] is None) and (d['offset'] is None or o.offset.value==d['offset'])
            if ok: ok=(o.index is None)==(d['index'] is None) and (d['index'] is None or (o.index.prefix,o.index.name)==d['index'])
            if ok: ok=o.scale==d['scale'] and bool(o.pre_indexed)==d['pre']
            if ok: ok=(d['post'] is None and not o.post_indexed) or (d['post'] is not None and o.post_indexed=={'value':d['post']})
            if not ok: errs.append(('mem',d,o))
    return errs
r=random.Random(int(sys.argv[1])); N=int(sys.argv[2]); bad=0; kinds={}
for _ in range(N):
    line,mn,ops=gen_line(r)
    try: e=check(line,mn,ops)
    except Exception as ex: e=[('EXC',repr(ex)[:150])]
    if e:
        bad+=1; k=str(e[0][0])
        if kinds.setdefault(k,0)<5: print(repr(line),e[:1])
        kinds[k]+=1
print(bad,N,kinds)
