import glob, os, collections, sys
from synth_instr import *
from osaca.parser.register import RegisterOperand as R
from osaca.parser.memory import MemoryOperand as M
from osaca.parser.immediate import ImmediateOperand as I
from osaca.parser.identifier import IdentifierOperand as Id
from osaca.parser.condition import ConditionOperand as C
from osaca.parser.prefetch import PrefetchOperand as P
MUST,NOT,DC='MUST','NOT','DC'
X86CLASS={'gpr','xmm','ymm','zmm','mm','k','*'}
def x86_regclass(name):
    n=name.lower()
    import re
    if re.fullmatch(r'[xyz]mm\d+',n): return n[:3]
    if re.fullmatch(r'mm\d',n): return 'mm'
    if re.fullmatch(r'k[0-7]',n): return 'k'
    if re.fullmatch(r'r(1[0-5]|[89])[dwb]?',n) or n in {'rax','eax','ax','al','ah','rbx','ebx','bx','bl','bh','rcx','ecx','cx','cl','ch','rdx','edx','dx','dl','dh','rsi','esi','si','sil','rdi','edi','di','dil','rbp','ebp','bp','bpl','rsp','esp','sp','spl'}: return 'gpr'
    return 'other'
def ref_x86_reg(e,o):
    if e.name not in X86CLASS: return DC
    if e.name=='*': return MUST
    c=x86_regclass(o.name)
    if e.name=='gpr': return MUST if c=='gpr' else (NOT if c in('xmm','ymm','zmm','mm') else DC)
    return MUST if c==e.name else NOT
def fld(ev, present, cls_ok):
    if ev=='*': return MUST
    if ev is None: return MUST if not present else NOT
    return (MUST if cls_ok else NOT) if present else NOT
def comb(*rs):
    if NOT in rs: return NOT
    if DC in rs: return DC
    return MUST
def ref_x86_mem(e,o):
    def regcls(ev,reg):
        if ev in (None,'*'): return True
        if isinstance(ev,R): ev=ev.name
        return ev=='gpr' and x86_regclass(reg.name)=='gpr'
    rb=fld(e.base if not isinstance(e.base,R) else e.base.name, o.base is not None, o.base is not None and regcls(e.base,o.base))
    ri=fld(e.index if not isinstance(e.index,R) else e.index.name, o.index is not None, o.index is not None and regcls(e.index,o.index))
    if e.offset=='*': ro=MUST
    elif e.offset is None: ro=MUST if o.offset is None else NOT
    elif e.offset=='imd': ro=MUST if isinstance(o.offset,I) else NOT
    elif e.offset=='id' or isinstance(e.offset,Id): ro=MUST if isinstance(o.offset,Id) else NOT
    else: ro=DC
    if e.scale=='*': rs=MUST
    elif e.scale is None: rs=DC
    else: rs=MUST if (o.scale==e.scale or (o.scale!=1 and e.scale!=1)) else NOT
    return comb(rb,ri,ro,rs)
def ref_x86(e,o):
    if isinstance(o,R): return ref_x86_reg(e,o) if isinstance(e,R) else NOT
    if isinstance(o,M): return ref_x86_mem(e,o) if isinstance(e,M) else NOT
    if isinstance(o,I): return MUST if (isinstance(e,I) and e.imd_type=='int') else NOT
    if isinstance(o,Id): return MUST if isinstance(e,Id) else NOT
    return DC
A64P=set('wxbhsdqvzp')|{'*'}
def ref_a64_reg(e,o):
    if e.prefix not in A64P: return DC
    if e.prefix!='*' and e.prefix!=o.prefix: return NOT
    if (e.shape is None)!=(o.shape is None): return DC
    if e.shape is None: return MUST
    return MUST if (e.shape==o.shape or '*' in (e.shape,o.shape)) else NOT
def ref_a64_mem(e,o):
    # base
    if e.base=='*': rb=MUST
    elif e.base is None: rb=MUST if o.base is None else NOT
    else: rb=MUST if (o.base is not None and o.base.prefix==e.base) else NOT
    if e.offset=='*': ro=MUST
    elif e.offset is None: ro=MUST if o.offset is None else NOT
    elif e.offset=='imd': ro=MUST if isinstance(o.offset,I) else NOT
    else: ro=DC
    ei=e.index
    if ei=='*': ri=MUST
    elif ei is None: ri=MUST if o.index is None else NOT
    elif isinstance(ei,str): ri=(MUST if (o.index is not None and o.index.prefix==ei) else NOT) if ei in 'wxz' else DC
    else: ri=DC
    if e.scale=='*': rs=MUST
    elif e.scale is None: rs=DC
    else: rs=MUST if (o.scale==e.scale or (o.scale!=1 and e.scale!=1)) else NOT
    rp=MUST if (e.pre_indexed=='*' or bool(e.pre_indexed)==bool(o.pre_indexed)) else NOT
    rq=MUST if (e.post_indexed=='*' or bool(e.post_indexed)==bool(o.post_indexed)) else NOT
    return comb(rb,ro,ri,rs,rp,rq)
def ref_a64(e,o):
    if isinstance(o,R): return ref_a64_reg(e,o) if isinstance(e,R) else NOT
    if isinstance(o,M): return ref_a64_mem(e,o) if isinstance(e,M) else NOT
    if isinstance(o,I):
        if o.identifier is not None: return DC
        if not isinstance(e,I): return NOT
        if e.imd_type=='*': return MUST
        return MUST if e.imd_type==o.imd_type else NOT
    if isinstance(o,Id): return MUST if isinstance(e,Id) else NOT
    if isinstance(o,C): return (MUST if e.ccode in ('*',o.ccode) else NOT) if isinstance(e,C) else NOT
    if isinstance(o,P): return MUST if isinstance(e,P) else NOT
    return DC
def ref_ops(isa,eops,ops):
    if len(eops)!=len(ops): return NOT
    f=ref_x86 if isa=='x86' else ref_a64
    return comb(*[f(e,o) for e,o in zip(eops,ops)]) if ops else MUST
if __name__=="__main__":
    res=collections.Counter(); ex=collections.defaultdict(list)
    for f in sorted(glob.glob('/repo/osaca/data/*.yml'))+sorted(glob.glob('/repo/osaca/data/isa/*.yml')):
        if os.path.getsize(f)==0: continue
        a=f.split('/data/')[1][:-4]
        if len(sys.argv)>1 and a not in sys.argv[1:]: continue
        mm=MachineModel(arch=a); isa=mm.get_ISA(); p=get_parser(isa)
        for name,forms in mm['instruction_forms_dict'].items():
            parsed=[]
            for fo in forms:
                line=(render_x86 if isa=='x86' else render_a64)(fo)
                try: parsed.append((fo,line,p.parse_line(line,1)))
                except Exception: res[(a,'parse')]+=1
            for fo,line,il in parsed:
                for e in forms:
                    try: act=bool(mm._match_operands(e.operands, il.operands))
                    except Exception as exn: res[(a,'EXC')]+=1; ex[(a,'EXC')].append((line,repr(exn)[:60])); continue
                    r=ref_ops(isa,e.operands,il.operands)
                    if r==DC: res[(a,'dc')]+=1
                    elif (r==MUST)!=act:
                        k=(a,'MISMATCH',r); res[k]+=1
                        if len(ex[k])<5: ex[k].append((line,[str(o)[:70] for o in e.operands]))
                    else: res[(a,'agree')]+=1
    for k,v in sorted(res.items()): print(k,v); [print('     ',e) for e in ex.get(k,[])]
