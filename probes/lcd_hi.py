from dg import *
from osaca.parser import get_parser
code="addq $8, %rax\nvaddpd %ymm1, %ymm2, %ymm2\n"
p=get_parser('x86')
for start in (0, 997, 998, 999, 1500):
    k=p.parse_file(code, start)
    mm=MachineModel(arch='zen2'); sem=ArchSemantics(mm); sem.add_semantics(k)
    try:
        g=KernelDG(k,p,mm,sem,10,False)
        print(start, {k_:(v['latency'],[(n.line_number,l) for n,l in v['dependencies']]) for k_,v in g.get_loopcarried_dependencies().items()})
    except Exception as e:
        print(start,'EXC',type(e),e)
