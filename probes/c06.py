from dg import analyze
tests=[
 ("x86 inc/dec/mov", "zen2", "vmovapd %ymm1, 8(%rax)\nincq %rax\nvmovapd 7(%rax), %ymm2\ndecq %rax\nvmovapd 8(%rax), %ymm3\nmovq %rax, %rbx\nvmovapd 8(%rbx), %ymm4\nsubq $8, %rbx\nvmovapd 16(%rbx), %ymm5\nvmovapd 8(%rbx), %ymm6\n"),
 ("x86 index", "zen2", "vmovapd %ymm1, 8(%rax,%rcx,8)\naddq $2, %rcx\nvmovapd -8(%rax,%rcx,8), %ymm2\nvmovapd 8(%rax,%rcx,8), %ymm3\nvmovapd -8(%rax,%rcx,4), %ymm4\nvmovapd -8(%rax,%rdx,8), %ymm5\n"),
 ("x86 kill", "zen2", "vmovapd %ymm1, (%rax)\nvmovapd (%rax), %ymm2\nvmovapd %ymm3, (%rax)\nvmovapd (%rax), %ymm4\n"),
 ("x86 32bit bump", "zen2", "vmovapd %ymm1, (%rax)\naddl $8, %eax\nvmovapd (%rax), %ymm2\n"),
 ("x86 lea", "zen2", "vmovapd %ymm1, (%rax)\nleaq 8(%rax), %rax\nvmovapd -8(%rax), %ymm2\nvmovapd (%rax), %ymm3\n"),
 ("x86 unknown mod", "zen2", "vmovapd %ymm1, (%rax)\nimulq %rbx, %rax\nvmovapd (%rax), %ymm2\n"),
]
for name,arch,code in tests:
    k,g=analyze(code,arch)
    st=[i.line_number for i in k if 'performs_store' in i.flags]
    print(name, sorted((a,b,d['latency']) for a,b,d in g.dg.edges(data=True) if a in st))
