import io, re, subprocess, random, sys
from osaca.osaca import create_parser, check_arguments, run
def norm(s): return re.sub(r'Timestamp:.*','',s)
def go(argv):
    parser=create_parser(); args=parser.parse_args(argv); check_arguments(args,parser)
    out=io.StringIO(); run(args,output_file=out); return norm(out.getvalue())
def fresh(argv): return norm(subprocess.run(['/venv/bin/python','-m','osaca']+argv,capture_output=True,text=True).stdout)
cases=[['--arch','zen2','/repo/examples/triad/triad.s.zen.gcc.s'],['--arch','tx2','/repo/examples/gs/gs.s.tx2.gcc.s'],['--arch','spr','--fixed','/repo/examples/j2d/j2d.s.csx.icc.AVX.s'],['--arch','zen2','-f','/repo/tests/test_files/kernel_x86_memdep.s'],['--arch','v2','/repo/tests/test_files/kernel_aarch64.s'],['/repo/examples/copy/copy.s.tx2.gcc.s'],['--arch','zen1','rmw.s'],['--arch','icx','--ignore-unknown','rmw2.s']]
ref=[fresh(c) for c in cases]
r=random.Random(3); bad=0
seq=[r.randrange(len(cases)) for _ in range(24)]
for i in seq:
    if go(cases[i])!=ref[i]: bad+=1; print('DIFF',cases[i])
print('bad',bad,'of',len(seq))
