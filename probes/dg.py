import sys
from osaca.semantics import MachineModel, ArchSemantics, KernelDG
from osaca.parser import get_parser
def analyze(code, arch, flag=False, opt=False):
    isa=MachineModel.get_isa_for_arch(arch)
    p=get_parser(isa); k=p.parse_file(code)
    mm=MachineModel(arch=arch); sem=ArchSemantics(mm); sem.add_semantics(k)
    if opt:
        sem.assign_optimal_throughput(k); sem.assign_optimal_throughput(k)
    g=KernelDG(k,p,mm,sem,10,flag)
    return k,g
if __name__=='__main__':
    arch=sys.argv[1]; code=open(sys.argv[2]).read() if len(sys.argv)>2 else sys.stdin.read()
    k,g=analyze(code,arch, flag='-f' in sys.argv)
    for i in k: print(i.line_number, i.line.strip(), '| lat',i.latency, 'wo',i.latency_wo_load, 'tp',i.throughput, i.flags)
    print(sorted((a,b,d['latency']) for a,b,d in g.dg.edges(data=True)))
    cp=g.get_critical_path(); print('CP',[ (x.line_number,x.latency_cp) for x in cp], sum(x.latency_cp for x in cp))
    print('LCD',{k_:(v['latency'],[(n.line_number,l) for n,l in v['dependencies']]) for k_,v in g.get_loopcarried_dependencies().items()})
