from dg import analyze
code="cmpq %rax, %rbx\naddq $1, %rcx\naddq %rdx, %rsi\nsubq $1, %rdi\nincq %r8\nadcq %r9, %r10\njne .L1\nvaddpd %ymm1, %ymm2, %ymm3\nxorl %eax, %eax\nimulq %rbx, %rcx\ntestq %rax, %rax\nje .L2\n"
for arch in ('zen2','spr'):
    k,g=analyze(code,arch,flag=True)
    for i in k: print(i.line_number,i.line, '| src', [getattr(o,'name',None) for o in i.semantic_operands['source'] if type(o).__name__=='FlagOperand'],'dst',[getattr(o,'name',None) for o in i.semantic_operands['destination'] if type(o).__name__=='FlagOperand'], 'srcdst',[getattr(o,'name',None) for o in i.semantic_operands['src_dst'] if type(o).__name__=='FlagOperand'])
    print(sorted((a,b) for a,b in g.dg.edges()))
    break
