import glob, os, collections
from osaca.semantics import MachineModel
from osaca.parser.register import RegisterOperand
from osaca.parser.memory import MemoryOperand
from osaca.parser.immediate import ImmediateOperand
from osaca.parser.identifier import IdentifierOperand
from osaca.parser.condition import ConditionOperand
from osaca.parser.prefetch import PrefetchOperand
def key(o):
    if isinstance(o,RegisterOperand): return ('reg',o.name,o.prefix,o.shape,o.lanes,o.mask,o.pre_indexed,o.post_indexed)
    if isinstance(o,MemoryOperand): return ('mem',repr(o.base) if not isinstance(o.base,str) else o.base,str(o.offset),repr(o.index) if not isinstance(o.index,(str,type(None))) else o.index,o.scale,o.pre_indexed,o.post_indexed)
    if isinstance(o,ImmediateOperand): return ('imd',o.imd_type)
    if isinstance(o,IdentifierOperand): return ('id',)
    if isinstance(o,ConditionOperand): return ('cc',o.ccode)
    if isinstance(o,PrefetchOperand): return ('prf',)
    return ('other',repr(o)[:80])
for isa,files in (('x86',['zen2','spr','icl','ivb','hsw','icx','snb','zen1','zen3','zen4','isa/x86']),('aarch64',['a64fx','a72','m1','n1','tsv110','tx2','v2','isa/aarch64'])):
    c=collections.Counter()
    for a in files:
        mm=MachineModel(path_to_yaml=f'/repo/osaca/data/{a}.yml')
        for name,forms in mm['instruction_forms_dict'].items():
            for fo in forms:
                for o in fo.operands: c[key(o)]+=1
    print(isa,len(c))
    for k,v in sorted(c.items(),key=lambda kv:-kv[1]): print('  ',v,k)
