import itertools, tempfile, os, sys, time
from synth import *
ports=['0','1','2']
subsets=[list(s) for r in (1,2,3) for s in itertools.combinations(ports,r)]
forms=[]
for ci,c in enumerate((1,2)):
    for si,S in enumerate(subsets):
        forms.append((f'g{c}s{si}',2,[[c,S]],1.0,1.0))
d=tempfile.mkdtemp()
mm=load_model(make_model_yaml(ports,forms),d); sem=ArchSemantics(mm); p=get_parser('x86')
names1=[f[0] for f in forms if f[2][0][0]==1]; names=[f[0] for f in forms]
fm={f[0]:f[2][0] for f in forms}
def opt(kern):
    best=0
    for r in (1,2,3):
        for S in itertools.combinations(ports,r):
            conf=sum(fm[n][0] for n in kern if set(fm[n][1])<=set(S))
            best=max(best,conf/len(S))
    return best
kernels=[]
for L in range(1,5):
    kernels+=list(itertools.product(names1,repeat=L))
for L in range(1,4):
    kernels+=[k for k in itertools.product(names,repeat=L) if any(fm[n][0]==2 for n in k)]
print(len(kernels))
t=time.time()
w1=w2=0;under=0;worse=0
for kern in kernels:
    code="\n".join(f"{n} %rax, %rbx" for n in kern)+"\n"
    k=p.parse_file(code); sem.add_semantics(k)
    fx=max(sem.get_throughput_sum(k))
    sem.assign_optimal_throughput(k); o1=max(sem.get_throughput_sum(k))
    sem.assign_optimal_throughput(k); o2=max(sem.get_throughput_sum(k))
    ex=opt(kern)
    if o1-ex>w1: w1=o1-ex; k1=kern
    if o2-ex>w2: w2=o2-ex; k2=kern
    under=max(under,ex-o1,ex-o2); worse=max(worse,o1-fx,o2-fx)
print('gap1',w1,k1,'gap2',w2,k2,'under',under,'worse',worse,time.time()-t)
