import time, sys
from dg import *
n=int(sys.argv[1])
# each instruction reads the two previous results -> Fibonacci many paths
regs=[f'%xmm{i}' for i in range(16)]
lines=[]
for i in range(n):
    a=regs[(i-1)%3]; b=regs[(i-2)%3]; d=regs[i%3]
    lines.append(f'vaddpd {a}, {b}, {d}')
code="\n".join(lines)+"\n"
p=get_parser('x86'); k=p.parse_file(code)
mm=MachineModel(arch='zen2'); sem=ArchSemantics(mm); sem.add_semantics(k)
t=time.time(); g=KernelDG(k,p,mm,sem,1,False); print(n,'took',round(time.time()-t,2),'timed_out',g.timed_out,len(g.get_loopcarried_dependencies()))
