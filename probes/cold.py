import time, sys
from osaca.semantics import MachineModel
from osaca import utils
print(utils.DATA_DIRS)
for a in sys.argv[1:]:
    t=time.time(); m=MachineModel(arch=a); print(a, round(time.time()-t,1), m._path, flush=True)
