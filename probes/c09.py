import random, sys
from osaca.parser import ParserX86ATT
from osaca.parser.register import RegisterOperand
from osaca.parser.memory import MemoryOperand
from osaca.parser.immediate import ImmediateOperand
from osaca.parser.identifier import IdentifierOperand
p=ParserX86ATT()
G64=['rax','rbx','rcx','rdx','rsi','rdi','rbp','rsp']+[f'r{i}' for i in range(8,16)]
G32=['eax','ebx','ecx','edx','esi','edi','ebp','esp']+[f'r{i}d' for i in range(8,16)]
G16=['ax','bx','cx','dx','si','di','bp','sp']+[f'r{i}w' for i in range(8,16)]
G8=['al','bl','cl','dl','ah','bh','ch','dh','sil','dil','bpl','spl']+[f'r{i}b' for i in range(8,16)]
VEC=[f'{v}mm{i}' for v in 'xyz' for i in range(32)]
MN=['mov','movq','addq','vaddpd','vfmadd231pd','lea','leaq','imul','cmpl','xorl','vmovapd','incq','nop','vzeroupper','shlq','movzbl','prefetcht0','jne','call','ret','cltq','vpgatherdd']
def rnd_reg(r): 
    return r.choice(r.choice([G64,G32,G16,G8,VEC]))
def rnd_imm(r):
    k=r.random()
    if k<0.3: v=r.randint(-300,300)
    elif k<0.5: v=r.choice([0,1,-1,2**31-1,-2**31,2**63-1,-2**63,2**64-1])
    else: v=r.randint(-2**40,2**40)
    hexf=r.random()<0.4
    if hexf: s=('-' if v<0 else '')+'0x'+format(abs(v),r.choice(['x','X']))
    else: s=str(v)
    return v,s
def rnd_mem(r):
    hb,hi,hd=r.choice([(b,i,d) for b in (0,1) for i in (0,1) for d in (0,1) if b or i or d])
    base=r.choice(G64) if hb else None; idx=r.choice(G64) if hi else None
    sc=r.choice([None,1,2,4,8]) if hi else None
    dv,ds=rnd_imm(r) if hd else (None,'')
    if dv is not None and abs(dv)>2**31: dv,ds= (dv%1000, str(dv%1000))
    if not hb and not hi: return rnd_mem(r)
    sp=lambda: r.choice(['',' ','  ','\t'])
    inner=(('%'+base) if base else '')
    if idx:
        inner+=sp()+','+sp()+'%'+idx
        if sc is not None: inner+=sp()+','+sp()+str(sc)
    return (dv,base,idx,sc or 1), ds+'('+sp()+inner+sp()+')'
def gen_line(r):
    mn=r.choice(MN); n=r.randint(0,4); ops=[]; txt=[]
    for i in range(n):
        k=r.random()
        if k<0.45: g=rnd_reg(r); ops.append(('reg',g)); txt.append('%'+g)
        elif k<0.65: v,s=rnd_imm(r); ops.append(('imm',v)); txt.append('$'+s)
        elif k<0.95: m,s=rnd_mem(r); ops.append(('mem',m)); txt.append(s)
        else:
            if i==0: ops.append(('id','.L'+str(r.randint(0,99)))); txt.append(ops[-1][1])
            else: g=rnd_reg(r); ops.append(('reg',g)); txt.append('%'+g)
    sp=lambda: r.choice(['',' ','  ','\t'])
    line=r.choice(['','\t','    '])+mn+(r.choice([' ','\t','   ']) if n else '')+(sp()+','+sp()).join(txt)
    cm=None
    if r.random()<0.3: cm='c'+str(r.randint(0,9)); line+=r.choice([' ','\t',''])+'# '+cm
    return line,mn,ops,cm
def check(line,mn,ops,cm):
    il=p.parse_line(line,7)
    errs=[]
    if il.mnemonic!=mn: errs.append(('mn',il.mnemonic))
    if il.line!=line or il.line_number!=7: errs.append('lineinfo')
    if len(il.operands)!=len(ops): errs.append(('nops',len(il.operands))); return errs
    for o,(k,v) in zip(il.operands,ops):
        if k=='reg':
            if not(isinstance(o,RegisterOperand) and o.name==v): errs.append(('reg',v,o))
        elif k=='imm':
            if not(isinstance(o,ImmediateOperand) and o.value==v and type(o.value) is int): errs.append(('imm',v,o))
        elif k=='id':
            if not(isinstance(o,IdentifierOperand) and o.name==v): errs.append(('id',v,o))
        else:
            d,b,i,s=v
            ok=isinstance(o,MemoryOperand) and ((o.base is None)==(b is None)) and (b is None or o.base.name==b) and ((o.index is None)==(i is None)) and (i is None or o.index.name==i) and o.scale==s
            if ok:
                if d is None: ok = o.offset is None
                else: ok = isinstance(o.offset,ImmediateOperand) and o.offset.value==d
            if not ok: errs.append(('mem',v,o))
    return errs
r=random.Random(int(sys.argv[1])); N=int(sys.argv[2]); bad=0; kinds={}
for _ in range(N):
    line,mn,ops,cm=gen_line(r)
    try: e=check(line,mn,ops,cm)
    except Exception as ex: e=[('EXC',repr(ex)[:100])]
    if e:
        bad+=1; k=str(e[0][0])
        if kinds.setdefault(k,0)<4: print(repr(line),e[:2])
        kinds[k]+=1
print(bad,N,kinds)
