import os, random, tempfile, itertools, sys, json
from copy import deepcopy
from osaca.semantics import MachineModel, ArchSemantics, KernelDG
from osaca.parser import get_parser

def make_model_yaml(ports, forms, isa='x86', extra=''):
    s = f"""osaca_version: 0.6.1
micro_architecture: Synth
arch_code: zen2
isa: {isa}
ROB_size: 100
retired_uOps_per_cycle: 4
scheduler_size: 50
hidden_loads: false
load_latency: {{gpr: 4.0, xmm: 4.0, ymm: 4.0, zmm: 4.0}}
load_throughput: []
load_throughput_default: []
store_throughput: []
store_throughput_default: []
p_index_latency: 1
store_to_load_forward_latency: 0
ports: {json.dumps(ports)}
port_model_scheme: |
  none
{extra}
instruction_forms:
"""
    for name, nops, pp, tp, lt in forms:
        s += f"- name: {name}\n  operands:\n"
        if nops == 0:
            s = s[:-1] + " []\n"
        for _ in range(nops):
            s += "  - class: register\n    name: gpr\n"
        s += f"  port_pressure: {json.dumps(pp)}\n  throughput: {tp}\n  latency: {lt}\n"
    return s

def load_model(yaml_text, d):
    p = os.path.join(d, 'm.yml')
    open(p, 'w').write(yaml_text)
    return MachineModel(path_to_yaml=p)

if __name__ == '__main__':
    d = tempfile.mkdtemp()
    ports = ['0','1','2']
    forms = [('fa',2,[[1,'01']],0.5,1.0),('fb',2,[[1,'0']],1.0,1.0),('fc',2,[[1,'012']],0.33,1.0), ('fd',2,[[1,'01'],[1,'12']],1.0,1.0)]
    mm = load_model(make_model_yaml(ports, forms), d)
    sem = ArchSemantics(mm)
    p = get_parser('x86')
    code = "fd %rax, %rbx\nfb %rcx, %rdx\nfb %rcx, %rdx\n"
    k = p.parse_file(code)
    sem.add_semantics(k)
    for i in k: print(i.mnemonic, i.port_pressure, i.port_uops, i.throughput)
    print(sem.get_throughput_sum(k))
    sem.assign_optimal_throughput(k)
    for i in k: print(i.mnemonic, i.port_pressure)
    print(sem.get_throughput_sum(k))
    sem.assign_optimal_throughput(k)
    for i in k: print(i.mnemonic, i.port_pressure)
    print(sem.get_throughput_sum(k))
