import sys, collections, glob, os
from synth_instr import *
res=collections.Counter(); ex=collections.defaultdict(list)
for f in sorted(glob.glob('/repo/osaca/data/*.yml')):
    if os.path.getsize(f)==0: continue
    a=os.path.basename(f)[:-4]
    if len(sys.argv)>1 and a not in sys.argv[1:]: continue
    mm=MachineModel(arch=a); isa=mm.get_ISA(); sem=ArchSemantics(mm); p=get_parser(isa)
    for name,forms in mm['instruction_forms_dict'].items():
        for fo in forms:
            if not fo.operands or not all(isinstance(o,(RegisterOperand,ImmediateOperand)) for o in fo.operands): continue
            regpos=[i for i,o in enumerate(fo.operands) if isinstance(o,RegisterOperand)]
            if isa=='aarch64': regpos=[i for i in regpos if i==len(fo.operands)-1]
            for pos in regpos:
                ops=[]
                for n,o in enumerate(fo.operands):
                    if n==pos: ops.append('16(%rsi,%rdi,8)' if isa=='x86' else '[x20, #16]')
                    elif isinstance(o,RegisterOperand): ops.append(x86_reg(o.name,n) if isa=='x86' else a64_reg(o,n))
                    else: ops.append('$1' if isa=='x86' else '#1')
                line=fo.mnemonic.lower()+' '+', '.join(ops)
                try: il=p.parse_line(line,1)
                except Exception as e: res[(a,'parse')]+=1; continue
                if mm.get_instruction(il.mnemonic, il.operands) is not None: res[(a,'direct')]+=1; continue
                try:
                    sem.assign_src_dst(il); sem.assign_tp_lt(il)
                    unk='tp_unknown' in il.flags
                    res[(a,'unknown' if unk else 'composed')]+=1
                    if unk: ex[(a,'unknown')].append(line)
                except Exception as e:
                    k=(a,'crash',type(e).__name__, repr(e)[:60]); res[k]+=1; ex[k].append(line)
for k,v in sorted(res.items()): print(k,v,ex[k][:4])
