import random, sys
from dg import analyze
# curated x86 vocabulary: (mnemonic, operand kinds, roles) roles: list per operand of 'r','w','rw'; flags: (reads, writes)
G=['rax','rbx','rcx','rdx','rsi','rdi','r8','r9','r10']
W={'rax':['rax','eax','ax','al'],'rbx':['rbx','ebx','bx','bl'],'rcx':['rcx','ecx','cx','cl'],'rdx':['rdx','edx','dx','dl'],'rsi':['rsi','esi','si','sil'],'rdi':['rdi','edi','di','dil'],'r8':['r8','r8d','r8w','r8b'],'r9':['r9','r9d','r9w','r9b'],'r10':['r10','r10d','r10w','r10b']}
V=[f'ymm{i}' for i in range(6)]
VOC=[('movq',['g','g'],['r','w']),('addq',['g','g'],['r','rw']),('addq',['i','g'],['r','rw']),('subq',['g','g'],['r','rw']),('imulq',['g','g'],['r','rw']),
     ('vaddpd',['v','v','v'],['r','r','w']),('vmulpd',['v','v','v'],['r','r','w']),('vfmadd231pd',['v','v','v'],['r','r','rw']),
     ('vmovapd',['v','v'],['r','w']),('vmovapd',['m','v'],['r','w']),('vmovapd',['v','m'],['r','w']),('vaddpd',['m','v','v'],['r','r','w']),
     ('incq',['g'],['rw']),('cmpq',['g','g'],['r','r']),('leaq',['m','g'],['a','w']),('vxorpd',['v','v','v'],['r','r','w'])]
def fam(r):
    if r.startswith('ymm') or r.startswith('xmm'): return 'v'+r[3:]
    for k,v in W.items():
        if r in v: return k
def gen(rng,n):
    lines=[];sem=[]
    for _ in range(n):
        mn,kinds,roles=rng.choice(VOC); ops=[];reads=set();writes=set()
        for k,ro in zip(kinds,roles):
            if k=='g':
                r=rng.choice(W[rng.choice(G)]) if mn in('movq','addq','subq') and False else rng.choice(G); ops.append('%'+r)
                if 'r' in ro: reads.add(fam(r))
                if 'w' in ro: writes.add(fam(r))
            elif k=='v':
                r=rng.choice(V); r=r if rng.random()<0.7 else 'x'+r[1:]; ops.append('%'+r)
                if 'r' in ro: reads.add(fam(r))
                if 'w' in ro: writes.add(fam(r))
            elif k=='i': ops.append('$'+str(rng.randint(1,64)))
            elif k=='m':
                b=rng.choice(G); i=rng.choice(G) if rng.random()<0.4 else None
                ops.append(f'{rng.choice([0,8,16,-8])}(%{b}'+(f',%{i},8' if i else '')+')'); reads.add(fam(b)); 
                if i: reads.add(fam(i))
        if mn=='vxorpd' and len(set(ops))==1: reads=set()
        lines.append(mn+' '+', '.join(ops)); sem.append((reads,writes,mn,ops))
    return lines,sem
def ref_edges(sem):
    E=set()
    for a,(ra,wa,_,_) in enumerate(sem):
        for r in wa:
            for b in range(a+1,len(sem)):
                rb,wb,_,_=sem[b]
                if r in rb: E.add((a+1,b+1))
                if r in wb: break
    return E
rng=random.Random(int(sys.argv[1])); bad=0
for it in range(int(sys.argv[2])):
    lines,sem=gen(rng,rng.randint(2,9))
    # avoid store->load memdeps in reference for now: mark
    k,g=analyze("\n".join(lines)+"\n",'zen2')
    act={(a,b) for a,b in g.dg.edges() if int(a)==a}
    ref=ref_edges(sem)
    # ignore store->load edges: those from a store line to a load line
    stores={i+1 for i,s in enumerate(sem) if s[2]=='vmovapd' and s[3][1].endswith(')')}
    diff=(act^ref); diff={e for e in diff if e[0] not in stores}
    if diff:
        bad+=1
        if bad<6: print("\n".join(f'{i+1} {l}' for i,l in enumerate(lines))); print('missing',sorted(ref-act),'extra',sorted(e for e in act-ref if e[0] not in stores))
print('bad',bad)
