import random, sys
from dg import analyze
X=[f'x{i}' for i in range(8)]; D=[f'd{i}' for i in range(6)]; Q=[f'q{i}' for i in range(6)]
def fam(r):
    if r[0] in 'xw': return 'g'+r[1:]
    return 'v'+r[1:]
def mem(rng):
    b=rng.choice(X); k=rng.random()
    if k<0.3: return f'[{b}]',{fam(b)},set()
    if k<0.55: return f'[{b}, #{rng.choice([8,16,-16])}]',{fam(b)},set()
    if k<0.7: return f'[{b}, #{rng.choice([8,16])}]!',{fam(b)},{fam(b)}
    if k<0.85: return f'[{b}], #{rng.choice([8,16])}',{fam(b)},{fam(b)}
    i=rng.choice(X); return f'[{b}, {i}, lsl #3]',{fam(b),fam(i)},set()
def gen(rng,n):
    lines=[];sem=[]
    for _ in range(n):
        k=rng.randrange(9)
        if k==0: a,b,c=rng.choice(X),rng.choice(X),rng.choice(X); lines.append(f'add {a}, {b}, {c}'); sem.append(({fam(b),fam(c)},{fam(a)},'alu'))
        elif k==1: a,b=rng.choice(X),rng.choice(X); lines.append(f'add {a}, {b}, #{rng.randint(1,64)}'); sem.append(({fam(b)},{fam(a)},'alu'))
        elif k==2: a,b,c=rng.choice(D),rng.choice(D),rng.choice(D); lines.append(f'fmul {a}, {b}, {c}'); sem.append(({fam(b),fam(c)},{fam(a)},'alu'))
        elif k==3: a,b,c,d=[rng.choice(D) for _ in range(4)]; lines.append(f'fmadd {a}, {b}, {c}, {d}'); sem.append(({fam(b),fam(c),fam(d)},{fam(a)},'alu'))
        elif k==4: a=rng.choice(D+Q); m,r,w=mem(rng); lines.append(f'ldr {a}, {m}'); sem.append((r,{fam(a)}|w,'ld'))
        elif k==5: a=rng.choice(D+Q); m,r,w=mem(rng); lines.append(f'str {a}, {m}'); sem.append((r|{fam(a)},w,'st'))
        elif k==6: a,b=rng.choice(D),rng.choice(D); m,r,w=mem(rng); 
        if k==6:
            if 'lsl' in m: m,r,w=f'[{X[0]}]',{fam(X[0])},set()
            lines.append(f'ldp {a}, {b}, {m}'); sem.append((r,{fam(a),fam(b)}|w,'ld'))
        elif k==7:
            a,b=rng.choice(D),rng.choice(D); m,r,w=mem(rng)
            if 'lsl' in m: m,r,w=f'[{X[0]}]',{fam(X[0])},set()
            lines.append(f'stp {a}, {b}, {m}'); sem.append((r|{fam(a),fam(b)},w,'st'))
        elif k==8: a,b=rng.choice(X),rng.choice(X); lines.append(f'mov {a}, {b}'); sem.append(({fam(b)},{fam(a)},'alu'))
    return lines,sem
def ref_edges(sem):
    E=set()
    for a,(ra,wa,_) in enumerate(sem):
        for r in wa:
            for b in range(a+1,len(sem)):
                rb,wb,_=sem[b]
                if r in rb: E.add((a+1,b+1))
                if r in wb: break
    return E
arch=sys.argv[3]; rng=random.Random(int(sys.argv[1])); bad=0; exc=0
for it in range(int(sys.argv[2])):
    lines,sem=gen(rng,rng.randint(2,9))
    try: k,g=analyze("\n".join(lines)+"\n",arch)
    except Exception as e:
        exc+=1
        if exc<4: print('EXC',repr(e)[:100],lines)
        continue
    act={(a,b) for a,b in g.dg.edges() if int(a)==a}
    ref=ref_edges(sem)
    stores={i+1 for i,s in enumerate(sem) if s[2]=='st'}
    diff={e for e in (act^ref) if e[0] not in stores or e in ref}
    if diff:
        bad+=1
        if bad<5: print("\n".join(f'{i+1} {l}' for i,l in enumerate(lines))); print('missing',sorted(ref-act),'extra',sorted(e for e in act-ref if e[0] not in stores))
print('bad',bad,'exc',exc)
