import time, sys
from dg import *
from osaca.semantics import reduce_to_section
code=open('/repo/tests/test_files/kernel_x86_long_LCD.s').read()
p=get_parser('x86'); k=reduce_to_section(p.parse_file(code),'x86'); print(len(k))
mm=MachineModel(arch='zen2'); sem=ArchSemantics(mm); sem.add_semantics(k)
for to in (1,3):
    t=time.time(); g=KernelDG(k,p,mm,sem,to,False); print('timeout',to,'took',round(time.time()-t,2),'timed_out',g.timed_out,len(g.get_loopcarried_dependencies()))
