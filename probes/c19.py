import time, os, multiprocessing
from dg import *
from osaca.semantics import reduce_to_section
def kids():
    me=os.getpid(); out=[]
    for p in os.listdir('/proc'):
        if p.isdigit():
            try:
                st=open(f'/proc/{p}/stat').read().split(')')[-1].split()
                if int(st[1])==me: out.append((int(p),st[0]))
            except Exception: pass
    return out
code=open('/repo/tests/test_files/kernel_x86_long_LCD.s').read()
p=get_parser('x86'); k=reduce_to_section(p.parse_file(code),'x86')
mm=MachineModel(arch='zen2'); sem=ArchSemantics(mm); sem.add_semantics(k)
for to in (0,1):
    t=time.time(); g=KernelDG(k,p,mm,sem,to,False); print('timeout',to,'took',round(time.time()-t,2),'timed_out',g.timed_out,len(g.get_loopcarried_dependencies()), 'children',kids(), multiprocessing.active_children())
