import io, re, sys, random
from osaca.osaca import create_parser, check_arguments, run
from osaca.parser import get_parser
from osaca.semantics import reduce_to_section, MachineModel
import osaca.osaca as oo
cap={}
orig=oo.Frontend.full_analysis_dict
def go(argv):
    parser=create_parser(); args=parser.parse_args(argv); check_arguments(args,parser)
    out=io.StringIO(); run(args,output_file=out); return out.getvalue()
def rows(rep):
    # crude: rows of combined table after the header separator
    out=[]
    for l in rep.splitlines():
        m=re.match(r'\s*(\d+) \|(.*)\|\|(.*?)\|(.*?)\|\s*(.*)$',l)
        if m and m.group(5).strip() and not m.group(5).strip().endswith(':') and not m.group(5).strip().startswith(('.','#','//')):
            out.append((m.group(2),m.group(3).strip(),m.group(4).strip(),m.group(5).strip().lstrip('*XP ').strip()))
    summ=[l for l in rep.splitlines() if re.match(r'^\s{5,}[\d. ]+\s+[\d.]+\s+[\d.]+\s*$',l)]
    return out,summ
for f,arch in (('/repo/examples/triad/triad.s.zen.gcc.s','zen2'),('/repo/examples/gs/gs.s.tx2.gcc.s','tx2'),('/repo/tests/test_files/kernel_x86_memdep.s','spr'),('/repo/examples/j2d/j2d.s.csx.icc.AVX.s','icx')):
    isa=MachineModel.get_isa_for_arch(arch); p=get_parser(isa)
    txt=open(f).read(); parsed=p.parse_file(txt); k=reduce_to_section(parsed,isa)
    lines=[i.line_number for i in k]
    a=go(['--arch',arch,f])
    b=go(['--arch',arch,'--lines',f'{lines[0]}-{lines[-1]}',f])
    open('only.s','w').write("\n".join(i.line for i in k)+"\n")
    c=go(['--arch',arch,'only.s'])
    r=random.Random(1); noisy=[]
    cm='#' if isa=='x86' else '//'
    for i in k:
        if r.random()<0.4: noisy.append(r.choice([f'{cm} noise','.Lnoise%d:'%len(noisy),'.p2align 4','']))
        noisy.append(i.line)
    open('noisy.s','w').write("\n".join(noisy)+"\n")
    d=go(['--arch',arch,'noisy.s'])
    ra,rb,rc,rd=rows(a),rows(b),rows(c),rows(d)
    print(f.split('/')[-1],arch,len(ra[0]),'lines==marked',ra==rb,'only==marked',ra==rc,'noisy==marked',ra==rd)
    if ra!=rd:
        for x,y in zip(ra[0],rd[0]):
            if x!=y: print(x,'\n',y); break
        print(ra[1],rd[1])
