import random, tempfile, itertools, sys, json, os
from synth import *

def hall_violation(x, uops, ports):
    """return max over subsets S of (confined(S) - x(S)), plus other slacks"""
    idx = {p:i for i,p in enumerate(ports)}
    allowed = set()
    for c, P in uops: allowed |= set(P)
    neg = max([0.0]+[-v for v in x])
    off = max([0.0]+[abs(x[idx[p]]) for p in ports if p not in allowed])
    tot = abs(sum(x) - sum(c for c,P in uops))
    worst = 0.0
    al = sorted(allowed)
    for r in range(1, len(al)+1):
        for S in itertools.combinations(al, r):
            Ss=set(S)
            conf = sum(c for c,P in uops if set(P) <= Ss)
            have = sum(x[idx[p]] for p in S)
            worst = max(worst, conf-have)
    return neg, off, tot, worst

def rand_model(rng, nports):
    ports = [str(i) for i in range(nports)]
    forms=[]
    nforms = rng.randint(2,6)
    for f in range(nforms):
        nu = rng.randint(1,3)
        uops=[]
        for _ in range(nu):
            k = rng.randint(1,nports)
            P = rng.sample(ports,k)
            c = rng.choice([1,1,1,2,0.5,3])
            uops.append([c, P])
        forms.append((f'f{f}',2,uops,1.0,1.0))
    return ports, forms

if __name__=='__main__':
    seed=int(sys.argv[1]) if len(sys.argv)>1 else 0
    rng=random.Random(seed)
    d=tempfile.mkdtemp()
    p=get_parser('x86')
    worst1=(0,);worst2=(0,)
    for it in range(int(sys.argv[2]) if len(sys.argv)>2 else 200):
        ports, forms = rand_model(rng, rng.randint(2,5))
        MachineModel._runtime_cache.clear()
        for f in os.listdir(d): os.remove(os.path.join(d,f))
        mm=load_model(make_model_yaml(ports,forms),d)
        sem=ArchSemantics(mm)
        for kk in range(5):
            n=rng.randint(1,8)
            code="\n".join(f"{rng.choice(forms)[0]} %rax, %rbx" for _ in range(n))+"\n"
            k=p.parse_file(code); sem.add_semantics(k)
            def chk(tag):
                w=0
                for ins in k:
                    v=hall_violation(ins.port_pressure, [(c,list(P)) for c,P in ins.port_uops], ports)
                    w=max(w,max(v))
                return w
            w0=chk('fixed'); assert w0<1e-9,(w0,)
            fixed=max(sem.get_throughput_sum(k))
            sem.assign_optimal_throughput(k); w1=chk('1')
            o1=max(sem.get_throughput_sum(k))
            sem.assign_optimal_throughput(k); w2=chk('2')
            o2=max(sem.get_throughput_sum(k))
            if w1>worst1[0]: worst1=(w1,forms,code)
            if w2>worst2[0]: worst2=(w2,forms,code)
            if o1>fixed+1e-9 or o2>fixed+1e-9: print('WORSE', fixed,o1,o2,forms,code)
    print('worst1',worst1); print('worst2',worst2)
