import sys, glob
from osaca.semantics import MachineModel, ArchSemantics, KernelDG, reduce_to_section
from osaca.parser import get_parser
def lcds(lines, arch, isa, p, mm, sem):
    k=p.parse_file("\n".join(lines)+"\n")
    sem.add_semantics(k)
    g=KernelDG(k,p,mm,sem,-1,False)
    res=set()
    for key,v in g.get_loopcarried_dependencies().items():
        res.add((round(v['latency'],6), frozenset((n.line.strip(),) for n,l in v['dependencies']), len(v['dependencies'])))
    return res
for f,arch in [(x,'zen2') for x in sorted(glob.glob('/repo/examples/*/*.zen.gcc*.s'))]+[(x,'tx2') for x in sorted(glob.glob('/repo/examples/*/*.tx2.*.s'))]+[('/repo/tests/test_files/kernel_x86.s','zen2'),('/repo/tests/test_files/kernel_aarch64.s','tx2'),('/repo/tests/test_files/kernel_x86_memdep.s','zen2'),('/repo/tests/test_files/kernel_aarch64_memdep.s','tx2'),('/repo/tests/test_files/kernel_aarch64_deps.s','tx2')]:
    isa=MachineModel.get_isa_for_arch(arch); p=get_parser(isa); mm=MachineModel(arch=arch); sem=ArchSemantics(mm)
    k=reduce_to_section(p.parse_file(open(f).read()),isa)
    lines=[i.line for i in k]
    if len(lines)>40: print('skip',f,len(lines)); continue
    try: base=lcds(lines,arch,isa,p,mm,sem)
    except Exception as e: print(f,'EXC',repr(e)[:100]); continue
    bad=[]
    for r in range(1,len(lines)):
        rot=lines[r:]+lines[:r]
        try: got=lcds(rot,arch,isa,p,mm,sem)
        except Exception as e: bad.append((r,'EXC',repr(e)[:80])); continue
        if got!=base: bad.append((r,sorted((a,c) for a,b,c in base-got),sorted((a,c) for a,b,c in got-base)))
    print(f.split('/')[-1],arch,len(lines),len(base),'BAD' if bad else 'ok',bad[:3])
