import time, random, os
from dg import *
import osaca.semantics.kernel_dg as kd
from osaca.semantics import reduce_to_section
code=open('/repo/examples/gs/gs.s.tx2.gcc.s').read()
p=get_parser('aarch64'); k=reduce_to_section(p.parse_file(code),'aarch64'); print(len(k))
mm=MachineModel(arch='tx2'); sem=ArchSemantics(mm); sem.add_semantics(k)
def norm(d): return [(key,v['latency'],[(n.line_number,l) for n,l in v['dependencies']]) for key,v in d.items()]
kd.KernelDG.INSTRUCTION_THRESHOLD=10**9
seq=norm(KernelDG(k,p,mm,sem,-1,False).get_loopcarried_dependencies()); print('seq',len(seq))
orig=kd.KernelDG._extend_path
def slow(self,dst,kern,dg,off):
    r=random.Random(os.getpid()); time.sleep(r.random()*0.3)
    orig(self,dst,kern,dg,off)
kd.KernelDG._extend_path=slow
kd.KernelDG.INSTRUCTION_THRESHOLD=1
for n in (1,2,3,5,16,len(k)+7):
    kd.cpu_count=lambda n=n:n
    t=time.time(); par=norm(KernelDG(k,p,mm,sem,-1,False).get_loopcarried_dependencies()); print(n, par==seq, round(time.time()-t,2))
