import sys, collections, glob, os
from c07 import *
def uniform(mm,uops):
    ports=mm.get_ports(); x=[0.0]*len(ports)
    for c,P in uops:
        P=list(P)
        for p in P: x[ports.index(p)]+=c/len(P)
    return x
def memshape_match(isa,e,o): return (ref_x86_mem if isa=='x86' else ref_a64_mem)(e,o)==MUST
def regclass_of_entry(isa,e):
    if isa=='x86': return 'gpr' if e.name in ('gpr','*') else e.name
    return e.prefix
def ref_compose(mm,isa,il,roles):
    """roles: 'load','store','rmw' for the single memory operand"""
    ops=il.operands; mpos=[i for i,o in enumerate(ops) if isinstance(o,M)]
    assert len(mpos)==1; mp=mpos[0]; mem=ops[mp]
    def lookup(name):
        for e in mm['instruction_forms_dict'].get(name.upper(),[]):
            if len(e.operands)!=len(ops): continue
            ok=True
            for i,(eo,o) in enumerate(zip(e.operands,ops)):
                if i==mp: ok=ok and isinstance(eo,R)
                else: ok=ok and ((ref_x86 if isa=='x86' else ref_a64)(eo,o)!=NOT)
            if ok: return e
    e=lookup(il.mnemonic)
    if e is None and isa=='x86' and il.mnemonic[-1] in 'bswlqt': e=lookup(il.mnemonic[:-1])
    if e is None and isa=='aarch64' and '.' in il.mnemonic: e=lookup(il.mnemonic.split('.')[0])
    if e is None: return None
    rt=regclass_of_entry(isa,e.operands[mp])
    uops=list(e.port_pressure); x=uniform(mm,e.port_pressure); data=[0.0]*len(x)
    lat=e.latency
    if roles in('load','rmw'):
        rows=[r for r in mm['load_throughput'] if memshape_match(isa,r[0],mem)]
        sel=[r for r in rows if r[0].dst is not None and r[0].dst==rt]
        lu=sel[0][1] if sel else (rows[0][1] if rows else mm['load_throughput_default'])
        m=mm['load_throughput_multiplier'][rt] if 'load_throughput_multiplier' in mm else 1
        data=[d+m*v for d,v in zip(data,uniform(mm,lu))]; uops+=list(lu); lat+=mm['load_latency'][rt] or 0
    if roles in('store','rmw'):
        rows=[r for r in mm['store_throughput'] if memshape_match(isa,r[0],mem) and r[0].src is not None and r[0].src==rt]
        su=rows[0][1] if rows else mm['store_throughput_default']
        m=mm['store_throughput_multiplier'][rt] if 'store_throughput_multiplier' in mm else 1
        data=[d+m*v for d,v in zip(data,uniform(mm,su))]; uops+=list(su)
    return dict(uops=uops, pp=[a+b for a,b in zip(x,data)], lat=lat, wo=e.latency, tp=max(max(data),e.throughput))
if __name__=='__main__':
    res=collections.Counter(); ex=collections.defaultdict(list)
    for a in sys.argv[1:]:
        mm=MachineModel(arch=a); isa=mm.get_ISA(); p=get_parser(isa)
        for name,forms in list(mm['instruction_forms_dict'].items()):
            for fo in forms:
                if not fo.operands or not all(isinstance(o,(R,I)) for o in fo.operands) or fo.throughput is None or fo.latency is None or fo.port_pressure is None: continue
                regpos=[i for i,o in enumerate(fo.operands) if isinstance(o,R)]
                for pos in regpos:
                    ops=[]
                    for n,o in enumerate(fo.operands):
                        if n==pos: ops.append(['16(%rsi,%rdi,8)','(%rsi)','8(%rsi)'][pos%3])
                        elif isinstance(o,R): ops.append(x86_reg(o.name,n))
                        else: ops.append('$1')
                    line=fo.mnemonic.lower()+' '+', '.join(ops)
                    il=p.parse_line(line,1)
                    if mm.get_instruction(il.mnemonic, il.operands) is not None: continue
                    mm2=MachineModel(arch=a); sem=ArchSemantics(mm2)   # fresh model: avoid in-place pollution
                    try: sem.assign_src_dst(il); sem.assign_tp_lt(il)
                    except Exception as e_: res[(a,'exc')]+=1; continue
                    if 'tp_unknown' in il.flags: res[(a,'unknown')]+=1; continue
                    ld='performs_load' in il.flags; st='performs_store' in il.flags
                    role='rmw' if ld and st else 'load' if ld else 'store' if st else None
                    if role is None: res[(a,'norole')]+=1; continue
                    r=ref_compose(mm2,isa,il,role)
                    if r is None: res[(a,'ref-none')]+=1; ex[(a,'ref-none')].append(line); continue
                    bad=[]
                    if max(abs(x-y) for x,y in zip(r['pp'],il.port_pressure))>1e-9: bad.append('pp')
                    if [ (c,list(P)) for c,P in r['uops']]!=[(c,list(P)) for c,P in il.port_uops]: bad.append('uops')
                    if abs(r['lat']-il.latency)>1e-9 or abs(r['wo']-il.latency_wo_load)>1e-9: bad.append('lat')
                    if abs(r['tp']-il.throughput)>1e-9: bad.append('tp')
                    if bad:
                        res[(a,'MISMATCH',tuple(bad),role)]+=1
                        if len(ex[(a,tuple(bad))])<3: ex[(a,tuple(bad))].append((line,role,r['pp'],il.port_pressure,r['tp'],il.throughput))
                    else: res[(a,'agree',role)]+=1
    for k,v in sorted(res.items()): print(k,v)
    for k,v in ex.items(): print(k,v)
