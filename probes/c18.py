import io, sys, re
from osaca.osaca import create_parser, check_arguments, run
def go(argv):
    parser=create_parser(); args=parser.parse_args(argv); check_arguments(args,parser)
    out=io.StringIO(); run(args,output_file=out); return re.sub(r'Timestamp:.*','',out.getvalue())
open('rmw.s','w').write("addq $1, (%rax)\nvaddpd (%rbx), %ymm1, %ymm2\nsubq $1, 8(%rcx,%rdx,8)\n")
open('ld.s','w').write("vaddpd (%rbx), %ymm1, %ymm2\nvmulpd (%rbx), %ymm1, %ymm3\n")
for arch in sys.argv[1:]:
    a=go(['--arch',arch,'ld.s']); b=go(['--arch',arch,'rmw.s']); c=go(['--arch',arch,'rmw.s']); d=go(['--arch',arch,'ld.s'])
    print(arch,'rmw same:',b==c,'ld same:',a==d)
    if a!=d: print(a[-900:]); print(d[-900:])
