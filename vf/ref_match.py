"""R-match: three-valued reference matcher (MUST / NOT / DC) between a model entry's operand pattern and an instruction's
operands.  Works on plain descriptors only (entry = the YAML dict of the operand, instruction operand = the generator's AST),
never on OSACA objects.  Written from the statement of C07 and the README; DC wherever these are silent.

Instruction operand AST (dict, key 'k'):
  x86:  {'k':'reg','name':'rax'} {'k':'imm'} {'k':'id'} {'k':'mem','base':name|None,'index':name|None,'scale':int,'disp':None|'imm'|'id'}
  a64:  {'k':'reg','prefix':'x','shape':None|'d'} {'k':'imm','type':'int'|'float'|'double'} {'k':'id'} {'k':'cond','cc':'EQ'}
        {'k':'prfop'} {'k':'mem','base':prefix|None,'offset':None|'imm'|'id','index':prefix|None,'scale':int,'pre':bool,'post':bool}
"""
import re

MUST, NOT, DC = "MUST", "NOT", "DC"

X86_CLASSES = {"gpr", "xmm", "ymm", "zmm", "mm", "k", "*"}
GPR_NAMES = set()
for _l in "abcd":
    GPR_NAMES |= {"r%sx" % _l, "e%sx" % _l, "%sx" % _l, "%sl" % _l, "%sh" % _l}
for _b in ("si", "di", "bp", "sp"):
    GPR_NAMES |= {"r" + _b, "e" + _b, _b, _b + "l"}
for _i in range(8, 16):
    GPR_NAMES |= {"r%d%s" % (_i, s) for s in ("", "d", "w", "b")}


def x86_regclass(name):
    n = name.lower()
    if re.fullmatch(r"[xyz]mm\d+", n):
        return n[:3]
    if re.fullmatch(r"mm\d", n):
        return "mm"
    if re.fullmatch(r"k[0-7]", n):
        return "k"
    if n in GPR_NAMES:
        return "gpr"
    return "other"


def comb(*rs):
    if NOT in rs:
        return NOT
    if DC in rs:
        return DC
    return MUST


def _x86_reg(e, o):
    name = e.get("name")
    if name not in X86_CLASSES:
        return DC
    if name == "*":
        return MUST
    c = x86_regclass(o["name"])
    if name == "gpr":
        return MUST if c == "gpr" else (NOT if c in ("xmm", "ymm", "zmm", "mm") else DC)
    return MUST if c == name else NOT


def _field_reg_x86(ev, reg):
    """base / index field of an x86 memory entry: '*' anything incl. absent; None absent; 'gpr' a GPR."""
    if isinstance(ev, dict):
        ev = ev.get("name")
    if ev == "*":
        return MUST
    if ev is None:
        return MUST if reg is None else NOT
    if reg is None:
        return NOT
    if ev == "gpr":
        c = x86_regclass(reg)
        return MUST if c == "gpr" else (NOT if c in ("xmm", "ymm", "zmm", "mm") else DC)
    return DC


def _offset(ev, disp):
    if isinstance(ev, dict):
        return DC
    if ev == "*":
        return MUST
    if ev is None:
        return MUST if disp is None else NOT
    if ev == "imd":
        return MUST if disp == "imm" else NOT
    if ev == "id":
        return MUST if disp == "id" else NOT
    return DC


def _scale(ev, sc):
    if ev == "*":
        return MUST
    if not isinstance(ev, int) or isinstance(ev, bool):
        return DC
    return MUST if (sc == ev or (sc != 1 and ev != 1)) else NOT


def _x86_mem(e, o):
    return comb(_field_reg_x86(e.get("base"), o["base"]), _field_reg_x86(e.get("index"), o["index"]),
                _offset(e.get("offset"), o["disp"]), _scale(e.get("scale"), o["scale"]))


def ref_x86(e, o):
    cls = e.get("class")
    k = o["k"]
    if cls not in ("register", "memory", "immediate", "identifier"):
        return DC
    if k == "reg":
        return _x86_reg(e, o) if cls == "register" else NOT
    if k == "mem":
        return _x86_mem(e, o) if cls == "memory" else NOT
    if k == "imm":
        if cls != "immediate":
            return NOT
        return MUST if e.get("imd") == "int" else NOT
    if k == "id":
        return MUST if cls == "identifier" else NOT
    return DC


A64_PREFIXES = set("wxbhsdqvzp") | {"*"}


def _a64_reg(e, o):
    p = e.get("prefix")
    if p not in A64_PREFIXES:
        return DC
    if p != "*" and p != o["prefix"]:
        return NOT
    es, os_ = e.get("shape"), o.get("shape")
    es = es.lower() if isinstance(es, str) else es
    if es is None and os_ is not None:
        # the entry declares a register without element shape, the instruction names a vector shape: kinds disagree
        # (a shape-less '*' / scalar entry listed before the shaped one must not capture vector instructions)
        return NOT
    if es is not None and os_ is None:
        return DC  # bare z0 / p0/m against a shaped entry: the statement is silent
    if es is None:
        return MUST
    return MUST if (es == os_ or "*" in (es, os_)) else NOT


def _a64_mem(e, o):
    eb = e.get("base")
    if eb == "*":
        rb = MUST
    elif eb is None:
        rb = MUST if o["base"] is None else NOT
    elif isinstance(eb, str) and eb in "wx":
        rb = MUST if o["base"] == eb else NOT
    else:
        rb = DC
    ro = _offset(e.get("offset"), o["offset"])
    ei = e.get("index")
    if ei == "*":
        ri = MUST
    elif ei is None:
        ri = MUST if o["index"] is None else NOT
    elif isinstance(ei, str) and ei in ("w", "x", "z"):
        ri = MUST if o["index"] == ei else NOT
    else:
        ri = DC
    rs = _scale(e.get("scale"), o["scale"])
    pre, post = e.get("pre_indexed", False), e.get("post_indexed", False)
    rp = MUST if (pre == "*" or bool(pre) == bool(o["pre"])) else NOT
    rq = MUST if (post == "*" or bool(post) == bool(o["post"])) else NOT
    return comb(rb, ro, ri, rs, rp, rq)


def ref_a64(e, o):
    cls = e.get("class")
    k = o["k"]
    if cls not in ("register", "memory", "immediate", "identifier", "condition", "prfop"):
        return DC
    if k == "reg":
        return _a64_reg(e, o) if cls == "register" else NOT
    if k == "mem":
        return _a64_mem(e, o) if cls == "memory" else NOT
    if k == "imm":
        if cls != "immediate":
            return NOT
        t = e.get("imd")
        if t == "*":
            return MUST
        if t not in ("int", "float", "double"):
            return DC
        return MUST if t == o["type"] else NOT
    if k == "id":
        return MUST if cls == "identifier" else NOT
    if k == "cond":
        if cls != "condition":
            return NOT
        cc = str(e.get("ccode", "")).upper()
        return MUST if cc in ("*", o["cc"].upper()) else NOT
    if k == "prfop":
        return MUST if cls == "prfop" else NOT
    return DC


def ref_ops(isa, eops, ops):
    if len(eops) != len(ops):
        return NOT
    if not ops:
        return MUST
    f = ref_x86 if isa == "x86" else ref_a64
    return comb(*[f(e, o) for e, o in zip(eops, ops)])


def expected_lookup(isa, entries, ops):
    """entries: list of operand-pattern lists in lookup order. Returns (statuses, first_must_index_or_None)."""
    st = [ref_ops(isa, e, ops) for e in entries]
    first = next((i for i, s in enumerate(st) if s == MUST), None)
    return st, first


def judge_lookup(st, first, got):
    """got: index of the entry returned by the real lookup or None. Returns None if acceptable else (key, text)."""
    if got is None:
        if first is not None:
            return ("incomplete/none-although-entry-matches", "lookup returned nothing although entry #%d matches every operand kind and the count" % first)
        return None
    s = st[got]
    if s == NOT:
        return ("unsound/entry-applied-to-other-kind", "lookup returned entry #%d whose pattern disagrees with the operands in kind or count" % got)
    if first is not None and got > first:
        return ("order/not-first-matching-entry", "lookup returned entry #%d although the earlier entry #%d matches" % (got, first))
    return None
