"""Shared runner: sharding, result merging, verdict discipline, evidence, known findings, replay files."""
import collections
import contextlib
import hashlib
import json
import os
import random
import signal
import subprocess
import sys
import time
import traceback

from . import isolate

VERIF = isolate.VERIF
PY = isolate.PY
EPS = 1e-9
STEP = 0.01


def env_seed():
    try:
        return int(os.environ.get("VERIF_SEED", "0"))
    except ValueError:
        return 0


def jobs():
    try:
        return max(1, int(os.environ.get("VERIF_JOBS", "16")))
    except ValueError:
        return 16


def sub_seed(*parts):
    h = hashlib.sha256(repr(parts).encode()).digest()
    return int.from_bytes(h[:8], "big")


def digest(obj):
    return hashlib.sha256(json.dumps(obj, sort_keys=True, default=str).encode()).hexdigest()[:16]


class CaseTimeout(Exception):
    pass


@contextlib.contextmanager
def time_limit(seconds):
    """Generous wall-clock watchdog around one case; firing means *inconclusive*, never a violation."""

    def handler(signum, frame):
        raise CaseTimeout()

    old = signal.signal(signal.SIGALRM, handler)
    signal.setitimer(signal.ITIMER_REAL, seconds)
    try:
        yield
    finally:
        signal.setitimer(signal.ITIMER_REAL, 0)
        signal.signal(signal.SIGALRM, old)


def exception_key(exc):
    """Mechanism key for an exception escaping the code under test: type and innermost osaca function."""
    tb = traceback.extract_tb(exc.__traceback__)
    where = "?"
    for fr in tb:
        fn = fr.filename.replace("\\", "/")
        if "/osaca/" in fn and "/verif/" not in fn:
            where = os.path.basename(fn)[:-3] + "." + fr.name
    return "exception/%s@%s" % (type(exc).__name__, where)


def in_osaca(exc):
    tb = traceback.extract_tb(exc.__traceback__)
    return any("/osaca/" in fr.filename.replace("\\", "/") and "/verif/" not in fr.filename for fr in tb)


class Result:
    """Collected by one shard; merged by the parent."""

    MAX_SAMPLES = 4
    MAX_WITNESS_PER_KEY = 3

    def __init__(self):
        self.evaluations = 0
        self.counters = collections.Counter()
        self.nontrivial = set()
        self.samples = []
        self.witnesses = []
        self.witness_counts = collections.Counter()
        self.inconclusive = 0
        self.sets = collections.defaultdict(set)

    def count(self, name, n=1):
        self.counters[name] += n

    def case(self, dig=None, nontrivial=False):
        self.evaluations += 1
        if nontrivial and dig is not None:
            self.nontrivial.add(dig)

    def sample(self, obj, limit=None):
        if len(self.samples) < (limit or self.MAX_SAMPLES):
            self.samples.append(obj)

    def observe(self, setname, value):
        """Record a distinct observed value (schedules, crash points, classes ...)."""
        s = self.sets[setname]
        if len(s) < 5000:
            s.add(value if isinstance(value, str) else json.dumps(value, sort_keys=True, default=str))

    def violation(self, key, what, case):
        self.witness_counts[key] += 1
        if self.witness_counts[key] <= self.MAX_WITNESS_PER_KEY:
            self.witnesses.append({"key": key, "what": what, "case": case})

    def exception(self, exc, case, prefix=""):
        """An exception from the code under test on an input of the property's class is a violation."""
        key = prefix + exception_key(exc)
        tb = "".join(traceback.format_exception(type(exc), exc, exc.__traceback__))[-1500:]
        self.violation(key, "%s: %s" % (type(exc).__name__, str(exc)[:200]), dict(case, traceback=tb))

    def to_json(self):
        return {
            "evaluations": self.evaluations,
            "counters": dict(self.counters),
            "nontrivial": sorted(self.nontrivial),
            "samples": self.samples,
            "witnesses": self.witnesses,
            "witness_counts": dict(self.witness_counts),
            "inconclusive": self.inconclusive,
            "sets": {k: sorted(v) for k, v in self.sets.items()},
        }


def load_known(prop):
    path = os.path.join(VERIF, "known_findings.json")
    known, fixed = {}, {}
    if os.path.exists(path):
        with open(path) as f:
            data = json.load(f)
        for e in data.get("findings", []):
            if e.get("property") != prop:
                continue
            (known if e.get("status") == "known" else fixed)[e["key"]] = e
    return known, fixed


SHARD_TIMES = {}


def run_shards(prop, specs, home, timeout, extra_env=None):
    """Run every shard spec in its own subprocess (never multiprocessing.Pool: it hangs when a child dies)."""
    work = os.path.join(isolate.SCRATCH, "run-%s-%d" % (prop, os.getpid()))
    os.makedirs(work, exist_ok=True)
    env = isolate.child_env(home, extra=extra_env)
    pending = list(enumerate(specs))
    running = []
    results = [None] * len(specs)
    errors = []
    nj = jobs()
    try:
        while pending or running:
            while pending and len(running) < nj:
                i, spec = pending.pop(0)
                sp = os.path.join(work, "spec-%d.json" % i)
                op = os.path.join(work, "out-%d.json" % i)
                with open(sp, "w") as f:
                    json.dump(spec, f)
                errf = open(os.path.join(work, "err-%d.txt" % i), "w")
                p = subprocess.Popen(
                    [PY, "-m", "vf.worker", prop, sp, op],
                    env=env,
                    cwd=VERIF,
                    stdout=errf,
                    stderr=subprocess.STDOUT,
                    start_new_session=True,
                )
                running.append((i, p, time.time(), op, errf))
            still = []
            for i, p, t0, op, errf in running:
                rc = p.poll()
                if rc is None:
                    if time.time() - t0 > timeout:
                        try:
                            os.killpg(p.pid, signal.SIGKILL)
                        except OSError:
                            pass
                        p.wait()
                        errf.close()
                        errors.append("shard %d: watchdog (%ds)" % (i, timeout))
                    else:
                        still.append((i, p, t0, op, errf))
                    continue
                errf.close()
                SHARD_TIMES[i] = round(time.time() - t0, 1)
                if os.path.exists(op):
                    try:
                        with open(op) as f:
                            results[i] = json.load(f)
                    except ValueError:
                        errors.append("shard %d: unreadable result" % i)
                else:
                    tail = ""
                    try:
                        with open(errf.name) as f:
                            tail = f.read()[-600:]
                    except OSError:
                        pass
                    errors.append("shard %d: exit %s without result: %s" % (i, rc, tail))
                if results[i] is not None and results[i].get("harness_error"):
                    errors.append("shard %d: harness error: %s" % (i, results[i]["harness_error"][-800:]))
            running = still
            if running:
                time.sleep(0.05)
    finally:
        for i, p, t0, op, errf in running:
            try:
                os.killpg(p.pid, signal.SIGKILL)
            except OSError:
                pass
        subprocess.run(["rm", "-rf", work])
    return results, errors


def merge(results):
    m = Result()
    for r in results:
        if not r:
            continue
        m.evaluations += r.get("evaluations", 0)
        m.counters.update(r.get("counters", {}))
        m.nontrivial.update(r.get("nontrivial", []))
        for s in r.get("samples", []):
            m.sample(s)
        m.witnesses.extend(r.get("witnesses", []))
        m.witness_counts.update(r.get("witness_counts", {}))
        m.inconclusive += r.get("inconclusive", 0)
        for k, v in r.get("sets", {}).items():
            m.sets[k].update(v)
    return m


def write_replay(prop, w):
    d = os.path.join(VERIF, "replays")
    os.makedirs(d, exist_ok=True)
    path = os.path.join(d, "%s-%s.json" % (prop, digest(w)))
    with open(path, "w") as f:
        json.dump(dict(w, property=prop), f, indent=1, default=str)
    return path


def finish(prop, mod, tier, seed, m, errors, t0, replay=False):
    """Apply the verdict discipline, write evidence, print the interface lines, return the exit code."""
    known, fixed = load_known(prop)
    out = []
    viol_keys = collections.OrderedDict()
    known_seen = collections.OrderedDict()
    for w in m.witnesses:
        k = w["key"]
        if k in known:
            known_seen.setdefault(k, w)
        else:
            viol_keys.setdefault(k, []).append(w)
    n_viol = sum(c for k, c in m.witness_counts.items() if k not in known)
    for k, w in known_seen.items():
        out.append("KNOWN-FINDING: property=%s %s [%s] (%d observed this run)" % (prop, known[k]["what"], k, m.witness_counts[k]))
    for k, ws in viol_keys.items():
        for w in ws[:2]:
            path = write_replay(prop, w)
            out.append("VIOLATION property=%s replay=%s" % (prop, path))
            out.append("  key=%s what=%s (%d of this kind)" % (k, str(w["what"])[:300], m.witness_counts[k]))
    floors = mod.floors(tier) if hasattr(mod, "floors") else {}
    missed = []
    if not replay:
        for name, need in floors.items():
            if name == "evaluations":
                have = m.evaluations
            elif name == "distinct_nontrivial":
                have = len(m.nontrivial)
            elif name.startswith("set:"):
                have = len(m.sets.get(name[4:], ()))
            else:
                have = m.counters.get(name, 0)
            if have < need:
                missed.append("%s=%d<%d" % (name, have, need))
        if m.evaluations and m.inconclusive > 0.05 * m.evaluations:
            missed.append("inconclusive_cases=%d>5%%of%d" % (m.inconclusive, m.evaluations))
    wall = time.time() - t0
    cov = {
        "evaluations": m.evaluations,
        "distinct_nontrivial": len(m.nontrivial),
        "rule": getattr(mod, "RULE", ""),
        "samples": m.samples[: Result.MAX_SAMPLES] or ["(none)"],
        "counters": dict(sorted(m.counters.items())),
        "observed_sets": {k: {"distinct": len(v), "examples": sorted(v)[:12]} for k, v in m.sets.items()},
        "inconclusive_cases": m.inconclusive,
        "known_findings_observed": {k: m.witness_counts[k] for k in known_seen},
        "violation_keys": {k: m.witness_counts[k] for k in viol_keys},
        "floors": floors,
        "floors_missed": missed,
        "harness_errors": errors[:10],
        "slowest_shards_s": sorted(SHARD_TIMES.items(), key=lambda kv: -kv[1])[:5],
        "exhaustive": bool(getattr(mod, "EXHAUSTIVE", {}).get(tier, False)) if isinstance(getattr(mod, "EXHAUSTIVE", None), dict) else False,
        "repo": isolate.repo(),
        "code_hash": isolate.code_hash(),
    }
    ev = {
        "property_id": prop,
        "tier": tier,
        "seed": seed,
        "level": getattr(mod, "LEVEL", "exploration"),
        "coverage": cov,
        "assumptions": getattr(mod, "ASSUMPTIONS", []),
        "wall_s": round(wall, 2),
        "violations": n_viol,
        "verdict": "violated" if n_viol else ("inconclusive" if (missed or errors) else "held-on-observed"),
    }
    if not replay:
        os.makedirs(os.path.join(VERIF, "evidence"), exist_ok=True)
        with open(os.path.join(VERIF, "evidence", prop + ".json"), "w") as f:
            json.dump(ev, f, indent=1, default=str)
    for line in out:
        print(line)
    if n_viol:
        print("%s: VIOLATED  evaluations=%d violations=%d wall=%.1fs" % (prop, m.evaluations, n_viol, wall))
        return 1
    if errors or missed:
        print("INCONCLUSIVE property=%s reason=%s" % (prop, "; ".join(missed + errors)[:1500]))
        return 2
    print(
        "%s: held on what was observed  tier=%s seed=%d evaluations=%d distinct_nontrivial=%d inconclusive_cases=%d wall=%.1fs"
        % (prop, tier, seed, m.evaluations, len(m.nontrivial), m.inconclusive, wall)
    )
    keys = sorted(m.counters.items())
    print("  observed: " + ", ".join("%s=%d" % kv for kv in keys)[:1800])
    return 0


def run_property(prop, tier, seed, replay_file=None):
    t0 = time.time()
    mod = __import__("vf.props." + prop.lower(), fromlist=["x"])
    home = isolate.ensure_home(warm=getattr(mod, "NEEDS_MODELS", True))
    if replay_file:
        with open(replay_file) as f:
            w = json.load(f)
        specs = [{"replay": w.get("case", w), "seed": seed, "tier": tier, "shard": 0}]
    else:
        specs = mod.plan(tier, seed)
        for i, s in enumerate(specs):
            s.setdefault("seed", sub_seed(seed, prop, tier, i))
            s.setdefault("tier", tier)
            s.setdefault("shard", i)
    timeout = getattr(mod, "SHARD_TIMEOUT", {"quick": 600, "thorough": 7200}).get(tier, 1200)
    results, errors = run_shards(prop, specs, home, timeout, getattr(mod, "EXTRA_ENV", None))
    m = merge(results)
    if hasattr(mod, "post"):
        mod.post(m, tier, seed)
    return finish(prop, mod, tier, seed, m, errors, t0, replay=bool(replay_file))
