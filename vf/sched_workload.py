"""Workloads and monitors shared by C01 (feasible split) and C02 (optimised vs uniform vs optimum)."""
import io
import os

from . import gen_model, isolate
from .monitor import Monitor
from .ref_sched import norm_uops


def snap_uops(pu):
    if isinstance(pu, dict):
        return {"alts": [norm_uops(v) for v in pu.values()]}
    return {"list": norm_uops(pu)}


def snapshot(kernel):
    out = []
    for i in kernel:
        out.append(
            {
                "line": (i.line or "").strip(),
                "mnemonic": i.mnemonic,
                "throughput": i.throughput,
                "pressure": list(i.port_pressure) if i.port_pressure is not None else None,
                "uops": snap_uops(i.port_uops),
                "flags": list(i.flags),
            }
        )
    return out


class SchedMonitor:
    """Wrappers on ArchSemantics.add_semantics / assign_optimal_throughput / get_throughput_sum (outermost calls only).

    events: list of (kind, snapshot, reported_sum) in call order; kind in {uniform, optimised}
    """

    def __init__(self):
        from osaca.semantics import ArchSemantics

        self.mon = Monitor()
        self.events = []
        self.AS = ArchSemantics

        def after_add(res, a, k):
            kernel = a[1]
            self.events.append(("uniform", snapshot(kernel), list(self.AS.get_throughput_sum(kernel))))

        def after_opt(res, a, k):
            kernel = a[1]
            self.events.append(("optimised", snapshot(kernel), list(self.AS.get_throughput_sum(kernel))))

        self.mon.wrap(ArchSemantics, "add_semantics", after=after_add)
        self.mon.wrap(ArchSemantics, "assign_optimal_throughput", after=after_opt)

    def take(self):
        ev, self.events = self.events, []
        return ev

    def close(self):
        self.mon.undo()


def three_configs(sem, parser, text, monitor):
    """uniform, optimised once, optimised twice (the CLI's sequence) on a fresh parse. Returns {'uniform','once','twice'}."""
    monitor.take()
    kernel = parser.parse_file(text)
    sem.add_semantics(kernel)
    sem.assign_optimal_throughput(kernel)
    sem.assign_optimal_throughput(kernel)
    ev = monitor.take()
    assert [e[0] for e in ev] == ["uniform", "optimised", "optimised"], [e[0] for e in ev]
    return {"uniform": ev[0], "once": ev[1], "twice": ev[2]}


def synth_kernel_text(rng, meta, isa, maxlen=12):
    n = rng.choice([1, 2, 3, 4, 5, 6, 8, 10, maxlen])
    if rng.random() < 0.3:
        pool = rng.sample(meta, min(len(meta), rng.randint(1, 3)))
    else:
        pool = meta
    picks = []
    nalt = 0
    for _ in range(n):
        f = rng.choice(pool)
        if f["alts"]:
            # the optimiser explores alternatives depth-first (k^n re-optimisations): keep n small
            if nalt >= 3:
                cands = [g for g in meta if not g["alts"]]
                if not cands:
                    continue
                f = rng.choice(cands)
            else:
                nalt += 1
        picks.append(f)
    if not picks:
        picks = [rng.choice(meta)]
    mk = gen_model.x86_line if isa == "x86" else gen_model.a64_line
    return "\n".join(mk(f["name"], f["nops"], rng) for f in picks) + "\n", [f["name"] for f in picks]


def regonly_entries(mm, isa):
    """Entries of a shipped model with register/immediate operands only and complete, well-formed data."""
    from osaca.parser.register import RegisterOperand
    from osaca.parser.immediate import ImmediateOperand
    from osaca.parser.identifier import IdentifierOperand
    from . import synth

    ports = mm.get_ports()
    out = []
    for name, forms in mm["instruction_forms_dict"].items():
        for f in forms:
            if not f.operands or f.port_pressure is None or f.throughput is None or f.latency is None:
                continue
            if not all(isinstance(o, (RegisterOperand, ImmediateOperand, IdentifierOperand)) for o in f.operands):
                continue
            if not synth.wellformed_uops(ports, f.port_pressure):
                continue
            if not f.port_pressure:
                continue
            if len(f.operands) > (4 if isa == "x86" else 5):
                continue  # more operands than the assembly grammar of that ISA accepts
            out.append(f)
    return out


def memory_lines(isa, rng, n):
    """Real instructions with a memory operand (loads, stores, read-modify-write) that most models cost by composing the register
    form with their load/store micro-ops."""
    from . import gen_lookup as G
    from .props import c08

    out = []
    for _ in range(n):
        name, pat = rng.choice(c08.CURATED[isa])
        ops = []
        for p in pat:
            if p == "mem":
                ops.append(c08.rand_mem(isa, rng))
            elif p == "imm":
                ops.append({"k": "imm", "text": "$%d" % rng.randint(1, 9)})
            elif p == "gpr32":
                ops.append({"k": "reg", "name": rng.choice(["eax", "ebx", "ecx", "r8d"])})
            elif isa == "x86":
                ops.append({"k": "reg", "name": G.x86_reg_of_class(p, rng) if p != "gpr" else rng.choice(G.GPR64)})
            else:
                ops.append(G.a64_reg(p, None, rng))
        if isa == "aarch64" and name in ("ldp", "stp") and ops[-1]["index"]:
            continue
        if any(o is None for o in ops):
            continue
        out.append(G.render(isa, name, ops))
    return out


def shipped_stream_text(rng, entries, isa, nmin=8, nmax=16):
    from . import synth

    n = rng.randint(nmin, nmax)
    pool = rng.sample(entries, min(len(entries), rng.randint(2, 6)))
    special = [f for f in entries if isinstance(f.port_pressure, dict) or f.throughput == 0]
    if special and rng.random() < 0.35:
        # forms with alternative port assignments / with pressure but zero throughput are rare in the models
        pool = pool[: rng.randint(0, 3)] + rng.sample(special, min(len(special), rng.randint(1, 2)))
    lines = []
    from osaca.parser import get_parser

    parser = get_parser(isa)
    nalt = 0
    for k in range(n):
        f = rng.choice(pool)
        if isinstance(f.port_pressure, dict):
            # the optimiser explores alternative assignments depth-first (k^n re-optimisations): keep n small
            if nalt >= 3:
                continue
            nalt += 1
        ln = synth.render(isa, f, nbase=rng.randint(0, 5))
        if ln:
            try:
                parser.parse_line(ln, 1)
            except Exception:  # noqa  a rendering the parser rejects is not an input of these properties (C09/C10)
                continue
            lines.append(ln)
    if rng.random() < 0.5:
        # composed memory forms: their micro-ops are the register form's plus the model's load/store micro-ops
        for ln in memory_lines(isa, rng, rng.randint(1, 4)):
            try:
                parser.parse_line(ln, 1)
            except Exception:  # noqa
                continue
            lines.insert(rng.randint(0, len(lines)), ln)
    if not lines:
        lines = ["nop"]
    return "\n".join(lines) + "\n"


def run_cli(argv):
    """Run the real CLI in-process; returns report text."""
    import osaca.osaca as o

    parser = o.create_parser()
    args = parser.parse_args(argv)
    o.check_arguments(args, parser)
    out = io.StringIO()
    try:
        o.run(args, output_file=out)
    finally:
        try:
            args.file.close()
        except Exception:
            pass
    return out.getvalue()


def model_tables(mm):
    """Load/store micro-op rows of a model (as loaded) for the multiplier-aware split of composed instructions."""
    def safe(u):
        # malformed tables are C15's business (e.g. zen3 store_throughput_default: [1, ['13']])
        try:
            return norm_uops(u)
        except (TypeError, IndexError, ValueError):
            return []

    loads = [safe(r[1]) for r in mm["load_throughput"]] + [safe(mm["load_throughput_default"])]
    stores = [safe(r[1]) for r in mm["store_throughput"]] + [safe(mm["store_throughput_default"])]
    lm = mm.get("load_throughput_multiplier") or {}
    sm = mm.get("store_throughput_multiplier") or {}
    return loads, stores, lm, sm


def scaled_candidates(uops, tables):
    """All readings of a (possibly composed) micro-op list with the documented load/store multipliers applied."""
    loads, stores, lm, sm = tables
    cands = [uops]
    if not lm and not sm:
        return cands
    keys = set(lm) | set(sm)
    n = len(uops)
    for ld in [[]] + loads:
        for st in [[]] + stores:
            k = len(ld) + len(st)
            if k == 0 or k > n:
                continue
            if uops[n - k:] != ld + st:
                continue
            for key in keys:
                a, b = lm.get(key, 1), sm.get(key, 1)
                c = uops[: n - k] + [(cy * a, P) for cy, P in ld] + [(cy * b, P) for cy, P in st]
                if c not in cands:
                    cands.append(c)
    return cands
