"""Entry point: ./check CNN [quick|thorough] [--tier T] [--replay FILE]"""
import argparse
import os
import sys

from . import common


def main():
    ap = argparse.ArgumentParser()
    ap.add_argument("prop")
    ap.add_argument("tier_pos", nargs="?", choices=["quick", "thorough"])
    ap.add_argument("--tier", choices=["quick", "thorough"])
    ap.add_argument("--replay")
    a = ap.parse_args()
    tier = a.tier or a.tier_pos or os.environ.get("VERIF_TIER") or "quick"
    if tier not in ("quick", "thorough"):
        tier = "quick"
    sys.exit(common.run_property(a.prop.upper(), tier, common.env_seed(), a.replay))


if __name__ == "__main__":
    main()
