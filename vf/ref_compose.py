"""R-compose: reference for 'memory-operand form = register form + load/store data' (C08) on plain descriptors.

model: the dict the YAML was generated from (or an independent safe-load of a shipped file);
isa_entries: {NAME: [ {'operands': [... with 'source'/'destination' flags]} ]} of the ISA database.
"""
from . import ref_match as RM
from .ref_sched import norm_uops, uniform_split


def entry_groups(forms):
    g = {}
    singles = [f for f in forms if not isinstance(f.get("name"), list)]
    multi = [f for f in forms if isinstance(f.get("name"), list)]
    for f in singles:
        g.setdefault(str(f["name"]).upper(), []).append(f)
    for f in multi:
        for n in f["name"]:
            g.setdefault(str(n).upper(), []).append(f)
    return g


def name_chain(isa, name):
    out = [name]
    if isa == "x86" and name[-1].lower() in "bswlqt":
        out.append(name[:-1])
    if isa == "aarch64" and "." in name:
        out.append(name[: name.index(".")])
    return out


def direct_status(isa, groups, name, kinds):
    """(entry or None, decided?) for the full operand list over the documented name chain."""
    for nm in name_chain(isa, name):
        es = groups.get(nm.upper(), [])
        st, first = RM.expected_lookup(isa, [e.get("operands") or [] for e in es], kinds)
        if first is not None and RM.DC not in st[:first]:
            return es[first], True
        if RM.DC in st:
            return None, False
    return None, True


def regform_status(isa, groups, name, kinds, mp):
    """Register form: the memory operand at position mp replaced by 'any register'."""
    f = RM.ref_x86 if isa == "x86" else RM.ref_a64
    for nm in name_chain(isa, name):
        es = groups.get(nm.upper(), [])
        undecided = False
        for e in es:
            eo = e.get("operands") or []
            if len(eo) != len(kinds):
                continue
            rs = []
            for i, (x, o) in enumerate(zip(eo, kinds)):
                if i == mp:
                    rs.append(RM.MUST if x.get("class") == "register" else RM.NOT)
                else:
                    rs.append(f(x, o))
            r = RM.comb(*rs)
            if r == RM.MUST:
                if undecided:
                    return None, False
                return e, True
            if r == RM.DC:
                undecided = True
        if undecided:
            return None, False
    return None, True


def reg_type(isa, eop):
    if isa == "x86":
        n = eop.get("name")
        return n if n in ("gpr", "xmm", "ymm", "zmm", "mm") else None
    p = eop.get("prefix")
    return p if isinstance(p, str) and p in "wxbhsdqvzp" and len(p) == 1 else None


def mem_role(isa, isa_groups, name, kinds, mp):
    """'load' | 'store' | 'rmw' | None (undecided) for the memory operand, per ISA database entry or the documented default."""
    e, decided = direct_status(isa, isa_groups, name, kinds)
    if not decided:
        return None
    if e is None:
        e, decided = regform_status(isa, isa_groups, name, kinds, mp)
        if not decided:
            return None
    if e is not None:
        op = e["operands"][mp]
        s, d = bool(op.get("source")), bool(op.get("destination"))
        if s and d:
            return "rmw"
        if s:
            return "load"
        if d:
            return "store"
        return "none"
    n = len(kinds)
    if n == 1:
        return "load"
    if isa == "x86":
        return "store" if mp == n - 1 else "load"
    return "store" if mp == 0 else "load"


def row_matches(isa, row, memkind):
    f = RM._x86_mem if isa == "x86" else RM._a64_mem
    return f(row, memkind)


def pick_rows(isa, rows, default, memkind, rt, key):
    """Micro-ops of the first table row whose addressing shape matches and whose dst/src is the register type, else (loads only)
    the first matching row, else the default. Returns (uops, decided)."""
    match = []
    for r in rows:
        s = row_matches(isa, r, memkind)
        if s == RM.DC:
            return None, False
        if s == RM.MUST:
            match.append(r)
    typed = [r for r in match if r.get(key) is not None and r.get(key) == rt]
    if typed:
        return typed[0]["port_pressure"], True
    if key == "dst" and match:
        return match[0]["port_pressure"], True
    return default, True


def compose(isa, model, groups, isa_groups, name, kinds):
    """Expected analysis of an instruction with exactly one memory operand. Returns dict or None (don't care).

    dict: {'kind': 'direct'|'composed'|'unknown', ...numbers for composed}
    """
    mps = [i for i, k in enumerate(kinds) if k["k"] == "mem"]
    if len(mps) != 1:
        return None
    mp = mps[0]
    e, decided = direct_status(isa, groups, name, kinds)
    if not decided:
        return None
    if e is not None:
        return {"kind": "direct", "entry": e}
    role = mem_role(isa, isa_groups, name, kinds, mp)
    if role is None:
        return None
    if role == "none":
        return {"kind": "unknown"}
    e, decided = regform_status(isa, groups, name, kinds, mp)
    if not decided:
        return None
    if e is None:
        return {"kind": "unknown"}
    rt = reg_type(isa, e["operands"][mp])
    if rt is None:
        return None
    if e.get("throughput") is None or e.get("latency") is None or e.get("port_pressure") is None or isinstance(e.get("port_pressure"), dict):
        return None
    ports = model["ports"]
    mem = kinds[mp]
    reg_uops = norm_uops(e["port_pressure"])
    x = uniform_split(ports, reg_uops)
    data = [0.0] * len(ports)
    uops = list(reg_uops)
    lat = e["latency"]
    loads = role in ("load", "rmw")
    stores = role in ("store", "rmw")
    if isa == "aarch64" and role == "rmw" and (mem["pre"] or mem["post"]):
        stores = False  # write-back of the base register, not a memory store
    if loads:
        lu, ok = pick_rows(isa, model.get("load_throughput") or [], model.get("load_throughput_default") or [], mem, rt, "dst")
        if not ok:
            return None
        lu = norm_uops(lu)
        mult = (model.get("load_throughput_multiplier") or {}).get(rt, 1) if model.get("load_throughput_multiplier") else 1
        data = [d + mult * v for d, v in zip(data, uniform_split(ports, lu))]
        uops += lu
        ll = (model.get("load_latency") or {}).get(rt)
        lat = lat + (ll or 0)
    if stores:
        su, ok = pick_rows(isa, model.get("store_throughput") or [], model.get("store_throughput_default") or [], mem, rt, "src")
        if not ok:
            return None
        su = norm_uops(su)
        mult = (model.get("store_throughput_multiplier") or {}).get(rt, 1) if model.get("store_throughput_multiplier") else 1
        data = [d + mult * v for d, v in zip(data, uniform_split(ports, su))]
        uops += su
    return {
        "kind": "composed",
        "role": role,
        "loads": loads,
        "stores": stores,
        "reg_type": rt,
        "uops": uops,
        "pressure": [a + b for a, b in zip(x, data)],
        "latency": lat,
        "latency_wo_load": e["latency"],
        "throughput": max(max(data) if data else 0.0, e["throughput"]),
    }
