"""AST -> assembly text for the parser round trips C09 (x86 AT&T) and C10 (AArch64).

An *AST* is plain JSON-able data (dicts / lists / str / int):

    instruction  {"mnemonic": str, "operands": [operand, ...]}

x86 operands
    {"k": "reg",   "name": "rax", "cls": "g64"}                      name exactly as it is written (case kept)
    {"k": "imm",   "value": int, "txt": "-0x10", "cls": "hex-"}        "$" + txt is written
    {"k": "immid", "name": "foo"}                                     "$foo"
    {"k": "id",    "name": ".L3"}                                     bare identifier (first operand only)
    {"k": "mem",   "disp": None | {"value": int, "txt": str, "cls": str} | {"sym": str},
                   "base": None | name, "index": None | name, "scale": None | 1 | 2 | 4 | 8}

AArch64 operands
    {"k": "reg", "prefix": "v", "name": "1", "lanes": "2"|None, "shape": "d"|None, "index": int|None,
                 "predication": "m"|"z"|None, "up": bool, "cls": str}   "up": written in upper case
    {"k": "list", "members": [reg, ...], "style": "list"|"range", "index": int|None, "up": bool}
    {"k": "imm",  "value": int, "txt": "#0x10", "cls": str}
    {"k": "fimm", "mantissa": "1.5", "esign": None|"+"|"-", "exp": None|"2", "suffix": ""|"f", "txt": str, "cls": str}
    {"k": "cc",   "code": "ne", "txt": "NE"}
    {"k": "id",   "name": ".L3"}
    {"k": "mem",  "base": "x3"|"sp", "offset": None|{"value","txt","cls"}, "index": None|["x","2"],
                  "ext": None|[op, amount|None, hash(bool)], "pre": bool, "post": None|{"value","txt","cls"}, "up": bool}

The generators decide *what* is written (tokens), the renderers decide *how* it is laid out (white space, tabs,
separator spacing, trailing comment).  The oracle of C09 / C10 compares the parser's result with the AST the text was
rendered from.  The last part of the module is the ISA-independent half of that monitor (line / file structure oracle,
counters, exception classifier); it never imports OSACA - the parser object under test is handed in by the property module.
"""

# ----------------------------------------------------------------------------------------------------------------------
# common layout
# ----------------------------------------------------------------------------------------------------------------------
COMMENT_WORDS = [
    "c", "loop", "i+=1", "%rax", "$5", "x1,", "[sp]", "(a)", "#tag", "0x10", "foo:", ".L3", "==", "->", "1", "a.b",
    "ne", "//", "{v0.2d}", "mov", "8(%rsp)", "!", "LLVM", "-O3", "<<", "~", ";", "a;b", "done;",
]


def comment_body(r):
    n = r.choice([0, 1, 1, 1, 2, 2, 3, 4])
    return [r.choice(COMMENT_WORDS) for _ in range(n)]


def norm_comment(words):
    """What a parser that recovers the comment has to report: the words joined by single blanks."""
    return " ".join(words)


def render_comment(r, marker, words):
    """marker + words with random inner spacing."""
    s = marker + r.choice(["", " ", " ", "  ", "\t"])
    if not words:
        return marker + r.choice(["", " "])
    return s + r.choice([" ", " ", "  ", "\t"]).join(words) + r.choice(["", "", " ", "\t"])


def _lead(r):
    return r.choice(["", "", " ", "    ", "\t", "\t", "\t\t", " \t", "        "])


def _lead_class(s):
    return "none" if s == "" else ("tab" if "\t" in s else "space")


def _gap(r):
    return r.choice([" ", " ", "\t", "\t", "  ", "   ", " \t", "\t "])


SEP_STYLES = ["tight", "after", "after", "both", "before", "wide", "tab"]


def _sep(r, style):
    """(text before comma, text after comma)"""
    if style == "tight":
        return "", ""
    if style == "after":
        return "", " "
    if style == "before":
        return " ", ""
    if style == "both":
        return " ", " "
    if style == "tab":
        return r.choice(["", "\t"]), "\t"
    return r.choice(["", " ", "  ", "\t"]), r.choice([" ", "  ", "\t", "   ", ""])


def _inner(r, on):
    """white space inside brackets / parentheses / braces"""
    if not on:
        return ""
    return r.choice(["", " ", " ", "  ", "\t"])


def layout_line(r, mnemonic, optexts, markers, inner_used, force_tail=None):
    """Join mnemonic and operand texts with random layout.

    Returns dict(text, lay=[lead, sep, tail, inner], follow=[per operand: comma|ws|eol|comment], comment=None|str)."""
    lead = _lead(r)
    style = r.choice(SEP_STYLES)
    text = lead + mnemonic
    follow = []
    if optexts:
        text += _gap(r)
        for i, t in enumerate(optexts):
            text += t
            if i < len(optexts) - 1:
                b, a = _sep(r, style)
                follow.append("ws" if b else "comma")
                text += b + "," + a
    tail = force_tail or r.choice(["none", "none", "none", "ws", "cmt", "cmt", "cmt-tight"])
    comment = None
    last_follow = {"none": "eol", "ws": "ws", "cmt": "ws", "cmt-tight": "comment"}[tail]
    if tail == "ws":
        text += r.choice([" ", "  ", "\t", " \t"])
    elif tail in ("cmt", "cmt-tight"):
        words = comment_body(r)
        marker = r.choice(markers)
        if tail == "cmt":
            text += r.choice([" ", "  ", "\t", "\t\t", "   "])
        text += render_comment(r, marker, words)
        comment = norm_comment(words)
        tail += marker
    if optexts:
        follow.append(last_follow)
    return {
        "text": text,
        "lay": [_lead_class(lead), style, tail, "in1" if inner_used else "in0"],
        "follow": follow,
        "comment": comment,
    }


# ----------------------------------------------------------------------------------------------------------------------
# x86 AT&T
# ----------------------------------------------------------------------------------------------------------------------
X86_G64 = ["rax", "rbx", "rcx", "rdx", "rsi", "rdi", "rbp", "rsp"] + ["r%d" % i for i in range(8, 16)]
X86_G32 = ["eax", "ebx", "ecx", "edx", "esi", "edi", "ebp", "esp"] + ["r%dd" % i for i in range(8, 16)]
X86_G16 = ["ax", "bx", "cx", "dx", "si", "di", "bp", "sp"] + ["r%dw" % i for i in range(8, 16)]
X86_G8 = ["al", "bl", "cl", "dl", "sil", "dil", "bpl", "spl"] + ["r%db" % i for i in range(8, 16)]
X86_G8H = ["ah", "bh", "ch", "dh"]
X86_REG_CLASSES = {
    "g64": X86_G64,
    "g32": X86_G32,
    "g16": X86_G16,
    "g8": X86_G8,
    "g8h": X86_G8H,
    "xmm": ["xmm%d" % i for i in range(32)],
    "ymm": ["ymm%d" % i for i in range(32)],
    "zmm": ["zmm%d" % i for i in range(32)],
}
X86_MNEMONICS = {
    0: ["ret", "nop", "vzeroupper", "cltq", "leave", "cqto", "syscall", "pause", "lfence"],
    1: ["incq", "decl", "negq", "pushq", "popq", "notl", "mulq", "idivl", "prefetcht0", "seta", "bswap", "jmp", "call", "jne", "je", "jb", "ja"],
    2: ["mov", "movq", "movl", "movw", "movb", "addq", "subl", "xorl", "cmpq", "testl", "leaq", "lea", "vmovapd", "vmovups",
        "movzbl", "movslq", "imulq", "shlq", "sarl", "movabsq", "vmovsd", "cvtsi2sdq", "andq", "orb", "adcq", "cmovne", "vmovdqu64"],
    3: ["vaddpd", "vmulps", "vfmadd231pd", "vfmadd213sd", "vxorps", "imulq", "vpaddd", "vsubsd", "shldq", "vdivpd", "vpxor", "vmaxpd", "vandps"],
    4: ["vblendvpd", "vpermil2ps", "vfmaddpd", "vpcmpeqd", "vshufpd", "vinsertf128", "vperm2f128", "vpternlogd"],
}
X86_BRANCHES = ["jmp", "call", "jne", "je", "jb", "ja", "jle", "jg", "jae", "js", "callq", "jmpq"]
X86_ID_HEADS = [".L", ".LBB0_", ".LC", "foo", "main", "_Z3fooPd", "kernel_", "loop", ".Ltmp", "x", "triad.", "__svml_exp4", "a$b"]
BOUNDARY_INTS = [0, 1, -1, 2, 7, 8, 64, 127, -128, 255, 256, 4096, 65535, 2 ** 31 - 1, -(2 ** 31), 2 ** 32 - 1, 2 ** 32,
                 2 ** 63 - 1, -(2 ** 63), 2 ** 64 - 1, 2 ** 63]


def ident(r, heads):
    h = r.choice(heads)
    if h.endswith(("L", "_", "C", "p", ".")) or r.random() < 0.5:
        h += str(r.randint(0, 999))
    return h


def _hexdigits(r, v):
    s = format(v, "x")
    k = r.random()
    if k < 0.3:
        s = s.upper()
    elif k < 0.4:
        s = "".join(c.upper() if r.random() < 0.5 else c for c in s)
    if r.random() < 0.1:
        s = "0" * r.randint(1, 3) + s
    return s


def int_token(r, lo_bits=64, allow_neg=True, small_bias=0.5):
    """-> {"value", "txt", "cls"}; cls in dec+ dec- hex+ hex- (and hex64 for hexadecimal values needing more than 32 bit)."""
    k = r.random()
    if k < small_bias:
        v = r.randint(-300, 300)
    elif k < small_bias + 0.2:
        v = r.choice(BOUNDARY_INTS)
    else:
        bits = r.randint(1, lo_bits)
        v = r.getrandbits(bits)
        if r.random() < 0.3:
            v = -v
    lim = 2 ** lo_bits  # admitted range: [-(2^(bits-1)), 2^bits)
    if v >= lim or v < -(lim // 2):
        v = v % (lim // 2)
    if not allow_neg:
        v = abs(v)
    if r.random() < 0.45:
        txt = ("-" if v < 0 else "") + "0x" + _hexdigits(r, abs(v))
        cls = "hex-" if v < 0 else ("hex64" if abs(v) >= 2 ** 32 else "hex+")
    else:
        txt = str(v)
        cls = "dec-" if v < 0 else ("dec64" if abs(v) >= 2 ** 32 else "dec+")
    return {"value": v, "txt": txt, "cls": cls}


def x86_reg(r, classes=None):
    cls = r.choice(classes or ["g64", "g64", "g32", "g32", "g16", "g8", "g8h", "xmm", "ymm", "zmm", "zmm"])
    name = r.choice(X86_REG_CLASSES[cls])
    if r.random() < 0.04:
        name = name.upper()
    return {"k": "reg", "name": name, "cls": cls}


def x86_imm(r):
    t = int_token(r, 64)
    return {"k": "imm", "value": t["value"], "txt": t["txt"], "cls": t["cls"]}


def x86_mem(r, first):
    combos = [(1, 0, 0), (1, 0, 1), (1, 1, 0), (1, 1, 1), (0, 1, 0), (0, 1, 1)]
    weights = [3, 4, 3, 4, 2, 3]
    if not first:
        combos.append((0, 0, 1))
        weights.append(2)
    hb, hi, hd = r.choices(combos, weights)[0]
    m = {"k": "mem", "disp": None, "base": None, "index": None, "scale": None}
    addr32 = r.random() < 0.08
    pool = X86_G32 if addr32 else X86_G64
    if hb:
        m["base"] = r.choice(pool)
    if hi:
        if r.random() < 0.1:
            m["index"] = r.choice(X86_REG_CLASSES[r.choice(["xmm", "ymm", "zmm"])])
        else:
            m["index"] = r.choice([g for g in pool if g not in ("rsp", "esp")])
        m["scale"] = r.choice([None, None, 1, 2, 4, 8])
    if hd:
        if not hb and not hi:
            t = int_token(r, 31, allow_neg=False, small_bias=0.6)
            m["disp"] = t
        elif r.random() < 0.12:
            m["disp"] = {"sym": ident(r, X86_ID_HEADS)}
        else:
            m["disp"] = int_token(r, 32, small_bias=0.6)
    if hb and not hi and r.random() < 0.08:
        m["base"] = "rip"
        m["disp"] = {"sym": ident(r, X86_ID_HEADS)} if r.random() < 0.8 else int_token(r, 31, small_bias=0.7)
    if r.random() < 0.03:
        for f in ("base", "index"):
            if m[f]:
                m[f] = m[f].upper()
    return m


def x86_instr(r):
    n = r.choice([0, 1, 1, 2, 2, 2, 2, 3, 3, 4])
    ops = []
    has_mem = False
    for i in range(n):
        k = r.random()
        if i == 0 and k < 0.12:
            ops.append({"k": "id", "name": ident(r, X86_ID_HEADS)})
        elif k < 0.45:
            ops.append(x86_reg(r))
        elif k < 0.62:
            ops.append(x86_imm(r))
        elif k < 0.66:
            ops.append({"k": "immid", "name": ident(r, X86_ID_HEADS)})
        elif not has_mem or r.random() < 0.2:
            ops.append(x86_mem(r, first=(i == 0)))
            has_mem = True
        else:
            ops.append(x86_reg(r))
    if n and ops[0]["k"] == "id" and n == 1:
        mn = r.choice(X86_BRANCHES)
    else:
        mn = r.choice(X86_MNEMONICS[n])
    return {"mnemonic": mn, "operands": ops}


def x86_disp_text(d):
    if d is None:
        return ""
    return d["sym"] if "sym" in d else d["txt"]


def x86_operand_text(r, op, inner):
    k = op["k"]
    if k == "reg":
        return "%" + op["name"]
    if k == "imm":
        return "$" + op["txt"]
    if k == "immid":
        return "$" + op["name"]
    if k == "id":
        return op["name"]
    s = x86_disp_text(op["disp"])
    if op["base"] is None and op["index"] is None:
        return s
    s += "(" + _inner(r, inner)
    if op["base"]:
        s += "%" + op["base"]
    if op["index"]:
        s += _inner(r, inner) + "," + _inner(r, inner) + "%" + op["index"]
        if op["scale"] is not None:
            s += _inner(r, inner) + "," + _inner(r, inner) + str(op["scale"])
    return s + _inner(r, inner) + ")"


def x86_render(r, ast, force_tail=None):
    inner = any(o["k"] == "mem" for o in ast["operands"]) and r.random() < 0.3
    texts = [x86_operand_text(r, o, inner) for o in ast["operands"]]
    return layout_line(r, ast["mnemonic"], texts, ["#", "#", "#", "//"], inner, force_tail)


def x86_optag(op):
    k = op["k"]
    if k == "reg":
        return "reg:" + op["cls"] + ("/upper" if op["name"] != op["name"].lower() else "")
    if k == "imm":
        return "imm:" + op["cls"]
    if k in ("immid", "id"):
        return k
    d = op["disp"]
    t = "mem:" + ("b" if op["base"] else "") + ("i" if op["index"] else "") + ("d" if d else "")
    if op["index"]:
        t += "/s" + ("omitted" if op["scale"] is None else str(op["scale"]))
    if d:
        t += "/d" + ("sym" if "sym" in d else d["cls"])
    return t


def x86_nontrivial(ast):
    ops = ast["operands"]
    return len(ops) >= 2 and any(o["k"] == "mem" or (o["k"] == "imm" and o["cls"].startswith("hex")) for o in ops)


# ----------------------------------------------------------------------------------------------------------------------
# AArch64
# ----------------------------------------------------------------------------------------------------------------------
A64_CC = ["eq", "ne", "cs", "hs", "cc", "lo", "mi", "pl", "vs", "vc", "hi", "ls", "ge", "lt", "gt", "le", "al"]
A64_ARR = [("8", "b"), ("16", "b"), ("4", "h"), ("8", "h"), ("2", "s"), ("4", "s"), ("1", "d"), ("2", "d")]
A64_ELEMS = {"b": 16, "h": 8, "s": 4, "d": 2}
A64_MNEMONICS = {
    0: ["ret", "nop", "isb", "wfe", "yield", "eret"],
    1: ["b", "bl", "br", "blr", "ptrue", "b.ne", "b.eq", "b.lt", "b.ge", "b.hi", "b.any", "b.first", "ret", "rdvl"],
    2: ["mov", "cmp", "fmov", "ldr", "str", "ldur", "neg", "fabs", "cset", "adrp", "cbz", "cbnz", "dup", "ld1", "st1", "ldrb", "strh",
        "fsqrt", "mvn", "tst", "fcmp", "ldrsw", "ld1d", "st1w", "prfum", "whilelo"],
    3: ["add", "sub", "fadd", "fmul", "fmla", "ldp", "stp", "and", "orr", "eor", "mul", "fsub", "fdiv", "subs", "adds", "cinc", "tbz",
        "ld1d", "st1d", "ld1w", "fmax", "umov", "ins", "lsl", "asr", "ld2", "st2", "ccmp"],
    4: ["madd", "msub", "fmadd", "fmsub", "csel", "csinc", "fcsel", "ccmp", "ccmn", "fmla", "ld3", "st4", "fnmadd", "ext", "smaddl", "bfi", "ubfx"],
    5: ["casp", "caspa", "caspal", "caspl", "sys", "fcmla", "tbx"],
}
A64_ID_HEADS = [".L", ".LBB0_", ".LC", "foo", "main", "_Z3fooPd", "kernel_", "loop_", ".Ltmp", "triad.", "func", "memcpy", "_start",
                "less_than", "vs_loop", "spill_", "eq_", "hi_part", "d_loop", "ne.", "x_", "p_", "v_"]


def _reg(prefix, name, cls, up, lanes=None, shape=None, index=None, predication=None):
    return {"k": "reg", "prefix": prefix, "name": str(name), "lanes": lanes, "shape": shape, "index": index,
            "predication": predication, "up": up, "cls": cls}


def a64_reg(r, classes=None):
    cls = r.choice(classes or ["gpr", "gpr", "gpr", "fp", "fp", "vec", "vec", "vec-elem", "sve", "sve", "pred", "pred", "zr", "sp"])
    up = r.random() < 0.12
    if cls == "gpr":
        return _reg(r.choice("xw"), r.randint(0, 30), cls, up)
    if cls == "zr":
        return _reg(r.choice("xw"), "zr", cls, up)
    if cls == "sp":
        return _reg("x", "sp", cls, up)
    if cls == "fp":
        return _reg(r.choice("bhsdq"), r.randint(0, 31), cls, up)
    if cls == "vec":
        lanes, shape = r.choice(A64_ARR)
        return _reg("v", r.randint(0, 31), cls, up, lanes=lanes, shape=shape)
    if cls == "vec-elem":
        shape = r.choice("bhsd")
        return _reg("v", r.randint(0, 31), cls, up, shape=shape, index=r.randint(0, A64_ELEMS[shape] - 1))
    if cls == "sve":
        shape = r.choice(["b", "h", "s", "d", "d", "s", "q", None])
        return _reg("z", r.randint(0, 31), "sve" if shape else "sve-bare", up, shape=shape)
    v = r.choice([None, "/m", "/z", ".b", ".h", ".s", ".d"])
    if v is None:
        return _reg("p", r.randint(0, 15), "pred-bare", up)
    if v[0] == "/":
        return _reg("p", r.randint(0, 15), "pred" + v, up, predication=v[1])
    return _reg("p", r.randint(0, 15), "pred.shape", up, shape=v[1])


def a64_reg_text(reg, with_index=True):
    if reg["name"] in ("sp", "zr"):
        s = ("" if reg["name"] == "sp" else reg["prefix"]) + reg["name"]
    else:
        s = reg["prefix"] + reg["name"]
    if reg.get("shape"):
        s += "." + (reg.get("lanes") or "") + reg["shape"]
    if reg.get("predication"):
        s += "/" + reg["predication"]
    if with_index and reg.get("index") is not None:
        s += "[%d]" % reg["index"]
    return s.upper() if reg.get("up") else s


def a64_list(r):
    up = r.random() < 0.1
    n = r.choice([1, 2, 2, 3, 4])
    kind = r.choice(["vec", "vec", "vec", "vec-elem", "sve"])
    start = r.randint(0, 32 - n)
    index = None
    if kind == "vec":
        lanes, shape = r.choice(A64_ARR)
        pre = "v"
    elif kind == "vec-elem":
        lanes, shape = None, r.choice("bhsd")
        index = r.randint(0, A64_ELEMS[shape] - 1)
        pre = "v"
    else:
        lanes, shape = None, r.choice("bhsd")
        pre = "z"
    members = [_reg(pre, start + i, kind, up, lanes=lanes, shape=shape, index=index) for i in range(n)]
    style = "range" if n >= 2 and r.random() < 0.45 else "list"
    return {"k": "list", "members": members, "style": style, "index": index, "up": up}


def a64_imm(r):
    t = int_token(r, 64, small_bias=0.6)
    h = r.random() < 0.7
    return {"k": "imm", "value": t["value"], "txt": ("#" if h else "") + t["txt"], "cls": t["cls"] + ("/#" if h else "/bare")}


def a64_fimm(r):
    mant = "%d.%s" % (r.choice([0, 1, 1, 2, 3, 10, 31, 125]), r.choice(["0", "5", "25", "125", "0625", "75", "00"]))
    if r.random() < 0.3:
        mant = "-" + mant
    has_e = r.random() < 0.55
    esign = r.choice("+-") if has_e else None
    exp = str(r.choice([0, 1, 2, 3, 5, 10, 12])) if has_e else None
    suffix = r.choice(["", "", "f", "F"])
    h = r.random() < 0.7
    txt = ("#" if h else "") + mant + ((r.choice("eE") + esign + exp) if has_e else "") + suffix
    cls = ("exp" if has_e else "plain") + ("+f" if suffix else "") + ("/#" if h else "/bare")
    return {"k": "fimm", "mantissa": mant, "esign": esign, "exp": exp, "suffix": suffix.lower(), "txt": txt, "cls": cls}


A64_EXTENDS = ["lsl", "lsl", "lsl", "sxtw", "uxtw", "sxtx"]


def a64_mem(r):
    up = r.random() < 0.08
    base = "sp" if r.random() < 0.15 else "x%d" % r.randint(0, 30)
    m = {"k": "mem", "base": base, "offset": None, "index": None, "ext": None, "pre": False, "post": None, "up": up}

    def off():
        t = int_token(r, 16, small_bias=0.75)
        h = r.random() < 0.75
        return {"value": t["value"], "txt": ("#" if h else "") + t["txt"], "cls": t["cls"] + ("/#" if h else "/bare")}

    form = r.choice(["base", "off", "off", "pre", "post", "idx", "idx-ext", "idx-ext", "idx-ext-noamount"])
    if r.random() < 0.06:
        # SVE gather/scatter with a vector of addresses as base: [z1.d], [z1.d, #8], [z1.d, x2]
        m["base"] = "z%d.%s" % (r.randint(0, 31), r.choice("ds"))
        form = r.choice(["base", "off", "idx"])
    m["form"] = form
    if form == "off":
        m["offset"] = off()
    elif form == "pre":
        m["offset"] = off()
        m["pre"] = True
    elif form == "post":
        m["post"] = off()
    elif form.startswith("idx"):
        ext = None
        if form == "idx-ext":
            op = r.choice(A64_EXTENDS)
            ext = [op, r.randint(0, 4), r.random() < 0.8]
        elif form == "idx-ext-noamount":
            ext = [r.choice(["sxtw", "uxtw"]), None, False]
        pre = "x"
        if ext and ext[0] in ("sxtw", "uxtw"):
            pre = "w"
        m["index"] = [pre, str(r.randint(0, 30))]
        m["ext"] = ext
    return m


def a64_mem_text(r, m, inner):
    def c(s):
        return s.upper() if m["up"] else s

    s = "[" + _inner(r, inner) + c(m["base"])
    if m["offset"]:
        s += _inner(r, inner) + "," + _inner(r, inner or r.random() < 0.7) + m["offset"]["txt"]
    if m["index"]:
        s += _inner(r, inner) + "," + _inner(r, inner or r.random() < 0.7) + c(m["index"][0] + m["index"][1])
        if m["ext"]:
            op, amount, h = m["ext"]
            s += _inner(r, inner) + "," + _inner(r, inner or r.random() < 0.7) + c(op)
            if amount is not None:
                s += r.choice([" ", " ", "  ", "\t"]) + ("#" if h else "") + str(amount)
    s += _inner(r, inner) + "]"
    if m["pre"]:
        s += "!"
    if m["post"]:
        s += _inner(r, inner) + "," + _inner(r, inner or r.random() < 0.7) + m["post"]["txt"]
    return s


def a64_list_text(r, L, inner):
    texts = [a64_reg_text(m, with_index=False) for m in L["members"]]
    if L["style"] == "list":
        body = (_inner(r, inner) + "," + _inner(r, inner or r.random() < 0.7)).join(texts)
    else:
        d = r.choice(["-", " - ", " - ", "- ", " -"])
        body = texts[0] + d + texts[-1]
    s = "{" + _inner(r, inner) + body + _inner(r, inner) + "}"
    if L["index"] is not None:
        s += "[%d]" % L["index"]
    return s


def a64_instr(r):
    n = r.choice([0, 1, 1, 2, 2, 2, 3, 3, 3, 4, 4, 5])  # the grammar has five operand slots (casp x0, x1, x2, x3, [x4])
    ops = []
    k_last = r.random()
    last = None
    if n >= 2 and k_last < 0.4:
        last = "mem"
    elif n >= 2 and k_last < 0.55:
        last = "cc"
    elif n >= 1 and k_last < 0.7:
        last = "id"
    for i in range(n):
        is_last = i == n - 1
        if is_last and last == "mem":
            ops.append(a64_mem(r))
        elif is_last and last == "cc":
            c = r.choice(A64_CC)
            ops.append({"k": "cc", "code": c, "txt": c.upper() if r.random() < 0.25 else c})
        elif is_last and last == "id":
            ops.append({"k": "id", "name": ident(r, A64_ID_HEADS)})
        else:
            k = r.random()
            if i > 0 and k < 0.2:
                ops.append(a64_imm(r))
            elif i > 0 and k < 0.28:
                ops.append(a64_fimm(r))
            elif k < 0.38 and last == "mem" and not any(o["k"] == "list" for o in ops):
                ops.append(a64_list(r))
            else:
                ops.append(a64_reg(r))
    if n == 1 and ops[0]["k"] == "id":
        mn = r.choice(["b", "bl", "b.ne", "b.eq", "b.lt", "b.ge", "b.hi", "b.ls", "b.any", "b.first", "b.none"])
    else:
        mn = r.choice(A64_MNEMONICS[n])
    if r.random() < 0.04:
        mn = mn.upper()
    return {"mnemonic": mn, "operands": ops}


def a64_operand_text(r, op, inner):
    k = op["k"]
    if k == "reg":
        return a64_reg_text(op)
    if k in ("imm", "fimm", "cc"):
        return op["txt"]
    if k == "id":
        return op["name"]
    if k == "list":
        return a64_list_text(r, op, inner)
    return a64_mem_text(r, op, inner)


def a64_render(r, ast, force_tail=None):
    inner = any(o["k"] in ("mem", "list") for o in ast["operands"]) and r.random() < 0.3
    texts = [a64_operand_text(r, o, inner) for o in ast["operands"]]
    return layout_line(r, ast["mnemonic"], texts, ["//"], inner, force_tail)


def a64_optag(op):
    k = op["k"]
    if k == "reg":
        return "reg:" + op["cls"] + ("/upper" if op.get("up") else "")
    if k in ("imm", "fimm"):
        return k + ":" + op["cls"]
    if k == "cc":
        return "cc" + ("/upper" if op["txt"] != op["code"] else "")
    if k == "id":
        return "id"
    if k == "list":
        return "list:%s/%s%s%s" % (op["members"][0]["cls"], op["style"], "+idx" if op["index"] is not None else "", "/upper" if op["up"] else "")
    t = "mem:" + op["form"]
    if op["ext"]:
        t += "/" + op["ext"][0] + ("" if op["ext"][1] is None else ("#" if op["ext"][2] else "") + "n")
    if op["base"] == "sp":
        t += "/sp"
    if op["base"].startswith("z"):
        t += "/zbase"
    if op["up"]:
        t += "/upper"
    return t


def a64_nontrivial(ast):
    ops = ast["operands"]
    return len(ops) >= 2 and any(
        o["k"] == "mem" or (o["k"] == "imm" and o["cls"].startswith("hex")) or o["k"] == "fimm" for o in ops
    )


# ----------------------------------------------------------------------------------------------------------------------
# non-instruction lines and whole files
# ----------------------------------------------------------------------------------------------------------------------
LABEL_HEADS = [".L", ".LBB0_", ".LFB", "foo", "main", "_Z6kernelPdS_", "loop_", ".Ltmp", "triad.", "func", "_start", "L", ".L.str.", ".Lstr.", ".LBB0_1.cold"]
DIRECTIVES_COMMON = [
    ("text", ""), ("data", ""), ("cfi_startproc", ""), ("cfi_endproc", ""), ("p2align", "4,,10"), ("p2align", "3"), ("align", "16"),
    ("globl", "kernel"), ("global", "main"), ("loc", "1 23 0"), ("file", '"triad.c"'), ("ident", '"GCC: (GNU) 12.2.0"'),
    ("section", ".rodata"), ("section", ".text.startup"), ("size", "kernel, .-kernel"), ("long", "1072693248"), ("quad", "0x3ff0000000000000"),
    ("byte", "1,2,3"), ("word", "-1"), ("string", '"abc"'), ("cfi_def_cfa_offset", "16"), ("zero", "8"), ("set", "N, 100"), ("weak", "sym_1"),
]
DIRECTIVES_X86 = [("type", "kernel, @function"), ("section", '.note.GNU-stack,"",@progbits'), ("cfi_offset", "6, -16"), ("intel_syntax", "noprefix")]
DIRECTIVES_A64 = [("type", "kernel, %function"), ("arch", "armv8.2-a+sve"), ("xword", ".L3-.L4"), ("cfi_offset", "29, -16"), ("inst", "0x2520e020")]


def misc_line(r, isa, kind):
    """-> item dict for a comment / label / directive line (text + what has to be recovered)."""
    lead = _lead(r)
    markers = ["#", "#", "//"] if isa == "x86" else ["//"]
    if kind == "comment":
        words = comment_body(r)
        m = r.choice(markers)
        text = lead + render_comment(r, m, words)
        return {"kind": "comment", "text": text, "comment": norm_comment(words), "marker": m}
    if kind == "label":
        if isa == "x86" and r.random() < 0.15:
            name = str(r.randint(0, 99))
            sub = "numeric"
        else:
            name = ident(r, LABEL_HEADS)
            sub = "symbol"
        text = lead + name + ":"
        comment = None
        m = None
        if r.random() < 0.3:
            words = comment_body(r)
            m = r.choice(markers)
            text += r.choice(["", " ", "\t", "   "]) + render_comment(r, m, words)
            comment = norm_comment(words)
        elif r.random() < 0.2:
            text += r.choice([" ", "\t"])
        return {"kind": "label", "text": text, "name": name, "comment": comment, "sub": sub, "marker": m}
    name, params = r.choice(DIRECTIVES_COMMON + (DIRECTIVES_X86 if isa == "x86" else DIRECTIVES_A64))
    text = lead + "." + name + ((r.choice([" ", "\t", "  "]) + params) if params else "")
    comment = None
    m = None
    if r.random() < 0.3:
        words = [w for w in comment_body(r) if '"' not in w and "'" not in w]
        if words and r.random() < 0.3:
            words[0] = words[0].rstrip(",") + ","  # a comment that contains a comma
        m = "#" if isa == "x86" else "//"
        text += r.choice([" ", "\t", "  "]) + render_comment(r, m, words)
        comment = norm_comment(words)
    return {"kind": "directive", "text": text, "name": name, "comment": comment, "marker": m}


def instr_item(r, isa, force_tail=None):
    ast = x86_instr(r) if isa == "x86" else a64_instr(r)
    out = (x86_render if isa == "x86" else a64_render)(r, ast, force_tail)
    return {"kind": "instr", "text": out["text"], "ast": ast, "lay": out["lay"], "follow": out["follow"], "comment": out["comment"]}


def blank_line(r):
    if r.random() < 0.12:
        # white space that some line-splitting routines take for a line boundary (a page break ^L in a listing, ...): still one
        # blank line of the file, which is counted by its newline characters
        return {"kind": "blank", "text": r.choice(["\x0c", "\x0c", " \x0c", "\x0b", "\x1c", "\x1d\t", "\x1e", "\x85", "\u2028", "\u2029 "]), "exotic": True}
    return {"kind": "blank", "text": r.choice(["", "", "", " ", "\t", "   ", " \t ", "\t\t"])}


def build_file(r, isa, n_lines):
    """-> (file text, items). Items are in file order, one per '\\n'-separated line of the text."""
    items = []
    for _ in range(n_lines):
        k = r.random()
        if k < 0.22:
            for _ in range(r.choice([1, 1, 1, 2, 3])):
                items.append(blank_line(r))
        elif k < 0.32:
            items.append(misc_line(r, isa, "comment"))
        elif k < 0.42:
            items.append(misc_line(r, isa, "label"))
        elif k < 0.54:
            items.append(misc_line(r, isa, "directive"))
        else:
            items.append(instr_item(r, isa))
    if r.random() < 0.3:
        items.insert(0, blank_line(r))
    text = "\n".join(it["text"] for it in items)
    if r.random() < 0.6:
        text += "\n"  # final newline: one more (empty) line that yields nothing
    return text, items


def optag(isa, op):
    return x86_optag(op) if isa == "x86" else a64_optag(op)


def nontrivial(isa, ast):
    return x86_nontrivial(ast) if isa == "x86" else a64_nontrivial(ast)


def shape_of(isa, ast):
    return [ast["mnemonic"].count("."), [optag(isa, o) for o in ast["operands"]]]


def x86_classes(ast):
    """Coarse input-class counters hit by one x86 instruction AST."""
    out = ["ops:%d" % len(ast["operands"])]
    for i, o in enumerate(ast["operands"]):
        k = o["k"]
        if k == "reg":
            out.append("reg:" + o["cls"])
            if o["name"] != o["name"].lower():
                out.append("reg:upper-case")
        elif k == "imm":
            out.append("imm:" + o["cls"])
        elif k == "mem":
            d = o["disp"]
            out.append("mem:" + ("b" if o["base"] else "-") + ("i" if o["index"] else "-") + ("d" if d else "-"))
            if o["index"]:
                out.append("scale:" + ("omitted" if o["scale"] is None else str(o["scale"])))
            if d:
                out.append("disp:" + ("sym" if "sym" in d else d["cls"]))
        else:
            out.append("id:first" if k == "id" else k)
    return out


def a64_classes(ast):
    out = ["ops:%d" % len(ast["operands"])]
    if "." in ast["mnemonic"]:
        out.append("mnemonic:.cond")
    for o in ast["operands"]:
        k = o["k"]
        if k == "reg":
            out.append("reg:" + o["cls"])
            if o.get("up"):
                out.append("reg:upper-case")
        elif k == "list":
            out.append("list:" + o["style"] + ("+index" if o["index"] is not None else ""))
            out.append("list-of:" + o["members"][0]["cls"])
        elif k in ("imm", "fimm"):
            out.append(k + ":" + o["cls"])
        elif k == "cc":
            out.append("cc")
        elif k == "id":
            out.append("id")
        else:
            out.append("mem:" + o["form"])
            if o["ext"]:
                out.append("ext:" + o["ext"][0] + ("" if o["ext"][1] is None else "#n"))
                if o["ext"][1] is not None:
                    out.append("shift:%d" % o["ext"][1])
            if o["base"] == "sp":
                out.append("mem:base-sp")
            if o["base"].startswith("z"):
                out.append("mem:base-vector")
            for f in ("offset", "post"):
                if o[f]:
                    out.append("memimm:" + o[f]["cls"])
    return out


# ----------------------------------------------------------------------------------------------------------------------
# ISA-independent part of the round-trip monitor (the parser object is handed in; this module never imports OSACA)
# ----------------------------------------------------------------------------------------------------------------------
class Verdict:
    """Refutations found by the oracle for one case: list of (mechanism key, observed-vs-expected text)."""

    def __init__(self):
        self.items = []
        self.dont_care = []

    def bad(self, key, what):
        if all(k != key for k, _ in self.items):
            self.items.append((key, what))

    def dc(self, name):
        self.dont_care.append(name)


def show(o, depth=0):
    """Compact description of a parser operand for messages."""
    if isinstance(o, (list, tuple)):
        return "[" + ", ".join(show(x, depth + 1) for x in o) + "]"
    if hasattr(o, "__dict__") and depth < 4:
        d = {}
        for k, v in vars(o).items():
            k = k.lstrip("_")
            if k in ("source", "destination") or v is None or v is False:
                continue
            d[k] = show(v, depth + 1) if hasattr(v, "__dict__") or isinstance(v, (list, tuple)) else v
        return "%s(%s)" % (type(o).__name__.replace("Operand", ""), ", ".join("%s=%s" % (k, v if isinstance(v, str) and hasattr(vars(o).get("_" + k), "__dict__") else repr(v)) for k, v in d.items()))
    return repr(o)


KIND_NAMES = {"instr": "instruction", "comment": "comment", "label": "label", "directive": "directive"}


def judge_form(isa, form, item, lineno, cmp_instr, V, where="line"):
    """Oracle for one parsed line (written from the statements of C09 / C10)."""
    text = item["text"]
    if form.line != text:
        V.bad("%s/line-text" % isa, "line text %r, written %r" % (form.line, text))
    if form.line_number != lineno or isinstance(form.line_number, bool):
        V.bad("%s/line-number/%s" % (isa, where), "line_number %r, expected %r for %r" % (form.line_number, lineno, text))
    has = [n for n, v in (("label", form.label), ("directive", form.directive), ("instruction", form.mnemonic)) if v is not None]
    if len(has) == 1:
        got = has[0]
    elif not has:
        got = "comment" if form.comment is not None else "nothing"
    else:
        got = "+".join(has)
    want = KIND_NAMES[item["kind"]]
    if got != want:
        V.bad("%s/classification/%s->%s%s" % (isa, want, got, line_context(item)), "%r classified as %s, is a %s line" % (text, got, want))
        return
    if want != "instruction" and list(form.operands or []) != []:
        V.bad("%s/operands-on-%s-line" % (isa, want), "%r: operands %s on a %s line" % (text, show(form.operands), want))
    exp_c = item.get("comment")
    if want == "directive" and exp_c is not None and (isa == "aarch64" or item.get("marker") != "#"):
        V.dc("directive-comment")
    elif exp_c == "":
        if form.comment not in (None, ""):
            V.bad("%s/comment/%s/empty" % (isa, want), "%r: comment %r, written empty" % (text, form.comment))
    elif form.comment != exp_c:
        how = "spurious" if exp_c is None else ("lost" if form.comment is None else "text")
        V.bad("%s/comment/%s/%s" % (isa, want, how), "%r: comment %r, expected %r" % (text, form.comment, exp_c))
    if want == "label":
        if form.label != item["name"]:
            V.bad("%s/label-name/%s" % (isa, item.get("sub", "symbol")), "%r: label %r, expected %r" % (text, form.label, item["name"]))
    elif want == "directive":
        if getattr(form.directive, "name", None) != item["name"]:
            V.bad("%s/directive-name" % isa, "%r: directive %r, expected name %r" % (text, form.directive, item["name"]))
    elif want == "instruction":
        cmp_instr(form, item, V)


def line_context(item):
    """Mechanism detail for non-instruction lines: a trailing comment that contains a comma is a class of its own."""
    if item["kind"] in ("directive", "label") and item.get("comment") is not None:
        return "/comment-with-comma" if "," in item["comment"] else "/with-comment"
    return ""


def item_digest_parts(isa, item):
    if item["kind"] == "instr":
        return [isa, shape_of(isa, item["ast"]), item["lay"]]
    return [isa, item["kind"], item.get("sub"), item.get("marker"), item.get("comment") is not None]


def count_item(isa, item, R, prefix=""):
    k = item["kind"]
    if k == "instr":
        for c in (x86_classes if isa == "x86" else a64_classes)(item["ast"]):
            R.count(prefix + c)
        lay = item["lay"]
        R.count(prefix + "lead:" + lay[0])
        R.count(prefix + "sep:" + lay[1])
        R.count(prefix + "tail:" + lay[2])
        R.count(prefix + "inner-ws:" + lay[3])
        for o in item["ast"]["operands"]:
            R.observe("operand-tags", optag(isa, o))
    elif k == "blank":
        R.count(prefix + ("line:blank-empty" if item["text"] == "" else "line:blank-other-whitespace" if item.get("exotic") else "line:blank-whitespace"))
    else:
        R.count(prefix + "line:" + k + ("/" + item["sub"] if item.get("sub") else "") + ("/" + item["marker"] if k == "comment" else ""))
        if k != "comment" and item.get("comment") is not None:
            R.count(prefix + "line:%s+trailing-comment" % k)
            if "," in item["comment"]:
                R.count(prefix + "line:%s+trailing-comment-with-comma" % k)


def a64_mem_form(m):
    if m["index"]:
        return "idx" if not m["ext"] else ("idx-ext" if m["ext"][1] is not None else "idx-ext-noamount")
    return "pre" if m["pre"] else ("post" if m["post"] else ("off" if m["offset"] else "base"))


def _simpler(isa, op):
    """Candidate simplifications of one operand (classifier only), most drastic first."""
    k = op["k"]
    out = []
    if isa == "x86":
        if k == "reg" and op["name"] != "rax":
            out.append({"k": "reg", "name": "rax", "cls": "g64"})
        elif k == "imm" and op["txt"] != "1":
            out.append({"k": "imm", "value": 1, "txt": "1", "cls": "dec+"})
        elif k in ("id", "immid") and op["name"] != "foo":
            out.append({"k": k, "name": "foo"})
        elif k == "mem":
            if op["disp"] is not None:
                out.append(dict(op, disp=None))
                if op["disp"].get("txt") != "8":
                    out.append(dict(op, disp={"value": 8, "txt": "8", "cls": "dec+"}))
            if op["index"]:
                out.append(dict(op, index=None, scale=None))
                if op["scale"] is not None:
                    out.append(dict(op, scale=None))
                if op["index"] != "rcx":
                    out.append(dict(op, index="rcx"))
            if op["base"]:
                out.append(dict(op, base=None))
                if op["base"] != "rax":
                    out.append(dict(op, base="rax"))
            out = [m for m in out if m["base"] or m["index"] or m["disp"]]
        return out
    plain = _reg("x", 1, "gpr", False)
    if k == "reg" and (op["prefix"], op["name"], op.get("shape"), op.get("up")) != ("x", "1", None, False):
        if op.get("up"):
            out.append(dict(op, up=False))
        out.append(plain)
    elif k == "list":
        if op["up"]:
            out.append(dict(op, up=False, members=[dict(m, up=False) for m in op["members"]]))
        if op["index"] is not None:
            out.append(dict(op, index=None, members=[dict(m, index=None, cls="vec") for m in op["members"]]))
        if op["style"] == "range":
            out.append(dict(op, style="list"))
        if len(op["members"]) > 1 and op["style"] == "list":
            out.append(dict(op, members=op["members"][:1]))
    elif k == "imm" and op["txt"] != "#1":
        out.append({"k": "imm", "value": 1, "txt": "#1", "cls": "dec+/#"})
    elif k == "fimm" and op["txt"] != "#1.0":
        out.append({"k": "fimm", "mantissa": "1.0", "esign": None, "exp": None, "suffix": "", "txt": "#1.0", "cls": "plain/#"})
    elif k == "cc" and op["txt"] != "ne":
        out.append({"k": "cc", "code": "ne", "txt": "ne"})
    elif k == "id" and op["name"] != "foo":
        out.append({"k": "id", "name": "foo"})
    elif k == "mem":
        one = {"value": 8, "txt": "#8", "cls": "dec+/#"}
        if op["up"]:
            out.append(dict(op, up=False))
        if op["ext"]:
            out.append(dict(op, ext=None, index=["x", op["index"][1]]))
        if op["index"]:
            out.append(dict(op, index=None, ext=None))
        if op["offset"]:
            out.append(dict(op, offset=None, pre=False))
            if op["offset"]["txt"] != "#8":
                out.append(dict(op, offset=one))
        if op["pre"]:
            out.append(dict(op, pre=False))
        if op["post"]:
            out.append(dict(op, post=None))
            if op["post"]["txt"] != "#8":
                out.append(dict(op, post=one))
        if op["base"] != "x1":
            out.append(dict(op, base="x1"))
        for m in out:
            m["form"] = a64_mem_form(m)
    return out


def _admissible(isa, ops):
    """Operand order rules of the declared input class (so that a simplification is not rejected for another reason)."""
    for i, o in enumerate(ops):
        if isa == "x86":
            if o["k"] == "id" and i > 0:
                return False
            if o["k"] == "mem" and i == 0 and not o["base"] and not o["index"]:
                return False
        else:
            if i == 0 and o["k"] in ("cc", "imm", "fimm"):
                return False
            if o["k"] in ("mem", "cc") and i != len(ops) - 1:
                return False
    return True


def unparsable_prefix(isa, parser, item):
    """Classifier only: greedy minimisation of the rejected instruction (drop operands, simplify operands) -> key prefix."""
    import random

    ctx = line_context(item)
    if item["kind"] != "instr":
        return "%s/unparsable-%s-line%s/" % (isa, item["kind"], ctx)

    def fails(ops):
        rr = random.Random(0)
        texts = [(x86_operand_text if isa == "x86" else a64_operand_text)(rr, o, False) for o in ops]
        try:
            parser.parse_line("mov" + (" " + ", ".join(texts) if texts else ""), 1)
        except Exception:  # noqa - classification probe
            return True
        return False

    ops = list(item["ast"]["operands"])
    if not fails(ops):
        return "%s/unparsable-in-this-layout[sep=%s,tail=%s,%s]/" % (isa, item["lay"][1], item["lay"][2], item["lay"][3])
    changed = True
    while changed:
        changed = False
        for i in range(len(ops)):
            cand = ops[:i] + ops[i + 1:]
            if _admissible(isa, cand) and fails(cand):
                ops, changed = cand, True
                break
    for i in range(len(ops)):
        changed = True
        while changed:
            changed = False
            for s in _simpler(isa, ops[i]):
                cand = ops[:i] + [s] + ops[i + 1:]
                if _admissible(isa, cand) and fails(cand):
                    ops, changed = cand, True
                    break
    return "%s/unparsable[%s]/" % (isa, ", ".join(optag(isa, o) for o in ops))


def _call(R, fn, *args):
    """Run the code under test under the watchdog. -> (ok, value | exception)"""
    from .common import CaseTimeout, in_osaca, time_limit

    try:
        with time_limit(60):
            return "ok", fn(*args)
    except CaseTimeout:
        R.inconclusive += 1
        return "timeout", None
    except Exception as e:  # noqa - exceptions of the code under test are reported, harness bugs re-raised
        if not in_osaca(e):
            raise
        return "exc", e


def check_line(isa, parser, item, lineno, R, cmp_instr):
    """One parse_line execution judged against the item it was rendered from."""
    from .common import digest

    case = {"isa": isa, "mode": "line", "lineno": lineno, "item": item}
    nt = item["kind"] == "instr" and nontrivial(isa, item["ast"])
    R.count("monitor:parse_line")
    st, res = _call(R, parser.parse_line, item["text"], lineno)
    if st == "timeout":
        return
    R.case(digest(item_digest_parts(isa, item)), nontrivial=nt)
    if st == "exc":
        R.exception(res, case, prefix=unparsable_prefix(isa, parser, item))
        return
    V = Verdict()
    judge_form(isa, res, item, lineno, cmp_instr, V, "parse_line")
    for name in V.dont_care:
        R.count("dont-care:" + name)
    for key, what in V.items:
        R.violation(key, what, case)


def check_file(isa, parser, text, items, R, cmp_instr):
    """One parse_file execution: one result per non-blank line, numbering, verbatim text, classification, contents."""
    from .common import digest

    case = {"isa": isa, "mode": "file", "text": text, "items": items}
    expected = [(i + 1, it) for i, it in enumerate(items) if it["kind"] != "blank"]
    kinds = [it["kind"] for it in items]
    blank_before = any(k == "blank" for k in kinds[: max((i for i, k in enumerate(kinds) if k != "blank"), default=0)])
    nt = blank_before and any(it["kind"] == "instr" and nontrivial(isa, it["ast"]) for it in items)
    R.count("monitor:parse_file")
    st, res = _call(R, parser.parse_file, text)
    if st == "timeout":
        return
    R.case(digest([isa, "file", kinds, text.endswith("\n")]), nontrivial=nt)
    R.count("file-lines", len(items))
    R.count("file-nonblank-lines", len(expected))
    if st == "exc":
        prefix = "%s/parse_file/" % isa
        for _, it in expected:
            try:
                parser.parse_line(it["text"], 1)
            except Exception:  # noqa - classification probe
                prefix = unparsable_prefix(isa, parser, it)
                break
        R.exception(res, case, prefix=prefix)
        return
    V = Verdict()
    if not isinstance(res, list) or len(res) != len(expected):
        n = len(res) if isinstance(res, list) else -1
        V.bad("%s/result-count/%s" % (isa, "fewer" if n < len(expected) else "more"),
              "parse_file returned %d results for %d non-blank lines (%d lines)" % (n, len(expected), len(items)))
    else:
        seen_blank = False
        idx = 0
        for i, it in enumerate(items):
            if it["kind"] == "blank":
                seen_blank = True
                continue
            where = "parse_file/after-blank-lines" if seen_blank else "parse_file/no-blank-before"
            judge_form(isa, res[idx], it, i + 1, cmp_instr, V, where)
            R.count("file-lines-judged")
            if seen_blank:
                R.count("file-lines-judged-after-blank")
            idx += 1
    for name in V.dont_care:
        R.count("dont-care:" + name)
    for key, what in V.items:
        R.violation(key, what, case)


def run_roundtrip(isa, parser, spec, R, cmp_instr):
    import random

    r = random.Random(spec["seed"])
    for i in range(spec["lines"]):
        k = r.random()
        if k < 0.88:
            item = instr_item(r, isa)
        else:
            item = misc_line(r, isa, r.choice(["comment", "label", "directive"]))
        lineno = r.choice([1, 2, r.randint(1, 100000)])
        count_item(isa, item, R)
        check_line(isa, parser, item, lineno, R, cmp_instr)
        if i < 2 and spec.get("shard", 0) < 2:
            R.sample({"isa": isa, "mode": "line", "text": item["text"], "ast": item.get("ast", item["kind"])})
    for i in range(spec["files"]):
        text, items = build_file(r, isa, r.randint(3, 40))
        for it in items:
            count_item(isa, it, R, prefix="file/")
        if text.endswith("\n"):
            R.count("file/final-newline")
        if items and items[0]["kind"] == "blank":
            R.count("file/starts-with-blank")
        check_file(isa, parser, text, items, R, cmp_instr)
        if i < 1 and spec.get("shard", 0) == 0:
            R.sample({"isa": isa, "mode": "file", "text": text[:400]})


def replay_roundtrip(isa, parser, case, R, cmp_instr):
    if case.get("mode") == "file":
        check_file(isa, parser, case["text"], case["items"], R, cmp_instr)
    else:
        check_line(isa, parser, case["item"], case["lineno"], R, cmp_instr)
