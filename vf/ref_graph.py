"""R-graph: longest latency-weighted chain on an observed dependency DAG and winding-number-1 cycle enumeration.

Works on plain data: nodes are numbers (instruction line numbers; line + 0.1 = separately modelled load stage of that line),
edges {(u, v): weight}.  No networkx, nothing from OSACA.
"""


def topo(nodes, edges):
    succ = {n: [] for n in nodes}
    indeg = {n: 0 for n in nodes}
    for (u, v) in edges:
        succ[u].append(v)
        indeg[v] += 1
    order, stack = [], [n for n in nodes if indeg[n] == 0]
    while stack:
        n = stack.pop()
        order.append(n)
        for v in succ[n]:
            indeg[v] -= 1
            if indeg[v] == 0:
                stack.append(v)
    if len(order) != len(nodes):
        raise ValueError("graph is cyclic")
    return order, succ


def longest_to(nodes, edges, skip_own_load=False):
    """L[v] = largest sum of edge weights over paths ending in v (0 for sources). With skip_own_load the edge v.load -> v is ignored."""
    order, succ = topo(nodes, edges)
    L = {n: 0.0 for n in nodes}
    pred = {n: None for n in nodes}
    for u in order:
        for v in succ[u]:
            if skip_own_load and int(u) == int(v) and u != v:
                continue
            w = edges[(u, v)]
            if L[u] + w > L[v]:
                L[v] = L[u] + w
                pred[v] = u
    return L, pred


def critical_path_bounds(nodes, edges, lat, wo):
    """(CP_B, CP_A): see DESIGN.md R-graph. lat/wo: {instruction node: latency / latency without load}."""
    L, _ = longest_to(nodes, edges)
    L2, _ = longest_to(nodes, edges, skip_own_load=True)
    instr = [n for n in nodes if int(n) == n]
    if not instr:
        return 0.0, 0.0
    cpb = max(L[v] + wo[v] for v in instr)
    cpa = max(max(L2[v] + lat[v], L[v] + wo[v]) for v in instr)
    return cpb, cpa


def max_edge_sum(nodes, edges):
    L, _ = longest_to(nodes, edges)
    return max(L.values()) if L else 0.0


def chain_lengths(chain, edges, lat, wo):
    """Admissible lengths of a marked chain of instruction nodes (consecutive ones must be linked): with/without the leading
    load stage, last instruction with its full latency or its latency without load."""
    s = 0.0
    for u, v in zip(chain, chain[1:]):
        if (u, v) not in edges:
            return None
        s += edges[(u, v)]
    first, last = chain[0], chain[-1]
    lead = edges.get((first + 0.1, first))
    out = set()
    for l in ([0.0] + ([lead] if lead is not None else [])):
        for e in (lat[last], wo[last]):
            if len(chain) == 1 and l > 0 and e == lat[last]:
                continue  # own load stage + full latency would count the load twice
            out.add(round(s + l + e, 9))
    return out


def cycles_winding_one(n, edges):
    """Cross-iteration cycles of a kernel of n instructions given the dependency relation of two concatenated iterations:
    edges {(a, b): weight} over indices 0..2n-1 (a < b).  A cycle starts at instruction i in the first copy and returns to
    its copy i+n.  Returned canonical: {(sorted members as original indices incl. repeats?, ...)}.

    Each simple path i -> ... -> i+n is one cycle occurrence; the same cycle is found from each of its members.  Canonical form:
    tuple(sorted((member original index, outgoing edge weight))) as the code under test de-duplicates 'paths that differ only in
    the root', with total latency = sum of weights."""
    succ = {}
    for (a, b), w in edges.items():
        succ.setdefault(a, []).append((b, w))
    found = {}
    limit = [0]

    def dfs(node, target, path, acc):
        limit[0] += 1
        if limit[0] > 2000000:
            raise OverflowError("too many paths")
        for (b, w) in succ.get(node, ()):
            if b == target:
                members = tuple(sorted((x % n, ww) for x, ww in path + [(node, w)]))
                found[members] = acc + w
            elif b < target and b not in [p[0] for p in path] and b != node:
                dfs(b, target, path + [(node, w)], acc + w)

    for i in range(n):
        dfs(i, i + n, [], 0.0)
    return found
