"""The shipped kernel corpus: examples/*/*.s and the marked kernels of tests/test_files."""
import glob
import os

from . import isolate


def example_files(isa, repo_dir=None):
    repo_dir = repo_dir or isolate.repo()
    out = []
    for f in sorted(glob.glob(os.path.join(repo_dir, "examples", "*", "*.s"))):
        b = os.path.basename(f)
        x = ".tx2." not in b
        if (isa == "x86") == x:
            out.append(f)
    return out


def test_files(isa, repo_dir=None):
    repo_dir = repo_dir or isolate.repo()
    t = os.path.join(repo_dir, "tests", "test_files")
    names = {
        "x86": ["kernel_x86.s", "kernel_x86_memdep.s", "triad_x86_iaca.s"],
        "aarch64": ["kernel_aarch64.s", "kernel_aarch64_memdep.s", "kernel_aarch64_sve.s", "kernel_aarch64_deps.s", "triad_arm_iaca.s"],
    }[isa]
    return [os.path.join(t, n) for n in names if os.path.exists(os.path.join(t, n))]


def corpus(isa, repo_dir=None):
    return example_files(isa, repo_dir) + test_files(isa, repo_dir)


def marked_kernel(path, isa):
    """(parsed kernel lines between the markers, parser) using the real parser and reduce_to_section."""
    from osaca.parser import get_parser
    from osaca.semantics import reduce_to_section

    p = get_parser(isa)
    with open(path) as f:
        code = f.read()
    return reduce_to_section(p.parse_file(code), isa), p
