"""Workloads and the reference dependency relation (R-deps) for C03-C06 and C14.

Everything here works on the generator's own AST: each generated instruction knows which registers (as architectural
families) and flags it reads and writes, because it was drawn from a vocabulary with stated roles (a synthetic ISA database
generated together with the kernel, or a curated list of real instructions with architecturally unambiguous roles).
"""
import random

from . import gen_model
from .props.c12 import a64_names, x86_names

X86_FAM = dict(x86_names())
X86_FAM.setdefault("rip", "rip")  # instruction pointer as the base of a symbolic address; nothing writes it
A64_FAM = a64_names()

X86_GPR_FAMS = ["a", "b", "c", "d", "si", "di", "bp", "r8", "r9", "r10", "r11", "r12", "r13", "r14", "r15"]


def x86_alias(fam, rng, width=None):
    """A register name of GPR family `fam` ('a','si','r8',...) in a random (or given) width: 64/32/16/8."""
    w = width or rng.choice([64, 64, 32, 32, 16, 8])
    if fam in "abcd":
        return {64: "r%sx", 32: "e%sx", 16: "%sx", 8: "%sl"}[w] % fam
    if fam in ("si", "di", "bp", "sp"):
        return {64: "r%s", 32: "e%s", 16: "%s", 8: "%sl"}[w] % fam
    return fam + {64: "", 32: "d", 16: "w", 8: "b"}[w]


def x86_vec_alias(n, rng):
    return "%smm%d" % (rng.choice("xyz") if n < 16 else rng.choice("xyz"), n)


def a64_gpr_alias(n, rng, wide=False):
    return "%s%d" % ("x" if wide else rng.choice("xxw"), n)


def a64_vec_alias(n, rng, sve=False):
    # sve: also the SVE view z<n> and the narrow scalar views b<n>/h<n> of the same vector register
    return "%s%d" % (rng.choice("dqsdzzbh" if sve else "dqsd"), n)


def fam_of(isa, name):
    n = name.lower()
    return ("x86:" + X86_FAM[n]) if isa == "x86" else ("a64:" + A64_FAM[n])


FLAGS = {"x86": ["CF", "ZF", "SF", "OF"], "aarch64": ["N", "Z", "C", "V"]}
LATS = [0, 1, 1, 2, 3, 4, 6, 10]


# ---------------------------------------------------------------- synthetic vocabulary

def _regpat(isa, cls=None):
    if isa == "x86":
        return {"class": "register", "name": cls or "*"}
    if cls:
        return {"class": "register", "prefix": cls}
    return {"class": "register", "prefix": "*", "shape": "*"}


def _mempat(isa):
    if isa == "x86":
        return {"class": "memory", "base": "*", "offset": "*", "index": "*", "scale": "*"}
    return {"class": "memory", "base": "*", "offset": "*", "index": "*", "scale": "*", "pre_indexed": "*", "post_indexed": "*"}


def _with_role(pat, role):
    p = dict(pat)
    p["source"] = "s" in role
    p["destination"] = "d" in role
    return p


def dep_model(rng, isa, mem=True, bumps=True):
    """Synthetic latency model + ISA database + vocabulary of forms with stated roles."""
    ports = ["0", "1", "2"]
    m = gen_model.base_model(isa, ports)
    classes = ["gpr", "xmm", "ymm", "zmm"] if isa == "x86" else list("wxbhsdq")
    m["load_latency"] = {c: rng.choice([2, 3, 4, 5]) for c in classes}
    m["load_throughput_default"] = [[1, "2"]]
    m["store_throughput_default"] = [[1, "2"]]
    if isa == "x86":
        if rng.random() < 0.7:
            m["store_to_load_forward_latency"] = rng.choice([0.0, 2.0, 5.0])
    else:
        if rng.random() < 0.7:
            m["p_index_latency"] = rng.choice([1, 2, 3])
        if rng.random() < 0.4:
            m["store_to_load_forward_latency"] = rng.choice([0.0, 1.0, 4.0])
    vocab, forms, isa_forms = [], [], []

    def add(name, ops, hidden=(), zero=False, has_isa=True, bump=None, operation=None, arch_ops=None, composed=False, lat=None, tp=1.0):
        lat = rng.choice(LATS) if lat is None else lat
        v = {"name": name, "ops": ops, "hidden": list(hidden), "zero": zero, "has_isa": has_isa, "bump": bump, "lat": lat, "composed": composed}
        vocab.append(v)
        pats = arch_ops or [(_mempat(isa) if o["kind"] == "mem" else {"class": "immediate", "imd": "int"} if o["kind"] == "imm" else _regpat(isa, o.get("cls_pat")))
                            for o in ops]
        forms.append({"name": name, "operands": pats, "throughput": tp, "latency": lat, "port_pressure": [[1, rng.choice(["0", "1", "01"])]]})
        if has_isa:
            ipats = []
            for o in ops:
                base = _mempat(isa) if o["kind"] == "mem" else {"class": "immediate", "imd": "int"} if o["kind"] == "imm" else _regpat(isa)
                ipats.append(_with_role(base, o["role"]))
            e = {"name": name, "operands": ipats}
            if hidden:
                hops = []
                for f, r in hidden:
                    if f.startswith("reg:"):
                        nm = f[4:]
                        h = {"class": "register", "name": nm} if isa == "x86" else {"class": "register", "prefix": nm[0], "name": nm[1:]}
                    else:
                        h = {"class": "flag", "name": f}
                    h["source"], h["destination"] = "s" in r, "d" in r
                    hops.append(h)
                e["hidden_operands"] = hops
            if zero:
                e["breaks_dependency_on_equal_operands"] = True
            if operation:
                e["operation"] = operation
            isa_forms.append(e)
        return v

    def default_roles(n):
        if n == 1:
            return ["s"]
        if isa == "x86":
            return ["s"] * (n - 1) + ["d"]
        return ["d"] + ["s"] * (n - 1)

    nreg = rng.randint(4, 7)
    for i in range(nreg):
        n = rng.choice([1, 2, 2, 3, 3])
        has_isa = rng.random() < 0.7
        roles = [rng.choice(["s", "d", "sd", "s"]) for _ in range(n)] if has_isa else default_roles(n)
        cls = rng.choice(["g", "g", "v"])
        ops = [{"kind": "reg", "role": r, "cls": cls} for r in roles]
        if rng.random() < 0.25 and n >= 2:
            k = 0 if isa == "x86" else n - 1
            if not has_isa or "d" not in roles[k]:
                ops[k] = {"kind": "imm", "role": "s"}
        hidden = []
        if has_isa and rng.random() < 0.5:
            for f in rng.sample(FLAGS[isa], rng.randint(1, 3)):
                hidden.append((f, rng.choice(["s", "d", "d", "sd"])))
        add("op%da" % i, ops, hidden=hidden, has_isa=has_isa)
    # zero idiom: two or three register operands, last/first destination; breaks dependency when all equal
    zr = ["s", "sd"] if isa == "x86" else ["d", "s", "s"]
    zhid = [(f, "d") for f in rng.sample(FLAGS[isa], rng.randint(0, 2))]
    add("zi0a", [{"kind": "reg", "role": r, "cls": "g"} for r in zr], hidden=zhid, zero=True)
    add("zv0a", [{"kind": "reg", "role": r, "cls": "v"} for r in (["s", "s", "d"] if isa == "x86" else ["d", "s", "s"])], zero=True)
    # implicit register operands (x86 mul / cwd / blendv style): family 'a' / register 0 is always in the register pools
    hreg = "reg:" + (rng.choice(["rax", "eax", "ax", "al"]) if isa == "x86" else rng.choice(["x0", "w0"]))
    add("hr0a", [{"kind": "reg", "role": "s", "cls": "g"}], hidden=[(hreg, rng.choice(["d", "sd"]))])
    add("hr1a", [{"kind": "reg", "role": "d", "cls": "g"}], hidden=[(hreg, "s")])
    # no explicit operand at all, implicit ones only (x86 cltq / cqto / vzeroupper style)
    add("hn0a", [], hidden=[(hreg, "sd")])
    add("hn1a", [], hidden=[(hreg, "d"), (rng.choice(FLAGS[isa]), "s")])
    # flag consumer / producer pair
    add("fw0a", [{"kind": "reg", "role": "s", "cls": "g"}, {"kind": "reg", "role": "s", "cls": "g"}], hidden=[(f, "d") for f in FLAGS[isa]])
    add("fr0a", [{"kind": "reg", "role": "d", "cls": "g"}] if isa == "aarch64" else [{"kind": "reg", "role": "d", "cls": "g"}],
        hidden=[(rng.choice(FLAGS[isa]), "s")])
    if mem:
        gcls = "gpr" if isa == "x86" else "x"
        vcls = rng.choice(["xmm", "ymm"]) if isa == "x86" else rng.choice(["d", "q"])
        for i, (c, pat) in enumerate((("g", gcls), ("v", vcls))):
            reg_d = {"kind": "reg", "role": "d", "cls": c}
            reg_s = {"kind": "reg", "role": "s", "cls": c}
            if isa == "x86":
                add("ld%da" % i, [{"kind": "mem", "role": "s"}, dict(reg_d)], has_isa=rng.random() < 0.5)
                add("st%da" % i, [dict(reg_s), {"kind": "mem", "role": "d"}], has_isa=rng.random() < 0.5)
                add("rm%da" % i, [dict(reg_s), {"kind": "mem", "role": "sd"}], hidden=[(f, "d") for f in rng.sample(FLAGS[isa], 2)])
                # composed load: the model only has the register form (separate load node in the graph)
                add("lc%da" % i, [{"kind": "mem", "role": "s"}, dict(reg_d, cls_pat=pat)], has_isa=rng.random() < 0.5, composed=True,
                    arch_ops=[_regpat(isa, pat), _regpat(isa, pat)])
                add("ac%da" % i, [{"kind": "mem", "role": "s"}, dict(reg_s, role="sd", cls_pat=pat)], composed=True, arch_ops=[_regpat(isa, pat), _regpat(isa, pat)])
            else:
                add("ld%da" % i, [dict(reg_d), {"kind": "mem", "role": "s"}], has_isa=rng.random() < 0.5)
                add("st%da" % i, [dict(reg_s), {"kind": "mem", "role": "d"}])
                add("lp%da" % i, [dict(reg_d), dict(reg_d), {"kind": "mem", "role": "s"}])
                add("sp%da" % i, [dict(reg_s), dict(reg_s), {"kind": "mem", "role": "d"}])
                add("lc%da" % i, [dict(reg_d, cls_pat=pat), {"kind": "mem", "role": "s"}], has_isa=rng.random() < 0.5, composed=True,
                    arch_ops=[_regpat(isa, pat), _regpat(isa, "x")])
    if bumps:
        g = {"kind": "reg", "cls": "g", "wide": True}
        if isa == "x86":
            add("bp0a", [{"kind": "imm", "role": "s"}, dict(g, role="sd")], bump="add", operation="op2['value'] += op1['value']")
            add("bm0a", [{"kind": "imm", "role": "s"}, dict(g, role="sd")], bump="sub", operation="op2['value'] -= op1['value']")
            add("in0a", [dict(g, role="sd")], bump="inc", operation="op1['value'] += 1")
            add("de0a", [dict(g, role="sd")], bump="dec", operation="op1['value'] -= 1")
            add("cp0a", [dict(g, role="s"), dict(g, role="d")], bump="copy", operation="op2['name'] = op1['name']; op2['value'] = op1['value']")
        else:
            add("bp0a", [dict(g, role="d"), dict(g, role="s"), {"kind": "imm", "role": "s"}], bump="add",
                operation="op1['value'] = op2['value'] + op3['value']; op1['name'] = op2['name']")
            add("bm0a", [dict(g, role="d"), dict(g, role="s"), {"kind": "imm", "role": "s"}], bump="sub",
                operation="op1['value'] = op2['value'] - op3['value']; op1['name'] = op2['name']")
            add("cp0a", [dict(g, role="d"), dict(g, role="s")], bump="copy", operation="op1['name'] = op2['name']; op1['value'] = op2['value']")
    m["instruction_forms"] = forms
    isa_db = {"osaca_version": "0.5.0", "isa": isa, "instruction_forms": isa_forms}
    return m, isa_db, vocab


# ---------------------------------------------------------------- instruction instances

class Pool:
    """Register pool: a few GPR and vector families so that aliasing and reuse are frequent."""

    def __init__(self, rng, isa, ng=None, nv=None):
        self.isa = isa
        if isa == "x86":
            self.g = rng.sample(X86_GPR_FAMS, ng or rng.randint(3, 6))
            self.v = rng.sample(range(0, 32), nv or rng.randint(2, 4))
            if "a" not in self.g:
                self.g[-1] = "a"
        else:
            self.g = rng.sample(range(0, 29), ng or rng.randint(3, 6))
            self.v = rng.sample(range(0, 32), nv or rng.randint(2, 4))
            if 0 not in self.g:
                self.g[-1] = 0
            # x5 and d5/v5/q5 are different registers with the same number: make such pairs frequent
            shared = [n for n in self.g if n not in self.v]
            if shared:
                self.v[0] = shared[len(self.v) % len(shared)]

    def reg(self, rng, cls, wide=False, cls_pat=None):
        if self.isa == "x86":
            if cls == "g":
                f = rng.choice(self.g)
                return x86_alias(f, rng, 64 if (wide or cls_pat) else None)
            n = rng.choice(self.v)
            if cls_pat in ("xmm", "ymm", "zmm"):
                return "%s%d" % (cls_pat, n)
            return x86_vec_alias(n, rng)
        if cls == "g":
            n = rng.choice(self.g)
            if cls_pat in ("x", "w"):
                return "%s%d" % (cls_pat, n)
            return a64_gpr_alias(n, rng, wide)
        n = rng.choice(self.v)
        if cls_pat:
            return "%s%d" % (cls_pat, n)
        return a64_vec_alias(n, rng, getattr(self, "sve", False))

    def addr_reg(self, rng):
        if self.isa == "x86":
            return x86_alias(rng.choice(self.g), rng, 64)
        return "x%d" % rng.choice(self.g)


def rand_mem(rng, pool, isa, disps=(0, 8, 16, -8, 24), allow_wb=True, allow_index=True, allow_sym=True):
    base = pool.addr_reg(rng)
    m = {"base": base, "index": None, "scale": 1, "disp": None, "pre": False, "post": False, "post_val": None, "sym": None}
    r = rng.random()
    if isa == "x86" and allow_sym and r < 0.08:
        # symbolic displacement: a global / static array addressed relative to a register
        m["sym"] = rng.choice(["gvar", "tbl_a", "tbl_b"])
        if rng.random() < 0.5:
            m["base"] = "rip"  # 'gvar(%rip)'
            return m
        if allow_index and rng.random() < 0.4:
            m["index"] = pool.addr_reg(rng)
            m["scale"] = rng.choice([1, 4, 8])
        return m
    if isa == "x86":
        if r < 0.75:
            m["disp"] = rng.choice(disps)
            if m["disp"] == 0 and rng.random() < 0.5:
                m["disp"] = None
        if allow_index and rng.random() < 0.3:
            m["index"] = pool.addr_reg(rng)
            m["scale"] = rng.choice([1, 2, 4, 8])
    else:
        if r < 0.3:
            pass
        elif r < 0.6:
            m["disp"] = rng.choice([d for d in disps if d != 0] or [8])
        elif r < 0.72 and allow_wb:
            m["disp"] = rng.choice([8, 16, -16])
            m["pre"] = True
        elif r < 0.84 and allow_wb:
            m["post"] = True
            m["post_val"] = rng.choice([8, 16, 32])
        elif allow_index:
            m["index"] = pool.addr_reg(rng)
            m["scale"] = rng.choice([1, 8])
    return m


def mem_text(isa, m):
    if isa == "x86":
        s = "" if m["disp"] is None else str(m["disp"])
        if m.get("sym"):
            s = m["sym"]
        inner = "%" + m["base"]
        if m["index"]:
            inner += ",%" + m["index"] + (",%d" % m["scale"] if m["scale"] != 1 else "")
        return s + "(" + inner + ")"
    s = "[" + m["base"]
    if m["index"]:
        s += ", " + m["index"]
        if m["scale"] != 1:
            s += ", lsl #%d" % {2: 1, 4: 2, 8: 3, 16: 4}[m["scale"]]
    elif m["disp"] is not None:
        s += ", #%d" % m["disp"]
    s += "]"
    if m["pre"]:
        s += "!"
    if m["post"]:
        s += ", #%d" % m["post_val"]
    return s


def instantiate(rng, isa, form, pool, mem=None, regs=None, imm=None, imm_text=None):
    """Instance of a vocabulary form: text + what it reads and writes (architectural families / flags)."""
    texts = []
    reads, writes, wb = set(), set(), set()
    mems = []
    regnames = []
    k = 0
    imm_val = None
    for o in form["ops"]:
        if o["kind"] == "reg":
            if regs is not None:
                r = regs[k]
                k += 1
            else:
                r = pool.reg(rng, o["cls"], o.get("wide", False), o.get("cls_pat"))
            regnames.append(r)
            texts.append(("%" if isa == "x86" else "") + r)
        elif o["kind"] == "lbl":
            texts.append(".L%d" % rng.randint(1, 3))  # a branch target: nothing read or written
        elif o["kind"] == "imm":
            imm_val = imm if imm is not None else rng.choice([1, 2, 4, 8, 16, 24])
            texts.append(imm_text if imm_text is not None else ("$%d" if isa == "x86" else "#%d") % imm_val)
        else:
            mm = dict(mem) if mem is not None else rand_mem(rng, pool, isa)
            mm.setdefault("sym", None)
            if mm["sym"]:
                mm["disp"] = None  # a symbolic displacement is written without a numeric one (AST == text)
            if isa == "aarch64" and mm["index"]:
                mm["disp"] = None  # no base+index+displacement form on AArch64
            mems.append(dict(mm, role=o["role"]))
            texts.append(mem_text(isa, mm))
    regops = [o for o in form["ops"] if o["kind"] == "reg"]
    allreg = len(regops) == len(form["ops"])
    zero_active = form["zero"] and allreg and len(set(regnames)) == 1 and len(regnames) >= 1
    flag_reads, flag_writes = set(), set()
    if zero_active:
        for r in regnames:
            writes.add(fam_of(isa, r))
        for f, role in form["hidden"]:
            if f.startswith("reg:"):
                writes.add(fam_of(isa, f[4:]))
            else:
                flag_writes.add(f)
    else:
        for o, r in zip(regops, regnames):
            if "s" in o["role"]:
                reads.add(fam_of(isa, r))
            if "d" in o["role"]:
                writes.add(fam_of(isa, r))
        for f, role in form["hidden"]:
            if f.startswith("reg:"):
                if "s" in role:
                    reads.add(fam_of(isa, f[4:]))
                if "d" in role:
                    writes.add(fam_of(isa, f[4:]))
                continue
            if "s" in role:
                flag_reads.add(f)
            if "d" in role:
                flag_writes.add(f)
    for mm in mems:
        reads.add(fam_of(isa, mm["base"]))
        if mm["index"]:
            reads.add(fam_of(isa, mm["index"]))
        if mm["pre"] or mm["post"]:
            wb.add(fam_of(isa, mm["base"]))
    kinds = []
    ri = 0
    mi = 0
    for o in form["ops"]:
        if o["kind"] == "reg":
            r = regnames[ri]
            ri += 1
            kinds.append({"k": "reg", "name": r} if isa == "x86" else {"k": "reg", "prefix": r[0] if r not in ("sp",) else "x", "shape": None})
        elif o["kind"] == "imm":
            kinds.append({"k": "imm", "type": "int"})
        elif o["kind"] == "lbl":
            kinds.append({"k": "id"})
        else:
            mm = mems[mi]
            mi += 1
            if isa == "x86":
                kinds.append({"k": "mem", "base": mm["base"], "index": mm["index"], "scale": mm["scale"],
                              "disp": "id" if mm.get("sym") else (None if mm["disp"] is None else "imm")})
            else:
                kinds.append({"k": "mem", "base": "x", "offset": None if (mm["disp"] is None or mm["index"]) else "imm", "index": "x" if mm["index"] else None,
                              "scale": mm["scale"], "pre": mm["pre"], "post": mm["post"]})
    ins = {
        "text": form["name"] + " " + ", ".join(texts),
        "optexts": texts,
        "kinds": kinds,
        "form": form["name"],
        "reads": reads,
        "writes": writes,
        "wb": wb,
        "flag_reads": flag_reads,
        "flag_writes": flag_writes,
        "mems": mems,
        "bump": None,
        "regs": regnames,
    }
    if form["bump"]:
        b = form["bump"]
        if isa == "x86":
            if b in ("add", "sub"):
                ins["bump"] = ("add", fam_of(isa, regnames[0]), fam_of(isa, regnames[0]), imm_val if b == "add" else -imm_val)
            elif b in ("inc", "dec"):
                ins["bump"] = ("add", fam_of(isa, regnames[0]), fam_of(isa, regnames[0]), 1 if b == "inc" else -1)
            else:
                ins["bump"] = ("add", fam_of(isa, regnames[1]), fam_of(isa, regnames[0]), 0)
        else:
            if b in ("add", "sub"):
                ins["bump"] = ("add", fam_of(isa, regnames[0]), fam_of(isa, regnames[1]), imm_val if b == "add" else -imm_val)
            else:
                ins["bump"] = ("add", fam_of(isa, regnames[0]), fam_of(isa, regnames[1]), 0)
    return ins


def rand_kernel(rng, isa, vocab, n, pool=None, mem_ratio=None):
    pool = pool or Pool(rng, isa)
    out = []
    forms = list(vocab)
    for _ in range(n):
        f = rng.choice(forms)
        if f["zero"] and rng.random() < 0.6:
            r = pool.reg(rng, f["ops"][0]["cls"])
            out.append(instantiate(rng, isa, f, pool, regs=[r] * len(f["ops"])))
        else:
            out.append(instantiate(rng, isa, f, pool))
    return out


# ---------------------------------------------------------------- R-deps

def ref_edges(kernel, flags=False):
    """Register (and flag) read-after-write edges: {(a, b): set(reasons)}; reasons 'reg', 'wb'."""
    E = {}
    n = len(kernel)
    for a in range(n):
        A = kernel[a]
        for fam in sorted(A["writes"] | A["wb"]):
            for b in range(a + 1, n):
                B = kernel[b]
                if fam in B["reads"]:
                    rs = E.setdefault((a, b), set())
                    if fam in A["writes"]:
                        rs.add("reg")
                    if fam in A["wb"]:
                        rs.add("wb")
                if fam in B["writes"] or fam in B["wb"]:
                    break
        if flags:
            for fl in sorted(A["flag_writes"]):
                for b in range(a + 1, n):
                    B = kernel[b]
                    if fl in B["flag_reads"]:
                        E.setdefault((a, b), set()).add("reg")
                    if fl in B["flag_writes"]:
                        break
    return E


def same_operand(m1, m2):
    return all(m1.get(k) == m2.get(k) for k in ("base", "index", "scale", "pre", "post", "post_val", "sym")) and (m1["disp"] or 0) == (m2["disp"] or 0) \
        and (m1["disp"] is None) == (m2["disp"] is None)


def ref_store_load(kernel, isa):
    """Store->load edges through provably equal addresses. Returns ({(a,b)}, {(a,b)} don't-care pairs).

    Symbolic state per register family: (origin family at the time of the store, constant delta) or None = unknown."""
    edges, dontcare = set(), set()
    n = len(kernel)
    for a in range(n):
        A = kernel[a]
        for sm in [m for m in A["mems"] if "d" in m["role"]]:
            own_wb = sm["pre"] or sm["post"]
            state = {}

            def get(fam):
                return state.get(fam, (fam, 0))

            sbase = fam_of(isa, sm["base"])
            sidx = fam_of(isa, sm["index"]) if sm["index"] else None
            saddr_const = (sm["disp"] or 0) if not sm["post"] else 0
            if sm["post"]:
                saddr_const = 0
            # A's own effects on registers (write-back, or A being a bump itself cannot be: bumps have no memory operand)
            if sm["pre"]:
                state[sbase] = (sbase, sm["disp"] or 0)
            if sm["post"]:
                state[sbase] = (sbase, sm["post_val"])
            for fam in A["writes"]:
                state[fam] = None
            base_overwritten = False
            for b in range(a + 1, n):
                B = kernel[b]
                # loads of B, evaluated with the register state before B's own updates
                for lm in [m for m in B["mems"] if "s" in m["role"]]:
                    verdict = None
                    lb = get(fam_of(isa, lm["base"]))
                    li = get(fam_of(isa, lm["index"])) if lm["index"] else None
                    if (lm.get("sym") or None) != (sm.get("sym") or None):
                        verdict = False  # different (or one-sided) symbolic displacement: not provably the same location
                    elif (lm["index"] is None) != (sm["index"] is None):
                        verdict = False
                    elif lb is None or (lm["index"] and li is None):
                        verdict = False  # unknown change: no dependency expected
                    elif lb[0] != sbase:
                        verdict = False
                    elif lm["index"] and (li[0] != sidx or lm["scale"] != sm["scale"]):
                        verdict = False
                    else:
                        const = lb[1] + (0 if lm["post"] else (lm["disp"] or 0))
                        if lm["index"]:
                            const += li[1] * lm["scale"]
                        verdict = const == saddr_const
                    if verdict:
                        edges.add((a, b))
                # a later store to the same operand ends the search
                stop = any("d" in m["role"] and same_operand(m, sm) for m in B["mems"])
                # B's own updates
                for m2 in B["mems"]:
                    f2 = fam_of(isa, m2["base"])
                    if m2["pre"] or m2["post"]:
                        cur = get(f2)
                        state[f2] = None if cur is None else (cur[0], cur[1] + (m2["disp"] if m2["pre"] else m2["post_val"]))
                        if f2 == sbase:
                            base_overwritten = True
                if B["bump"]:
                    _, dst, src, c = B["bump"]
                    cur = get(src)
                    state[dst] = None if cur is None else (cur[0], cur[1] + c)
                    if dst == sbase:
                        base_overwritten = True
                else:
                    for fam in B["writes"]:
                        state[fam] = None
                        if fam == sbase:
                            base_overwritten = True
                if stop:
                    break
    return edges, dontcare


# ---------------------------------------------------------------- real analysis

def analyse(isa, model_path, isa_path, text, flags=False, timeout=-1, start_line=0, arch=None):
    """Run the real pipeline. Returns (kernel forms, KernelDG, MachineModel)."""
    from osaca.parser import get_parser
    from osaca.semantics import ArchSemantics, KernelDG, MachineModel

    parser = get_parser(isa)
    kernel = parser.parse_file(text, start_line)
    mm = MachineModel(arch=arch) if arch else MachineModel(path_to_yaml=model_path)
    sem = ArchSemantics(mm, path_to_yaml=isa_path) if isa_path else ArchSemantics(mm)
    sem.add_semantics(kernel)
    dg = KernelDG(kernel, parser, mm, sem, timeout, flags)
    return kernel, dg, mm


def observed_edges(kernel, dg):
    """Edges between instruction nodes as (index_a, index_b) -> latency; plus load-node edges separately."""
    idx = {f.line_number: i for i, f in enumerate(kernel)}
    E, loads = {}, {}
    for u, v, d in dg.dg.edges(data=True):
        if int(u) == u and int(v) == v:
            E[(idx[u], idx[v])] = d.get("latency")
        else:
            loads[(u, v)] = d.get("latency")
    return E, loads


# ---------------------------------------------------------------- curated real vocabulary

def curated_vocab(isa):
    """Real instructions whose register roles are architecturally unambiguous. Flag roles are not stated here: they are read
    from the hidden operands the shipped ISA database declares (see DESIGN.md C03)."""
    V = []

    def f(name, ops, zero=False, bump=None):
        V.append({"name": name, "ops": ops, "hidden": [], "zero": zero, "has_isa": True, "bump": bump, "lat": None, "composed": False})

    g = lambda role, **k: dict({"kind": "reg", "role": role, "cls": "g"}, **k)  # noqa
    v = lambda role, **k: dict({"kind": "reg", "role": role, "cls": "v"}, **k)  # noqa
    i = {"kind": "imm", "role": "s"}
    if isa == "x86":
        w = dict(wide=True)
        f("movq", [g("s", **w), g("d", **w)], bump="copy")
        f("addq", [g("s", **w), g("sd", **w)])
        f("addq", [i, g("sd", **w)], bump="add")
        f("subq", [i, g("sd", **w)], bump="sub")
        f("subq", [g("s", **w), g("sd", **w)], zero=True)
        f("imulq", [g("s", **w), g("sd", **w)])
        f("incq", [g("sd", **w)], bump="inc")
        f("decq", [g("sd", **w)], bump="dec")
        f("cmpq", [g("s", **w), g("s", **w)])
        f("addl", [g("s", w32=True), g("sd", w32=True)])
        f("movl", [g("s", w32=True), g("d", w32=True)])
        f("xorl", [g("s", w32=True), g("sd", w32=True)], zero=True)
        f("vaddpd", [v("s", cls_pat="ymm"), v("s", cls_pat="ymm"), v("d", cls_pat="ymm")])
        f("vmulpd", [v("s", cls_pat="ymm"), v("s", cls_pat="ymm"), v("d", cls_pat="ymm")])
        f("vfmadd231pd", [v("s", cls_pat="ymm"), v("s", cls_pat="ymm"), v("sd", cls_pat="ymm")])
        f("vaddsd", [v("s", cls_pat="xmm"), v("s", cls_pat="xmm"), v("d", cls_pat="xmm")])
        f("movq", [v("s", cls_pat="xmm"), g("d", **w)])  # same mnemonic as the 64-bit register copy, no copy semantics
        f("vxorpd", [v("s", cls_pat="ymm"), v("s", cls_pat="ymm"), v("d", cls_pat="ymm")], zero=True)
        f("vmovapd", [v("s", cls_pat="ymm"), v("d", cls_pat="ymm")])
        f("vmovapd", [{"kind": "mem", "role": "s"}, v("d", cls_pat="ymm")])
        f("vmovapd", [v("s", cls_pat="ymm"), {"kind": "mem", "role": "d"}])
        f("vaddpd", [{"kind": "mem", "role": "s"}, v("s", cls_pat="ymm"), v("d", cls_pat="ymm")])
        f("movq", [{"kind": "mem", "role": "s"}, g("d", **w)])
        f("movq", [g("s", **w), {"kind": "mem", "role": "d"}])
        f("leaq", [{"kind": "mem", "role": "a"}, g("d", **w)])
        f("addq", [{"kind": "mem", "role": "s"}, g("sd", **w)])
        f("subq", [{"kind": "mem", "role": "s"}, g("sd", **w)])
        f("imulq", [{"kind": "mem", "role": "s"}, g("sd", **w)])
        f("cmpq", [{"kind": "mem", "role": "s"}, g("s", **w)])
        f("addl", [{"kind": "mem", "role": "s"}, g("sd", w32=True)])
        f("addq", [g("s", **w), {"kind": "mem", "role": "sd"}])
        f("subq", [g("s", **w), {"kind": "mem", "role": "sd"}])
        f("addq", [i, {"kind": "mem", "role": "sd"}])
    else:
        w = dict(cls_pat="x")
        f("add", [g("d", **w), g("s", **w), g("s", **w)])
        f("add", [g("d", **w), g("s", **w), i], bump="add")
        f("sub", [g("d", **w), g("s", **w), i], bump="sub")
        # conditional branches in both spellings (their flag reads are what the ISA description declares)
        lbl = {"kind": "lbl", "role": "s"}
        f("b.ne", [lbl])
        f("b.lt", [lbl])
        f("bne", [lbl])
        f("adds", [g("d", **w), g("s", **w), i], bump="add")  # flag-setting forms have their own entries in the ISA description
        f("subs", [g("d", **w), g("s", **w), i], bump="sub")
        f("mul", [g("d", **w), g("s", **w), g("s", **w)])
        f("madd", [g("d", **w), g("s", **w), g("s", **w), g("s", **w)])
        f("mov", [g("d", **w), g("s", **w)])
        f("cmp", [g("s", **w), g("s", **w)])
        f("add", [g("d", cls_pat="w"), g("s", cls_pat="w"), g("s", cls_pat="w")])
        # same mnemonic and operand kinds as the 64-bit pointer bump / copy, other entries of the ISA description
        f("add", [g("d", cls_pat="w"), g("s", cls_pat="w"), i])
        f("sub", [g("d", cls_pat="w"), g("s", cls_pat="w"), i])
        f("mov", [g("d", cls_pat="w"), g("s", cls_pat="w")])
        f("fadd", [v("d", cls_pat="d"), v("s", cls_pat="d"), v("s", cls_pat="d")])
        f("fmul", [v("d", cls_pat="d"), v("s", cls_pat="d"), v("s", cls_pat="d")])
        f("fmadd", [v("d", cls_pat="d"), v("s", cls_pat="d"), v("s", cls_pat="d"), v("s", cls_pat="d")])
        f("fmla", [v("sd", shaped="2d"), v("s", shaped="2d"), v("s", shaped="2d")])
        f("fadd", [v("d", shaped="2d"), v("s", shaped="2d"), v("s", shaped="2d")])
        f("ldr", [v("d", cls_pat="d"), {"kind": "mem", "role": "s"}])
        f("ldr", [v("d", cls_pat="q"), {"kind": "mem", "role": "s"}])
        f("ldr", [g("d", **w), {"kind": "mem", "role": "s"}])
        f("str", [v("s", cls_pat="d"), {"kind": "mem", "role": "d"}])
        f("str", [v("s", cls_pat="q"), {"kind": "mem", "role": "d"}])
        f("str", [g("s", **w), {"kind": "mem", "role": "d"}])
        f("ldp", [v("d", cls_pat="q"), v("d", cls_pat="q"), {"kind": "mem", "role": "s", "noindex": True}])
        f("stp", [v("s", cls_pat="q"), v("s", cls_pat="q"), {"kind": "mem", "role": "d", "noindex": True}])
    return V


def instantiate_curated(rng, isa, form, pool):
    """Like instantiate() but with the spelling constraints of real instructions (fixed widths, vector shapes)."""
    regs = []
    for o in form["ops"]:
        if o["kind"] != "reg":
            continue
        if isa == "x86":
            if o["cls"] == "g":
                regs.append(x86_alias(rng.choice(pool.g), rng, 32 if o.get("w32") else 64))
            else:
                regs.append("%s%d" % (o.get("cls_pat", "ymm"), rng.choice(pool.v) % 16))
        else:
            if o["cls"] == "g":
                regs.append("%s%d" % (o.get("cls_pat", "x"), rng.choice(pool.g)))
            elif o.get("shaped"):
                regs.append("v%d.%s" % (rng.choice(pool.v), o["shaped"]))
            else:
                regs.append("%s%d" % (o.get("cls_pat", "d"), rng.choice(pool.v)))
    mem = None
    for o in form["ops"]:
        if o["kind"] == "mem":
            mem = rand_mem(rng, pool, isa, allow_index=not o.get("noindex"))
    plain = [r.split(".")[0] for r in regs]
    ins = instantiate(rng, isa, dict(form, ops=[dict(o, role=("s" if o.get("role") == "a" else o["role"])) for o in form["ops"]]), pool, mem=mem, regs=plain)
    # re-render text with shaped names
    texts = list(ins["optexts"])
    k = 0
    for j, o in enumerate(form["ops"]):
        if o["kind"] == "reg":
            texts[j] = ("%" if isa == "x86" else "") + regs[k]
            if "." in regs[k]:
                ins["kinds"][j] = {"k": "reg", "prefix": "v", "shape": regs[k].split(".")[1][-1]}
            k += 1
    ins["text"] = form["name"] + " " + ", ".join(texts)
    ins["optexts"] = texts
    for mm_, o in zip(ins["mems"], [o for o in form["ops"] if o["kind"] == "mem"]):
        if o["role"] == "a":
            mm_["role"] = ""  # address computation only (lea): neither load nor store
    if form["bump"] == "copy" and isa == "aarch64":
        ins["bump"] = ("add", fam_of(isa, plain[0]), fam_of(isa, plain[1]), 0)
    return ins
