"""CLI drivers shared by C17 / C18.

* ``normalise(text)``            report text without the time stamp and the analysed-file path
* ``run_inproc(argv)``           one ``osaca.osaca.run(args)`` in this process  -> {"rc", "out", "exc"}
* ``run_sub(argv, home=...)``    the real CLI ``python -m osaca`` in a fresh process -> {"rc", "out", "exc", "err"}
* ``run_driver(spec, home=...)`` ``python -m vf.cli <spec.json>``: a fresh process that performs *several* analyses
                                 in-process, optionally with cache monitors / fault injection (see ``_driver``)
* ``corpus()``                   marked kernels shipped with the tree under test, with their ISA

The driver (``__main__``) is the only place where OSACA internals are wrapped: ``hw_model.pickle`` is replaced by a
recording proxy (load / dump events with the file name; optional crash or slow-writer injection in ``dump``),
``MachineModel._get_cached`` / ``_write_in_cache`` are wrapped to record hit / miss / write, and ``os.access`` can be
made to deny write access below given directories (the sandbox runs as root, so mode bits do not bind).
"""
import glob
import io
import json
import os
import re
import subprocess
import sys
import time

from . import isolate

PY = isolate.PY
_TS = re.compile(r"^Timestamp:.*$", re.M)
_FN = re.compile(r"^Analyzed file:.*$", re.M)


def normalise(text):
    text = _TS.sub("Timestamp:          <ts>", text)
    return _FN.sub("Analyzed file:      <file>", text)


# ----------------------------------------------------------------------------------------------------------------
# environment


def sub_env(home=None, extra=None):
    """Environment of a child that runs the tree under test with HOME=home (default: the current HOME).

    Byte code is shared by all children of one code version ($VERIF_HOME/pyc) - otherwise every child recompiles
    networkx/pyparsing/ruamel (2 s)."""
    shared = os.environ.get("VERIF_HOME") or os.environ.get("HOME")
    env = isolate.child_env(home or os.environ["HOME"])
    env["VERIF_HOME"] = shared
    env["PYTHONPYCACHEPREFIX"] = os.path.join(shared, "pyc")
    env.pop("PYTHONDONTWRITEBYTECODE", None)
    env.pop("PYTHONWARNINGS", None)
    if extra:
        env.update(extra)
    return env


# ----------------------------------------------------------------------------------------------------------------
# in-process


def _exc_name(text):
    """Exception type from the last line of a traceback on stderr."""
    for line in reversed(text.strip().splitlines()):
        m = re.match(r"^([A-Za-z_][\w.]*(Error|Exception|Exit|Interrupt|Warning)?[\w.]*)(:|$)", line.strip())
        if m and not line.startswith(" "):
            return m.group(1).split(".")[-1]
    return "unknown"


def run_inproc(argv):
    """One analysis through the real CLI functions in this process."""
    import osaca.osaca as oo

    out = io.StringIO()
    args = None
    err_save = sys.stderr
    sys.stderr = io.StringIO()
    try:
        try:
            parser = oo.create_parser()
            args = parser.parse_args(list(argv))
            oo.check_arguments(args, parser)
            oo.run(args, output_file=out)
            return {"rc": 0, "out": normalise(out.getvalue()), "exc": None}
        except SystemExit as e:
            return {"rc": e.code if isinstance(e.code, int) else 1, "out": normalise(out.getvalue()), "exc": "SystemExit"}
        except Exception as e:  # noqa - reported to the caller, judged by the oracle there
            import traceback

            return {
                "rc": 1,
                "out": normalise(out.getvalue()),
                "exc": type(e).__name__,
                "tb": "".join(traceback.format_exception(type(e), e, e.__traceback__))[-1500:],
            }
    finally:
        sys.stderr = err_save
        f = getattr(args, "file", None)
        if f is not None:
            try:
                f.close()
            except Exception:  # noqa
                pass


def run_lib_inproc(model_path, kernel_path):
    """One analysis through the library entry points with a machine model given by *path* (what tools embedding OSACA do)."""
    out = {"rc": 0, "out": "", "exc": None}
    try:
        from osaca.frontend import Frontend
        from osaca.parser import get_parser
        from osaca.semantics import ArchSemantics, KernelDG, MachineModel, reduce_to_section

        mm = MachineModel(path_to_yaml=model_path)
        isa = mm.get_ISA()
        parser = get_parser(isa)
        with open(kernel_path) as f:
            parsed = parser.parse_file(f.read())
        kernel = reduce_to_section(parsed, isa)
        sem = ArchSemantics(mm)
        sem.add_semantics(kernel)
        sem.assign_optimal_throughput(kernel)
        sem.assign_optimal_throughput(kernel)
        dg = KernelDG(kernel, parser, mm, sem, 10)
        fe = Frontend(os.path.basename(kernel_path), path_to_yaml=model_path)
        out["out"] = normalise(fe.full_analysis(kernel, dg, ignore_unknown=True, verbose=False))
    except Exception as e:  # noqa - reported to the caller, judged by the oracle there
        import traceback

        out.update(rc=1, exc=type(e).__name__, tb="".join(traceback.format_exception(type(e), e, e.__traceback__))[-1500:])
    return out


# ----------------------------------------------------------------------------------------------------------------
# fresh processes


def run_sub(argv, home=None, timeout=600, extra_env=None):
    """The real command line in a fresh process."""
    p = subprocess.run(
        [PY, "-m", "osaca"] + list(argv),
        env=sub_env(home, extra_env),
        capture_output=True,
        text=True,
        timeout=timeout,
        cwd=isolate.SCRATCH,
    )
    r = {"rc": p.returncode, "out": normalise(p.stdout), "exc": None}
    if p.returncode != 0:
        r["exc"] = _exc_name(p.stderr)
        r["err"] = p.stderr[-1500:]
    return r


def start_driver(spec, home=None, workdir=None):
    """Start ``python -m vf.cli spec.json``; returns (Popen, spec path)."""
    workdir = workdir or isolate.SCRATCH
    os.makedirs(workdir, exist_ok=True)
    path = os.path.join(workdir, "drv-%d-%d.json" % (os.getpid(), start_driver.n))
    start_driver.n += 1
    with open(path, "w") as f:
        json.dump(spec, f)
    p = subprocess.Popen(
        [PY, "-m", "vf.cli", path],
        env=sub_env(home),
        stdout=subprocess.PIPE,
        stderr=subprocess.PIPE,
        text=True,
        cwd=isolate.VERIF,
    )
    return p, path


start_driver.n = 0


def finish_driver(p, path, timeout=900):
    """-> {"rc", "reports": [...], "stderr", "events": [...]}; a driver that died returns what it managed to write."""
    try:
        out, err = p.communicate(timeout=timeout)
    finally:
        if p.poll() is None:
            p.kill()
            p.communicate()
    try:
        os.unlink(path)
    except OSError:
        pass
    res = {"rc": p.returncode, "reports": [], "stderr": err[-1500:], "events": []}
    for line in out.splitlines():
        if line.startswith("@@REPORT "):
            res["reports"].append(json.loads(line[9:]))
    return res


def run_driver(spec, home=None, workdir=None, timeout=900):
    p, path = start_driver(spec, home, workdir)
    res = finish_driver(p, path, timeout)
    res["events"] = read_events(spec.get("events"))
    return res


def read_events(path):
    ev = []
    if path and os.path.exists(path):
        with open(path) as f:
            for line in f:
                line = line.strip()
                if line:
                    try:
                        ev.append(json.loads(line))
                    except ValueError:
                        pass
    return ev


# ----------------------------------------------------------------------------------------------------------------
# corpus

_EXCLUDE = ("kernel_x86_long_LCD.s", "triad_x86_unmarked.s", ".copy.s")


def corpus(repo_dir=None):
    """Marked kernels of the tree: [{"path", "isa", "name", "lines"}], sorted (deterministic)."""
    repo_dir = repo_dir or isolate.repo()
    out = []
    for p in sorted(glob.glob(os.path.join(repo_dir, "examples", "*", "*.s"))):
        b = os.path.basename(p)
        isa = "aarch64" if ".tx2." in b else ("x86" if (".csx." in b or ".zen." in b) else None)
        if isa:
            out.append({"path": p, "isa": isa, "name": b})
    for p in sorted(glob.glob(os.path.join(repo_dir, "tests", "test_files", "*.s"))):
        b = os.path.basename(p)
        if any(x in b for x in _EXCLUDE):
            continue
        isa = "aarch64" if ("aarch64" in b or "arm" in b) else ("x86" if "x86" in b else None)
        if isa:
            out.append({"path": p, "isa": isa, "name": b})
    for k in out:
        with open(k["path"]) as f:
            k["lines"] = sum(1 for _ in f)
    return out


def marked_range(path):
    """(first, last) 1-based line numbers strictly between the markers of a shipped kernel, or None."""
    with open(path) as f:
        lines = f.read().splitlines()
    beg = end = None
    for i, l in enumerate(lines, 1):
        s = l.strip()
        if beg is None and ("OSACA-BEGIN" in s or "LLVM-MCA-BEGIN" in s):
            beg = i
        elif "OSACA-END" in s or "LLVM-MCA-END" in s:
            end = i
    if beg and end and end - beg > 2:
        return beg + 1, end - 1
    return None


# ----------------------------------------------------------------------------------------------------------------
# driver process


def _driver(spec):
    """Run ``spec["runs"]`` (list of argv) in this process.

    An element of runs that is a dict is a file action performed between two analyses
    ({"action": "copy", "src", "dst"}: the model file is replaced while the process lives).
    Without events/deny/kill/slow nothing of OSACA is wrapped (C18 sequences).
    spec keys (all optional except runs):
      events      side file, one JSON object per line: {"ev": load|dump|get|write|killed|access-denied, ...}
      deny        list of directory prefixes for which os.access(..., W_OK) answers False
      kill        {"match": substring of the cache file name, "frac": 0..1 | "bytes": k | "tail": k}: the dump proxy
                  writes only a prefix of the pickle stream to the real file object and os._exit(1)s
      slow        {"chunks": n, "sleep": s, "hold": h}: the dump proxy writes the stream in n pieces with pauses (a pre-empted
                  writer) and pauses h seconds after the last byte, before the caller closes and publishes the file
      barrier     {"dir": d, "n": k, "timeout": s}: the first dump of the process waits until k processes have arrived at
                  their first dump (or s seconds passed): cold starts whose cache writes overlap although their loads differ in length
      ready / go  touch ``ready`` after the imports, then spin until ``go`` exists (racing cold starts)
      delay       seconds to sleep after ``go``
    """
    import pickle as real_pickle

    evf = open(spec["events"], "a") if spec.get("events") else None

    def emit(**kw):
        if evf:
            kw["pid"] = os.getpid()
            evf.write(json.dumps(kw) + "\n")
            evf.flush()

    deny = [os.path.realpath(d) for d in spec.get("deny", [])]
    if deny:
        real_access = os.access

        def access(path, mode, *a, **k):
            if mode & os.W_OK:
                rp = os.path.realpath(str(path))
                for d in deny:
                    if rp == d or rp.startswith(d + os.sep):
                        emit(ev="access-denied", path=rp)
                        return False
            return real_access(path, mode, *a, **k)

        os.access = access

    import osaca.semantics.hw_model as hw

    kill = spec.get("kill")
    slow = spec.get("slow")
    state = {"dumps": 0, "writing": None}
    instrument = bool(evf or deny or kill or slow)  # C18 sequences run the untouched code

    class PickleProxy(object):
        def __getattr__(self, name):
            return getattr(real_pickle, name)

        @staticmethod
        def load(f, *a, **k):
            name = getattr(f, "name", "?")
            try:
                data = real_pickle.load(f, *a, **k)
            except BaseException as e:
                emit(ev="load", file=str(name), ok=False, exc=type(e).__name__)
                raise
            emit(ev="load", file=str(name), ok=True)
            return data

        @staticmethod
        def dump(obj, f, *a, **k):
            name = str(getattr(f, "name", "?"))
            stream = real_pickle.dumps(obj, *a, **k)
            emit(ev="dump", file=name, size=len(stream))
            bar = spec.get("barrier")
            if bar and not state["dumps"]:
                open(os.path.join(bar["dir"], "arrived-%d" % os.getpid()), "w").close()
                t_end = time.time() + float(bar.get("timeout", 60))
                while time.time() < t_end and sum(1 for x in os.listdir(bar["dir"]) if x.startswith("arrived-")) < int(bar["n"]):
                    time.sleep(0.005)
                emit(ev="barrier", waited=round(float(bar.get("timeout", 60)) - (t_end - time.time()), 3),
                     arrived=sum(1 for x in os.listdir(bar["dir"]) if x.startswith("arrived-")))
            state["dumps"] += 1
            # the file being written is identified by the name of the file object or, independently of how the
            # implementation names its temporary files, by the model file whose cache write is in progress
            if kill and (("match" in kill and kill["match"] in os.path.basename(name))
                         or ("source" in kill and kill["source"] == state["writing"])):
                if "bytes" in kill:
                    n = min(len(stream), int(kill["bytes"]))
                elif "tail" in kill:
                    n = max(0, len(stream) - int(kill["tail"]))
                else:
                    n = int(len(stream) * float(kill["frac"]))
                f.write(stream[:n])
                f.flush()
                emit(ev="killed", file=name, written=n, size=len(stream))
                os._exit(1)
            if slow:
                n = max(1, int(slow.get("chunks", 4)))
                step = max(1, len(stream) // n)
                for i in range(0, len(stream), step):
                    f.write(stream[i : i + step])
                    f.flush()
                    time.sleep(float(slow.get("sleep", 0.05)))
                time.sleep(float(slow.get("hold", 0)))
                return
            f.write(stream)

    if instrument:
        hw.pickle = PickleProxy()
    MM = hw.MachineModel
    orig_get, orig_write = MM._get_cached, MM._write_in_cache

    def get_cached(self, filepath):
        try:
            r = orig_get(self, filepath)
        except BaseException as e:
            emit(ev="get", file=str(filepath), result="exception", exc=type(e).__name__)
            raise
        emit(ev="get", file=str(filepath), result="hit" if r else "miss")
        return r

    def write_in_cache(self, filepath):
        emit(ev="write", file=str(filepath))
        state["writing"] = os.path.basename(str(filepath))
        try:
            return orig_write(self, filepath)
        finally:
            state["writing"] = None

    if instrument:
        MM._get_cached = get_cached
        MM._write_in_cache = write_in_cache

    import osaca.osaca  # noqa - everything imported before the start signal

    if spec.get("ready"):
        open(spec["ready"], "w").close()
    if spec.get("go"):
        t0 = time.time()
        while not os.path.exists(spec["go"]):
            if time.time() - t0 > 300:
                print("driver: no go signal", file=sys.stderr)
                sys.exit(3)
            time.sleep(0.002)
    if spec.get("delay"):
        time.sleep(float(spec["delay"]))
    for argv in spec["runs"]:
        if isinstance(argv, dict):
            # file action between two analyses of one process: {"action": "copy", "src": ..., "dst": ...}
            if argv.get("action") == "copy":
                with open(argv["src"], "rb") as s:
                    content = s.read()
                st = os.stat(argv["dst"]) if argv.get("preserve") and os.path.exists(argv["dst"]) else None
                if os.path.islink(argv["dst"]):
                    os.unlink(argv["dst"])
                with open(argv["dst"], "wb") as d:
                    d.write(content)
                if st is not None:
                    # deployed the way rsync -t / cp -p do: access and modification time of the replaced file are kept
                    os.utime(argv["dst"], ns=(st.st_atime_ns, st.st_mtime_ns))
                emit(ev="action", what="copy", dst=argv["dst"], preserved=st is not None,
                     same_size=st is not None and st.st_size == len(content))
            elif argv.get("action") == "lib":
                r = run_lib_inproc(argv["model"], argv["kernel"])
                emit(ev="report", rc=r["rc"], exc=r["exc"])
                sys.stdout.write("@@REPORT " + json.dumps(r) + "\n")
                sys.stdout.flush()
            elif argv.get("action") == "whatif":
                # a what-if script: loads the model and changes it in memory only (the model file is not touched)
                from osaca.semantics import MachineModel

                mm = MachineModel(arch=argv["arch"])
                n = 0
                for forms in mm["instruction_forms_dict"].values():
                    for form in forms:
                        if getattr(form, "latency", None) is not None:
                            form.latency = float(form.latency) + 7.0
                            n += 1
                for form in mm["instruction_forms"]:
                    if isinstance(form, dict) and form.get("latency") is not None:
                        form["latency"] = float(form["latency"]) + 7.0
                emit(ev="action", what="whatif", changed=n)
            elif argv.get("action") == "frontend_first":
                # a library user creates the front end (a header-only load of the model) before anything else
                from osaca.frontend import Frontend

                Frontend(arch=argv["arch"])
                emit(ev="action", what="frontend_first")
            elif argv.get("action") == "sleep":
                # time passes in a long-lived process between two analyses
                time.sleep(float(argv["s"]))
            continue
        t_run = time.time()
        r = run_inproc(argv)
        r["elapsed"] = round(time.time() - t_run, 3)
        emit(ev="report", rc=r["rc"], exc=r["exc"])
        sys.stdout.write("@@REPORT " + json.dumps(r) + "\n")
        sys.stdout.flush()


if __name__ == "__main__":
    with open(sys.argv[1]) as fh:
        _driver(json.load(fh))
