"""wrap(): install an observing wrapper on an attribute of the real code, with evaluation counters and a depth guard."""
import functools


class Monitor:
    def __init__(self):
        self.calls = {}
        self._undo = []

    def wrap(self, obj, name, before=None, after=None, top_only=True):
        """Replace obj.name by a wrapper. before(args, kwargs) / after(result, args, kwargs) run for the outermost
        activation only when top_only (recursive activations are passed through un-observed)."""
        orig = obj.__dict__.get(name, None)
        raw = orig if orig is not None else getattr(obj, name)
        is_static = isinstance(orig, staticmethod)
        is_class = isinstance(orig, classmethod)
        fn = raw.__func__ if (is_static or is_class) else raw
        key = "%s.%s" % (getattr(obj, "__name__", type(obj).__name__), name)
        self.calls.setdefault(key, 0)
        state = {"depth": 0}
        mon = self

        @functools.wraps(fn)
        def wrapper(*a, **k):
            outer = state["depth"] == 0
            state["depth"] += 1
            try:
                if before and (outer or not top_only):
                    before(a, k)
                res = fn(*a, **k)
            finally:
                state["depth"] -= 1
            if outer or not top_only:
                mon.calls[key] += 1
                if after:
                    after(res, a, k)
            return res

        new = staticmethod(wrapper) if is_static else classmethod(wrapper) if is_class else wrapper
        setattr(obj, name, new)
        self._undo.append((obj, name, orig, raw))
        return wrapper

    def undo(self):
        for obj, name, orig, raw in reversed(self._undo):
            if orig is None:
                try:
                    delattr(obj, name)
                except AttributeError:
                    setattr(obj, name, raw)
            else:
                setattr(obj, name, orig)
        self._undo = []
