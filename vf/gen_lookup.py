"""Entry patterns (YAML dicts) <-> concrete instruction operands (AST + text) for C07/C08/C15-style workloads.

concretize(isa, entry_operand, rng, pos) -> AST operand matching exactly the kind the entry declares (or None when the
pattern is outside the renderable vocabulary); render(isa, mnemonic, ast_ops) -> text; mutate(...) -> near misses.
"""
import random

from .ref_match import GPR_NAMES

GPR64 = ["rax", "rbx", "rcx", "rdx", "rsi", "rdi", "r8", "r9", "r10", "r11", "r12", "r13", "r14", "r15"]
GPR_ALL = sorted(n for n in GPR_NAMES if n not in ("rsp", "esp", "sp", "spl"))
CCS = ["EQ", "NE", "CS", "HS", "CC", "LO", "MI", "PL", "VS", "VC", "HI", "LS", "GE", "LT", "GT", "LE", "AL"]
LANES = {"b": ["8", "16"], "h": ["4", "8"], "s": ["2", "4"], "d": ["1", "2"]}


# ---------------------------------------------------------------- x86

def x86_reg_of_class(cls, rng):
    if cls == "gpr":
        return rng.choice(GPR_ALL)
    if cls in ("xmm", "ymm", "zmm"):
        return "%s%d" % (cls, rng.randint(0, 31))
    if cls == "mm":
        return "mm%d" % rng.randint(0, 7)
    if cls == "k":
        return "k%d" % rng.randint(1, 7)
    return None


def x86_concretize(e, rng, pos):
    cls = e.get("class")
    if cls == "register":
        name = e.get("name")
        if name == "*":
            name = rng.choice(["gpr", "xmm", "ymm", "zmm"])
        r = x86_reg_of_class(name, rng)
        if r is None:
            if isinstance(name, str) and name.isalnum():
                r = name  # explicitly named register (cl, rax ...)
            else:
                return None
        return {"k": "reg", "name": r}
    if cls == "immediate":
        if e.get("imd") != "int":
            return None
        v = rng.choice([0, 1, 7, 64, 255, 4096, -1, -128])
        return {"k": "imm", "text": "$" + (hex(v) if v >= 0 and rng.random() < 0.3 else str(v))}
    if cls == "identifier":
        return {"k": "id", "text": rng.choice([".L%d" % rng.randint(1, 30), "foo", "bar_%d" % rng.randint(0, 9)])}
    if cls == "memory":
        def regf(ev):
            if isinstance(ev, dict):
                ev = ev.get("name")
            if ev == "*":
                return rng.choice([None, rng.choice(GPR64)])
            if ev is None:
                return None
            if ev == "gpr":
                return rng.choice(GPR64)
            return "?"
        base, index = regf(e.get("base")), regf(e.get("index"))
        if base == "?" or index == "?":
            return None
        off = e.get("offset")
        if isinstance(off, dict):
            return None
        if off == "*":
            disp = rng.choice([None, "imm", "id"])
        elif off is None:
            disp = None
        elif off == "imd":
            disp = "imm"
        elif off == "id":
            disp = "id"
        else:
            return None
        sc = e.get("scale")
        if sc == "*":
            scale = rng.choice([1, 2, 4, 8]) if index else 1
        elif isinstance(sc, int) and not isinstance(sc, bool):
            if sc == 1:
                scale = 1
            else:
                if not index:
                    return None
                scale = rng.choice([2, 4, 8]) if rng.random() < 0.5 else sc
                if scale not in (1, 2, 4, 8):
                    return None
        else:
            return None
        if base is None and index is None:
            if disp is None or pos == 0:
                return None
        m = {"k": "mem", "base": base, "index": index, "scale": scale, "disp": disp}
        if disp == "imm":
            v = rng.choice([8, 16, 128, 1024, 4]) if (base is None and index is None) else rng.choice([8, 16, -8, 128, -1024, 4, 0x40])
            m["disp_text"] = hex(v) if v > 0 and rng.random() < 0.25 else str(v)
        elif disp == "id":
            m["disp_text"] = rng.choice(["lbl", ".LC%d" % rng.randint(0, 9)])
        return m
    return None


def x86_render_op(o):
    k = o["k"]
    if k == "reg":
        return "%" + o["name"]
    if k in ("imm", "id"):
        return o["text"]
    if k == "mem":
        s = o.get("disp_text", "") if o["disp"] else ""
        if o["base"] is None and o["index"] is None:
            return s
        inner = ("%" + o["base"]) if o["base"] else ""
        if o["index"]:
            inner += ",%" + o["index"]
            if o["scale"] != 1 or o.get("explicit_scale"):
                inner += ",%d" % o["scale"]
        return s + "(" + inner + ")"
    raise ValueError(k)


def x86_mutations(ops, rng):
    """Near misses of an operand list: each changes one operand to a neighbouring kind, or the count."""
    out = []
    for i, o in enumerate(ops):
        alts = []
        if o["k"] == "reg":
            c = o["name"]
            for cls in ("gpr", "xmm", "ymm", "zmm", "mm"):
                r = x86_reg_of_class(cls, rng)
                alts.append({"k": "reg", "name": r})
            alts.append({"k": "imm", "text": "$3"})
            alts.append({"k": "mem", "base": "rax", "index": None, "scale": 1, "disp": None})
        elif o["k"] == "imm":
            alts.append({"k": "reg", "name": "rcx"})
            alts.append({"k": "id", "text": "sym"} if i == 0 else {"k": "reg", "name": "xmm3"})
        elif o["k"] == "id":
            alts.append({"k": "reg", "name": "rdx"})
            alts.append({"k": "imm", "text": "$5"})
        elif o["k"] == "mem":
            m = dict(o)
            if m["disp"]:
                m["disp"] = None
                m.pop("disp_text", None)
            else:
                m["disp"] = "imm"
                m["disp_text"] = "24"
            if m["base"] or m["index"]:
                alts.append(m)
            m = dict(o)
            if m["index"]:
                m["index"] = None
                m["scale"] = 1
                if m["base"]:
                    alts.append(m)
            elif m["base"]:
                m["index"] = "r11"
                m["scale"] = rng.choice([1, 8])
                alts.append(m)
            m = dict(o)
            if m["index"]:
                m["scale"] = 1 if m["scale"] != 1 else 4
                alts.append(m)
            alts.append({"k": "reg", "name": "rsi"})
        for a in alts:
            out.append(ops[:i] + [a] + ops[i + 1:])
    if ops:
        out.append(ops[:-1])
    if len(ops) < 4 and ops:
        out.append(ops + [{"k": "reg", "name": "r9"}])
    return out


# ---------------------------------------------------------------- AArch64

def a64_reg(prefix, shape, rng, bare=False):
    n = rng.randint(0, 30)
    o = {"k": "reg", "prefix": prefix, "num": n, "shape": None}
    if prefix in "vz" and shape is not None:
        o["shape"] = shape
        if prefix == "v":
            o["lanes"] = rng.choice(LANES[shape])
    elif prefix == "p" and shape is not None:
        o["shape"] = shape
    elif prefix == "p" and rng.random() < 0.4:
        o["pred"] = rng.choice(["m", "z"])
    return o


def a64_concretize(e, rng, pos):
    cls = e.get("class")
    if cls == "register":
        p = e.get("prefix")
        sh = e.get("shape")
        sh = sh.lower() if isinstance(sh, str) else sh
        if p == "*":
            p = "v" if sh is not None else rng.choice(["x", "w", "d"])
        if not isinstance(p, str) or p not in "wxbhsdqvzp" or len(p) != 1:
            return None
        if sh == "*":
            sh = rng.choice(["b", "h", "s", "d"])
        if sh is not None and (p not in "vzp" or sh not in "bhsd"):
            return None
        return a64_reg(p, sh, rng)
    if cls == "immediate":
        t = e.get("imd")
        if t == "*":
            t = rng.choice(["int", "float", "double"])
        if t == "int":
            v = rng.choice([0, 1, 8, 16, 255, 4095])
            return {"k": "imm", "type": "int", "text": rng.choice(["#", ""]) + (hex(v) if rng.random() < 0.25 else str(v))}
        if t == "float":
            return {"k": "imm", "type": "float", "text": "#%d.%de%s%df" % (rng.randint(1, 9), rng.randint(0, 99), rng.choice("+-"), rng.randint(0, 3))}
        if t == "double":
            return {"k": "imm", "type": "double", "text": "#%d.%de%s%d" % (rng.randint(1, 9), rng.randint(0, 99), rng.choice("+-"), rng.randint(0, 3))}
        return None
    if cls == "identifier":
        return {"k": "id", "text": rng.choice([".L%d" % rng.randint(1, 30), "target", "loop_%d" % rng.randint(0, 9)])}
    if cls == "condition":
        cc = str(e.get("ccode", "")).upper()
        if cc == "*":
            cc = rng.choice(CCS)
        if cc not in CCS:
            return None
        return {"k": "cond", "cc": cc}
    if cls == "prfop":
        return {"k": "prfop", "text": rng.choice(["pldl1keep", "pstl2strm", "pldl3keep"])}
    if cls == "memory":
        eb = e.get("base")
        if eb == "*":
            base = "x"
        elif isinstance(eb, str) and eb in ("x",):
            base = eb
        else:
            return None
        pre, post = e.get("pre_indexed", False), e.get("post_indexed", False)
        if pre == "*":
            pre = rng.random() < 0.3
        if post == "*":
            post = (not pre) and rng.random() < 0.3
        if pre not in (True, False) or post not in (True, False) or (pre and post):
            return None
        off = e.get("offset")
        ei = e.get("index")
        if ei == "*":
            index = None if (pre or post) else rng.choice([None, "x"])
        elif ei is None:
            index = None
        elif isinstance(ei, str) and ei in ("x", "w"):
            index = ei
        else:
            return None
        if off == "*":
            offset = None if index else rng.choice([None, "imm"])
        elif off is None:
            offset = None
        elif off == "imd":
            offset = "imm"
        else:
            return None
        if index and offset:
            return None
        if pre and not offset:
            return None
        if post and (index or offset):
            return None
        sc = e.get("scale")
        if sc == "*":
            scale = rng.choice([1, 2, 4, 8]) if index else 1
        elif isinstance(sc, int) and not isinstance(sc, bool):
            if sc == 1:
                scale = 1
            elif index:
                scale = rng.choice([2, 4, 8, 16])
            else:
                return None
        else:
            return None
        m = {"k": "mem", "base": base, "base_num": rng.randint(0, 28), "offset": offset, "index": index, "index_num": rng.randint(0, 28),
             "scale": scale, "pre": bool(pre), "post": bool(post)}
        if rng.random() < 0.1 and not index:
            m["base_sp"] = True
        if offset:
            m["off_text"] = "#%d" % rng.choice([8, 16, -16, 32, 256, 4])
        if post:
            m["post_text"] = "#%d" % rng.choice([8, 16, 32, 64])
        if index == "w":
            m["ext"] = rng.choice(["sxtw", "uxtw"])
        return m
    return None


def a64_render_op(o):
    k = o["k"]
    if k == "reg":
        s = "%s%d" % (o["prefix"], o["num"])
        if o.get("shape"):
            s += "." + o.get("lanes", "") + o["shape"]
        if o.get("pred"):
            s += "/" + o["pred"]
        return s
    if k in ("imm", "id", "prfop"):
        return o["text"]
    if k == "cond":
        return o["cc"].lower()
    if k == "mem":
        s = "[" + ("sp" if o.get("base_sp") else "%s%d" % (o["base"], o["base_num"]))
        if o["offset"]:
            s += ", " + o["off_text"]
        if o["index"]:
            s += ", %s%d" % (o["index"], o["index_num"])
            sh = {1: 0, 2: 1, 4: 2, 8: 3, 16: 4}[o["scale"]]
            if o["index"] == "w":
                s += ", %s" % o.get("ext", "sxtw") + (" #%d" % sh if sh else "")
            elif sh:
                s += ", lsl #%d" % sh
        s += "]"
        if o["pre"]:
            s += "!"
        if o["post"]:
            s += ", " + o["post_text"]
        return s
    raise ValueError(k)


def a64_mutations(ops, rng):
    out = []
    for i, o in enumerate(ops):
        alts = []
        last = i == len(ops) - 1
        if o["k"] == "reg":
            for p, sh in (("x", None), ("w", None), ("d", None), ("s", None), ("q", None), ("v", "d"), ("v", "s"), ("z", "d"), ("z", "s"), ("p", None)):
                alts.append(a64_reg(p, sh, rng))
            alts.append({"k": "imm", "type": "int", "text": "#3"})
        elif o["k"] == "imm":
            alts.append({"k": "imm", "type": "int", "text": "#7"})
            alts.append({"k": "imm", "type": "double", "text": "#2.5e+0"})
            alts.append({"k": "imm", "type": "float", "text": "#2.5e+0f"})
            alts.append(a64_reg("x", None, rng))
        elif o["k"] == "cond":
            alts.append({"k": "cond", "cc": "NE" if o["cc"] != "NE" else "GE"})
            alts.append(a64_reg("x", None, rng))
        elif o["k"] == "id":
            alts.append(a64_reg("x", None, rng))
        elif o["k"] == "mem" and last:
            m = dict(o)
            if not m["index"] and not m["post"]:
                if m["offset"] and not m["pre"]:
                    m["offset"] = None
                    alts.append(m)
                elif not m["offset"]:
                    m["offset"] = "imm"
                    m["off_text"] = "#24"
                    alts.append(m)
            m = dict(o)
            if m["index"]:
                m["scale"] = 1 if m["scale"] != 1 else 8
                alts.append(m)
                m2 = dict(o)
                m2["index"] = None
                m2["scale"] = 1
                alts.append(m2)
            elif not m["offset"] and not m["pre"] and not m["post"]:
                m["index"] = "x"
                alts.append(m)
            m = dict(o)
            if m["offset"] and not m["index"] and not m["post"]:
                m["pre"] = not m["pre"]
                alts.append(m)
            m = dict(o)
            if not m["offset"] and not m["index"] and not m["pre"]:
                m["post"] = not m["post"]
                m["post_text"] = "#16"
                alts.append(m)
        for a in alts:
            if a["k"] == "cond" and (not last or i == 0):
                continue
            out.append(ops[:i] + [a] + ops[i + 1:])
    if ops and ops[-1]["k"] not in ("mem",) and not (len(ops) == 2 and ops[0]["k"] == "cond"):
        out.append(ops[:-1])
    if ops and len(ops) < 5 and ops[-1]["k"] not in ("mem", "cond"):
        out.append(ops + [a64_reg("x", None, rng)])
    return out


# ---------------------------------------------------------------- common

def concretize(isa, entry_ops, rng):
    """AST operand list for an entry's operand patterns, or None if some pattern is not renderable."""
    f = x86_concretize if isa == "x86" else a64_concretize
    out = []
    for pos, e in enumerate(entry_ops):
        if not isinstance(e, dict):
            return None
        o = f(e, rng, pos)
        if o is None:
            return None
        out.append(o)
    if isa == "aarch64":
        # valid operand order: memory / condition / identifier-after-registers only in last position
        for i, o in enumerate(out[:-1]):
            if o["k"] in ("mem", "cond"):
                return None
        if out and out[0]["k"] == "cond":
            return None
    return out


def render(isa, mnemonic, ops, rng=None):
    f = x86_render_op if isa == "x86" else a64_render_op
    sep = ", "
    lead = ""
    if rng is not None:
        sep = rng.choice([", ", ",", " , ", ",\t", ",  "])
        lead = rng.choice(["", "\t", "  ", "    "])
    parts = [f(o) for o in ops]
    return lead + mnemonic + ((rng.choice([" ", "\t", "  "]) if rng else " ") + sep.join(parts) if parts else "")


def mutations(isa, ops, rng):
    return (x86_mutations if isa == "x86" else a64_mutations)(ops, rng)


def ast_kind(o):
    """Projection of a concrete AST operand to what R-match looks at."""
    k = o["k"]
    if k == "reg":
        return {"k": "reg", "name": o["name"]} if "name" in o else {"k": "reg", "prefix": o["prefix"], "shape": o.get("shape")}
    if k == "imm":
        return {"k": "imm", "type": o.get("type", "int")}
    if k == "mem":
        if "disp" in o:
            return {"k": "mem", "base": o["base"], "index": o["index"], "scale": o["scale"], "disp": o["disp"]}
        return {"k": "mem", "base": o["base"], "offset": o["offset"], "index": o["index"], "scale": o["scale"], "pre": o["pre"], "post": o["post"]}
    if k == "cond":
        return {"k": "cond", "cc": o["cc"]}
    return {"k": k}


# ---------------------------------------------------------------- random entry patterns

def rand_entry_operand(isa, rng, last=False):
    if isa == "x86":
        r = rng.random()
        if r < 0.5:
            return {"class": "register", "name": rng.choice(["gpr", "gpr", "xmm", "ymm", "zmm", "mm", "*"])}
        if r < 0.62:
            return {"class": "immediate", "imd": "int"}
        if r < 0.67:
            return {"class": "identifier"}
        return {"class": "memory", "base": rng.choice(["gpr", "gpr", "*", None]), "offset": rng.choice([None, "imd", "*", "imd"]),
                "index": rng.choice([None, "gpr", "*", None]), "scale": rng.choice([1, 1, 8, "*"])}
    r = rng.random()
    if r < 0.55:
        p = rng.choice(["x", "w", "d", "s", "q", "h", "b", "v", "v", "z", "p", "*"])
        e = {"class": "register", "prefix": p}
        if p in "vz" and rng.random() < 0.85:
            e["shape"] = rng.choice(["b", "h", "s", "d", "*"])
        elif p == "p" and rng.random() < 0.4:
            e["shape"] = rng.choice(["b", "h", "s", "d"])
        elif p == "*" and rng.random() < 0.3:
            e["shape"] = rng.choice(["s", "d", "*"])
        return e
    if r < 0.68:
        return {"class": "immediate", "imd": rng.choice(["int", "int", "float", "double", "*"])}
    if r < 0.72:
        return {"class": "identifier"}
    if last and r < 0.8:
        return {"class": "condition", "ccode": rng.choice(CCS + ["*", "*"])}
    if last:
        kind = rng.choice(["plain", "off", "idx", "pre", "post", "wild"])
        e = {"class": "memory", "base": "x", "offset": None, "index": None, "scale": 1, "pre_indexed": False, "post_indexed": False}
        if kind == "off":
            e["offset"] = "imd"
        elif kind == "idx":
            e["index"] = rng.choice(["x", "x", "w"])
            e["scale"] = rng.choice([1, 8, "*"])
        elif kind == "pre":
            e["offset"] = "imd"
            e["pre_indexed"] = True
        elif kind == "post":
            e["post_indexed"] = True
        elif kind == "wild":
            e.update({"base": "*", "offset": "*", "index": "*", "scale": "*", "pre_indexed": "*", "post_indexed": "*"})
        return e
    return {"class": "register", "prefix": rng.choice(["x", "w", "d"])}


def rand_entry_operands(isa, rng, n=None):
    n = rng.choice([0, 1, 2, 2, 3, 3, 4]) if n is None else n
    ops = []
    nmem = 0
    for i in range(n):
        o = rand_entry_operand(isa, rng, last=(i == n - 1))
        if o["class"] == "memory":
            if nmem or (isa == "x86" and False):
                o = {"class": "register", "name": "gpr"} if isa == "x86" else {"class": "register", "prefix": "x"}
            else:
                nmem += 1
        if isa == "x86" and o["class"] == "identifier" and i != 0:
            o = {"class": "register", "name": "gpr"}
        ops.append(o)
    return ops
