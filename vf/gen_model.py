"""Synthetic machine models and ISA databases as YAML text (flow style), plus small helpers to place them on disk."""
import os
import shutil


class Bare(str):
    """A scalar emitted without quotes."""


def emit(o):
    """Python -> YAML flow text. ints/floats/None/bool bare, str quoted, dict keys bare when int."""
    if isinstance(o, Bare):
        return str(o)
    if o is None:
        return "~"
    if o is True:
        return "true"
    if o is False:
        return "false"
    if isinstance(o, (int, float)):
        return repr(o)
    if isinstance(o, str):
        return "'" + o.replace("'", "''") + "'"
    if isinstance(o, (list, tuple)):
        return "[" + ", ".join(emit(x) for x in o) + "]"
    if isinstance(o, dict):
        return "{" + ", ".join((repr(k) if isinstance(k, int) else emit(k)) + ": " + emit(v) for k, v in o.items()) + "}"
    raise TypeError(type(o))


def model_yaml(d):
    """d: dict with top-level keys; instruction_forms a list of dicts. One top-level key per line, one form per line."""
    lines = []
    for k, v in d.items():
        if k in ("instruction_forms", "load_throughput", "store_throughput"):
            if not v:
                lines.append("%s: []" % k)
            else:
                lines.append("%s:" % k)
                for f in v:
                    lines.append("- " + emit(f))
        else:
            lines.append("%s: %s" % (k, emit(v)))
    return "\n".join(lines) + "\n"


PORT_NAME_POOLS = [
    ["0", "1", "2", "3", "4", "5", "6", "7"],
    ["0", "0DV", "1", "2", "2D", "3", "3D", "4", "ST"],
    ["0", "1", "1DV", "5", "6", "8D", "9D", "ST"],
]
CYCLES = [0.25, 0.5, 1, 1, 1, 2, 3, 5]


def spell(ports, rng):
    """A port set in one of the YAML spellings: a string of single-char names where possible, else a list."""
    ports = list(ports)
    if all(len(p) == 1 for p in ports) and rng.random() < 0.6:
        return "".join(ports)
    return ports


def rand_portset(rng, ports, pattern, anchor=None):
    n = len(ports)
    if pattern == "single":
        return [rng.choice(ports)]
    if pattern == "all":
        return list(ports)
    if pattern == "nested" and anchor:
        k = rng.randint(1, len(anchor))
        return sorted(rng.sample(list(anchor), k), key=ports.index)
    if pattern == "overlap" and anchor:
        keep = rng.sample(list(anchor), max(1, len(anchor) // 2))
        others = [p for p in ports if p not in anchor]
        add = rng.sample(others, min(len(others), rng.randint(1, 2))) if others else []
        return sorted(set(keep + add), key=ports.index)
    if pattern == "disjoint" and anchor:
        others = [p for p in ports if p not in anchor]
        if others:
            return sorted(rng.sample(others, rng.randint(1, len(others))), key=ports.index)
    k = rng.randint(1, min(n, 4))
    return sorted(rng.sample(ports, k), key=ports.index)


def rand_uops(rng, ports, nmax=4):
    n = rng.choice([1, 1, 1, 2, 2, 3, nmax])
    uops = []
    anchor = None
    for i in range(n):
        pat = rng.choice(["random", "nested", "overlap", "disjoint", "single", "all"]) if anchor else rng.choice(["random", "single", "all"])
        P = rand_portset(rng, ports, pat, anchor)
        anchor = P if anchor is None or rng.random() < 0.5 else anchor
        uops.append([rng.choice(CYCLES), P])
    return uops


def base_model(isa, ports, arch_code="SYN"):
    return {
        "osaca_version": "0.5.0",
        "micro_architecture": "synthetic",
        "arch_code": arch_code,
        "isa": isa,
        "ROB_size": 100,
        "retired_uOps_per_cycle": 4,
        "scheduler_size": 50,
        "hidden_loads": False,
        "load_latency": {},
        "load_throughput": [],
        "load_throughput_default": [],
        "store_throughput": [],
        "store_throughput_default": [],
        "ports": list(ports),
        "port_model_scheme": "none",
        "instruction_forms": [],
    }


def x86_reg_ops(n, cls="gpr"):
    return [{"class": "register", "name": cls} for _ in range(n)]


def a64_reg_ops(n, prefix="x"):
    return [{"class": "register", "prefix": prefix} for _ in range(n)]


def port_model(rng, isa="x86", nforms=None):
    """A synthetic port model with register-only forms syn0a.. (2 or 3 gpr operands). Returns (model dict, forms meta).

    forms meta: list of dicts {name, uops (written order; alternatives list), throughput, latency, nops}
    """
    pool = rng.choice(PORT_NAME_POOLS)
    nports = rng.randint(2, 6)
    ports = pool[:]
    rng.shuffle(ports)
    ports = sorted(ports[:nports], key=pool.index)
    m = base_model(isa, ports)
    meta = []
    nforms = nforms or rng.randint(3, 8)
    for i in range(nforms):
        name = "syn%da" % i
        nops = rng.choice([2, 3])
        r = rng.random()
        alts = None
        if r < 0.15:
            k = rng.choice([2, 2, 3])
            alts = [rand_uops(rng, ports, 3) for _ in range(k)]
            pp = {j: [[c, spell(P, rng)] for c, P in a] for j, a in enumerate(alts)}
            uops = alts[0]
        else:
            uops = rand_uops(rng, ports)
            pp = [[c, spell(P, rng)] for c, P in uops]
        tp_kind = rng.random()
        if tp_kind < 0.08:
            tp = 0.0  # a line that carries no throughput value: shown, not summed
        else:
            tp = max([0.25] + [c / len(P) for c, P in uops])
        lat = rng.choice([0, 1, 1, 2, 3, 4, 5, 8, 20])
        ops = x86_reg_ops(nops) if isa == "x86" else a64_reg_ops(nops)
        m["instruction_forms"].append({"name": name, "operands": ops, "throughput": tp, "latency": lat, "port_pressure": pp, "uops": len(uops)})
        meta.append({"name": name, "nops": nops, "uops": uops, "alts": alts, "throughput": tp, "latency": lat})
    return m, meta


class ScratchDir:
    """A private scratch directory below isolate.SCRATCH, removed on exit."""

    def __init__(self, tag):
        from . import isolate

        self.path = os.path.join(isolate.SCRATCH, "%s-%d" % (tag, os.getpid()))

    def __enter__(self):
        shutil.rmtree(self.path, ignore_errors=True)
        os.makedirs(self.path)
        return self.path

    def __exit__(self, *a):
        shutil.rmtree(self.path, ignore_errors=True)


X86_GPR64 = ["rax", "rbx", "rcx", "rdx", "rsi", "rdi", "r8", "r9", "r10", "r11", "r12", "r13", "r14", "r15"]


def x86_line(name, nops, rng, regs=None):
    regs = regs or X86_GPR64
    return "%s %s" % (name, ", ".join("%" + rng.choice(regs) for _ in range(nops)))


def a64_line(name, nops, rng):
    return "%s %s" % (name, ", ".join("x%d" % rng.randint(0, 28) for _ in range(nops)))
