"""Render an assembly line from a model entry's own operand pattern (per-entry synthesis)."""
from osaca.parser.register import RegisterOperand
from osaca.parser.memory import MemoryOperand
from osaca.parser.immediate import ImmediateOperand
from osaca.parser.identifier import IdentifierOperand
from osaca.parser.condition import ConditionOperand
from osaca.parser.prefetch import PrefetchOperand

X86_GPR = ["rax", "rbx", "rcx", "rdx", "rsi", "rdi", "r8", "r9", "r10", "r11", "r12", "r13", "r14", "r15"]


def x86_reg(name, n):
    if name in ("gpr", "*", None):
        return "%" + X86_GPR[n % len(X86_GPR)]
    if name in ("xmm", "ymm", "zmm"):
        return "%%%s%d" % (name, n % 16)
    if name == "mm":
        return "%%mm%d" % (n % 8)
    if name == "k":
        return "%%k%d" % (1 + n % 7)
    return "%" + name


def x86_mem(m, n):
    s = ""
    off, base, idx, sc = m.offset, m.base, m.index, m.scale
    if off in ("imd", "*") or isinstance(off, ImmediateOperand):
        s += "16"
    elif isinstance(off, IdentifierOperand) or off == "id":
        s += "lbl"
    b = "" if base is None else x86_reg("gpr" if isinstance(base, str) else base.name, n + 1)
    i = "" if idx is None else x86_reg("gpr" if isinstance(idx, str) else idx.name, n + 2)
    if idx is None:
        inner = b
    else:
        scv = 8 if sc in ("*", 8) else sc
        inner = "%s,%s,%s" % (b, i, scv) if scv != 1 else "%s,%s" % (b, i)
    return s + "(" + inner + ")" if (b or i) else (s or "0")


def render_x86(form, nbase=0):
    ops = []
    for n, o in enumerate(form.operands):
        n += nbase
        if isinstance(o, RegisterOperand):
            ops.append(x86_reg(o.name, n))
        elif isinstance(o, MemoryOperand):
            ops.append(x86_mem(o, n))
        elif isinstance(o, ImmediateOperand):
            ops.append("$1")
        elif isinstance(o, IdentifierOperand):
            ops.append(".L1")
        else:
            return None
    return form.mnemonic.lower() + " " + ", ".join(ops)


def a64_reg(o, n):
    p = o.prefix
    if p in ("*", None):
        p = "x" if o.shape is None else "v"
    if p in "wxbhsdq":
        return "%s%d" % (p, n + 1)
    if p in "vz":
        sh = o.shape
        if sh is None:
            return "%s%d" % (p, n + 1)
        if sh == "*":
            sh = "d"
        lanes = {"b": "16", "h": "8", "s": "4", "d": "2"}.get(sh, "") if p == "v" else ""
        return "%s%d.%s%s" % (p, n + 1, lanes, sh)
    if p == "p":
        sh = o.shape
        if sh is None:
            return "p%d" % (n + 1)
        if sh == "*":
            sh = "d"
        return "p%d.%s" % (n + 1, sh)
    return "%s%d" % (p, n + 1)


def a64_mem(m, n):
    base = "x" + str(n + 10)
    inner = base
    idx = m.index
    if idx is not None and idx != "*":
        ip = idx if isinstance(idx, str) else idx.prefix
        if ip == "z":
            inner += ", z%d.d" % (n + 3)
        else:
            inner += ", %s%d" % (ip if ip not in ("*", "gpr") else "x", n + 3)
        if m.scale not in (1, None):
            inner += ", lsl #3"
    elif m.offset in ("imd", "*") or isinstance(m.offset, ImmediateOperand):
        if not (m.post_indexed is True):
            inner += ", #16"
    s = "[" + inner + "]"
    if m.pre_indexed is True:
        s += "!"
    if m.post_indexed is True:
        s += ", #16"
    return s


def render_a64(form, nbase=0):
    ops = []
    for n, o in enumerate(form.operands):
        n += nbase
        if isinstance(o, RegisterOperand):
            ops.append(a64_reg(o, n))
        elif isinstance(o, MemoryOperand):
            ops.append(a64_mem(o, n))
        elif isinstance(o, ImmediateOperand):
            ops.append({"int": "#1", "float": "#1.0e+0f", "double": "#1.0e+0", "*": "#1"}.get(o.imd_type, "#1"))
        elif isinstance(o, IdentifierOperand):
            ops.append(".L1")
        elif isinstance(o, ConditionOperand):
            ops.append("eq" if o.ccode == "*" else o.ccode.lower())
        elif isinstance(o, PrefetchOperand):
            ops.append("pldl1keep")
        else:
            return None
    return form.mnemonic.lower() + " " + ", ".join(ops)


def render(isa, form, nbase=0):
    return (render_x86 if isa == "x86" else render_a64)(form, nbase)


def wellformed_uops(ports, pp):
    """Shape test used to keep entries with malformed port data (C15's business) out of other workloads."""
    alts = list(pp.values()) if isinstance(pp, dict) else [pp]
    for a in alts:
        if not isinstance(a, (list, tuple)):
            return False
        for u in a:
            if not (isinstance(u, (list, tuple)) and len(u) == 2):
                return False
            c, P = u
            if not isinstance(c, (int, float)) or isinstance(c, bool) or c < 0:
                return False
            if not isinstance(P, (str, list, tuple)) or len(P) == 0:
                return False
            if any(p not in ports for p in P):
                return False
    return True
