"""Shard worker: python -m vf.worker <PROP> <spec.json> <out.json> (runs with HOME = scratch home, PYTHONPATH = repo)."""
import json
import sys
import traceback

from .common import Result


def main():
    prop, spec_path, out_path = sys.argv[1:4]
    with open(spec_path) as f:
        spec = json.load(f)
    R = Result()
    err = None
    try:
        mod = __import__("vf.props." + prop.lower(), fromlist=["x"])
        if "replay" in spec:
            mod.replay(spec["replay"], R)
        else:
            mod.run_shard(spec, R)
    except BaseException:
        err = traceback.format_exc()
    out = R.to_json()
    if err:
        out["harness_error"] = err
    with open(out_path, "w") as f:
        json.dump(out, f, default=str)


if __name__ == "__main__":
    main()
