"""R-sched: reference for port-pressure feasibility (Hall / supply-demand form) and the exact fractional optimum.

Written from the property statements C01/C02 only; shares nothing with OSACA.
A micro-op is (cycles, tuple_of_port_names).
"""
import itertools


def norm_uops(uops):
    """[[c, '12'], [c, ['8D','9D']]] -> [(c, ('1','2')), (c, ('8D','9D'))] (ports as written: chars of a string or list items)."""
    out = []
    for u in uops or []:
        c, ports = u[0], u[1]
        out.append((float(c), tuple(ports)))
    return out


def uniform_split(ports, uops):
    x = [0.0] * len(ports)
    for c, P in uops:
        for p in P:
            x[ports.index(p)] += c / len(P)
    return x


def feasibility(ports, uops, x, tol):
    """Return list of (clause, detail) that fail; empty list = x is a feasible split of uops within tol.

    clauses: negative, off-support, total, hall
    """
    bad = []
    support = set()
    for c, P in uops:
        support.update(P)
    total = sum(c for c, _ in uops)
    for i, p in enumerate(ports):
        if x[i] < -tol:
            bad.append(("negative", "port %s carries %.4f" % (p, x[i])))
        if p not in support and abs(x[i]) > tol:
            bad.append(("off-support", "port %s carries %.4f but no micro-op may use it" % (p, x[i])))
    if abs(sum(x) - total) > tol:
        bad.append(("total", "sum of pressure %.4f != micro-op cycles %.4f" % (sum(x), total)))
    # Hall: for every union S of micro-op port sets, supply on S >= demand confined to S
    sets = sorted(set(frozenset(P) for _, P in uops), key=sorted)
    seen = set()
    n = len(sets)
    combos = itertools.chain.from_iterable(itertools.combinations(sets, k) for k in range(1, n + 1)) if n <= 10 else ((s,) for s in sets)
    worst = None
    for fam in combos:
        S = frozenset().union(*fam)
        if S in seen:
            continue
        seen.add(S)
        demand = sum(c for c, P in uops if set(P) <= S)
        supply = sum(x[ports.index(p)] for p in S)
        if supply < demand - tol:
            if worst is None or demand - supply > worst[0]:
                worst = (demand - supply, sorted(S), demand, supply)
    if worst:
        bad.append(("hall", "ports %s carry %.4f < %.4f cycles of micro-ops confined to them (slack %.4f)" % (worst[1], worst[3], worst[2], worst[0])))
    return bad


def hall_slack(ports, uops, x):
    """Largest violation of the Hall clause (<= 0 means satisfied)."""
    sets = sorted(set(frozenset(P) for _, P in uops), key=sorted)
    worst = 0.0
    seen = set()
    for k in range(1, len(sets) + 1):
        for fam in itertools.combinations(sets, k):
            S = frozenset().union(*fam)
            if S in seen:
                continue
            seen.add(S)
            demand = sum(c for c, P in uops if set(P) <= S)
            supply = sum(x[ports.index(p)] for p in S)
            worst = max(worst, demand - supply)
    return worst


def optimum(uop_lists):
    """Exact optimum of fractionally scheduling all micro-ops (a list of micro-op lists, one per summed instruction):
    max over port sets S (unions of occurring port sets) of (cycles confined to S) / |S|."""
    uops = [u for lst in uop_lists for u in lst]
    if not uops:
        return 0.0
    base = set(frozenset(P) for _, P in uops)
    closure = set(base)
    frontier = set(base)
    while frontier:
        new = set()
        for a in frontier:
            for b in base:
                u = a | b
                if u not in closure:
                    closure.add(u)
                    new.add(u)
        frontier = new
        if len(closure) > 20000:
            break
    best = 0.0
    for S in closure:
        d = sum(c for c, P in uops if set(P) <= S)
        best = max(best, d / len(S))
    return best


def optimum_with_alternatives(choices):
    """choices: per instruction a list of alternative micro-op lists. Minimum over the choice per instruction."""
    alts = [c for c in choices]
    n = 1
    for a in alts:
        n *= len(a)
    if n > 4096:
        return None
    best = None
    for pick in itertools.product(*alts):
        v = optimum(list(pick))
        if best is None or v < best:
            best = v
    return best if best is not None else 0.0
