"""Render one assembly line from a machine-model entry's own operand pattern.

Two independent front ends produce the same neutral description (mnemonic, list of plain operand dicts):

* ``describe_form(form)``      - an osaca ``InstructionForm`` taken from ``MachineModel['instruction_forms_dict']``
* ``describe_dict(entry, name)`` - the plain dict of an entry as read from the YAML text (nothing of osaca involved)

and ``render_desc(isa, mnemonic, ops)`` turns it into text (x86: AT&T syntax, operands in DB order; AArch64).

Public API
    render(isa, form) -> str                       osaca InstructionForm entry
    render_dict(isa, entry, name=None) -> str      plain YAML dict (``name`` selects one of a multi-name entry)
    names_of(entry) -> list[str]                   names of a plain YAML entry as OSACA splits them

Rendering is best effort: an operand pattern that cannot be written down (typos such as prefix 'have', name 'ximm')
is rendered literally, so the real parser may refuse the line or a different entry may match it - callers count that.
Wildcards ('*') are resolved to one fixed concrete choice, positions select distinct register numbers.
"""

WILD = "*"

X86_GPR = ["rax", "rbx", "rcx", "rdx", "rsi", "rdi", "r8", "r9", "r10", "r11", "r12", "r13"]
A64_LANES = {"b": "16", "h": "8", "s": "4", "d": "2", "q": "1"}


# ----------------------------------------------------------------------------------------------------------------
# neutral description


def _attr(o, *names):
    for n in names:
        if hasattr(o, n):
            return getattr(o, n)
    return None


def _plain_sub(v):
    """base/index/offset of a memory pattern: None, a string ('gpr', 'x', '*', 'imd', 'id') or an operand -> dict."""
    if v is None or isinstance(v, (str, int, float, bool)):
        return v
    if isinstance(v, dict):
        return dict(v)
    cls = type(v).__name__
    if cls == "RegisterOperand":
        return {"class": "register", "name": _attr(v, "name"), "prefix": _attr(v, "prefix")}
    if cls == "ImmediateOperand":
        return {"class": "immediate", "imd": _attr(v, "imd_type")}
    if cls == "IdentifierOperand":
        return {"class": "identifier", "name": _attr(v, "name")}
    return {"class": cls}


def describe_operand(o):
    """osaca operand object (or leftover dict) -> plain dict with key 'class'."""
    if isinstance(o, dict):
        return describe_operand_dict(o)
    cls = type(o).__name__
    if cls == "RegisterOperand":
        return {
            "class": "register",
            "name": _attr(o, "name"),
            "prefix": _attr(o, "prefix"),
            "shape": _attr(o, "shape"),
            "lanes": _attr(o, "lanes"),
            "mask": _attr(o, "mask"),
            "predication": _attr(o, "predication"),
        }
    if cls == "MemoryOperand":
        return {
            "class": "memory",
            "base": _plain_sub(_attr(o, "base")),
            "offset": _plain_sub(_attr(o, "offset")),
            "index": _plain_sub(_attr(o, "index")),
            "scale": _attr(o, "scale"),
            "pre_indexed": _attr(o, "pre_indexed"),
            "post_indexed": _attr(o, "post_indexed"),
        }
    if cls == "ImmediateOperand":
        return {"class": "immediate", "imd": _attr(o, "imd_type")}
    if cls == "IdentifierOperand":
        return {"class": "identifier", "name": _attr(o, "name")}
    if cls == "ConditionOperand":
        return {"class": "condition", "ccode": _attr(o, "ccode")}
    if cls == "PrefetchOperand":
        return {"class": "prfop", "type": _attr(o, "type_id"), "target": _attr(o, "target"), "policy": _attr(o, "policy")}
    if cls == "FlagOperand":
        return {"class": "flag", "name": _attr(o, "name")}
    return {"class": cls}


def describe_operand_dict(o):
    d = {k: v for k, v in o.items() if k not in ("source", "destination")}
    d.setdefault("class", None)
    if d["class"] == "memory":
        for k in ("base", "offset", "index"):
            d[k] = _plain_sub(d.get(k))
    return d


def describe_form(form):
    return (form.mnemonic, [describe_operand(o) for o in (form.operands or [])])


def names_of(entry):
    n = entry.get("name")
    return [str(x) for x in n] if isinstance(n, list) else [str(n)]


def describe_dict(entry, name=None):
    if name is None:
        name = names_of(entry)[0]
    return (name, [describe_operand_dict(o) for o in (entry.get("operands") or [])])


# ----------------------------------------------------------------------------------------------------------------
# x86 (AT&T)


def _x86_reg(name, n):
    if isinstance(name, dict):
        name = name.get("name")
    if name in ("gpr", WILD, None):
        return "%" + X86_GPR[n % len(X86_GPR)]
    if name in ("xmm", "ymm", "zmm"):
        return "%%%s%d" % (name, n % 16)
    if name == "mm":
        return "%%mm%d" % (n % 8)
    if name == "k":
        return "%%k%d" % (1 + n % 7)
    return "%" + str(name)


def _x86_mem(m, n):
    off, base, idx, sc = m.get("offset"), m.get("base"), m.get("index"), m.get("scale")
    s = ""
    if off in ("imd", WILD) or (isinstance(off, dict) and off.get("class") == "immediate"):
        s = "16"
    elif off == "id" or (isinstance(off, dict) and off.get("class") == "identifier"):
        s = "lbl"
    b = "" if base is None else _x86_reg(base, n + 1)
    i = "" if idx is None else _x86_reg(idx, n + 2)
    if not i:
        inner = b
    else:
        scv = 8 if sc in (WILD, None) else sc
        inner = "%s,%s,%s" % (b, i, scv) if scv != 1 else "%s,%s" % (b, i)
    if b or i:
        return s + "(" + inner + ")"
    return s or "0"


def _x86_operand(o, n):
    c = o.get("class")
    if c == "register":
        return _x86_reg(o.get("name"), n)
    if c == "memory":
        return _x86_mem(o, n)
    if c == "immediate":
        return "$1"
    if c == "identifier":
        return ".L1"
    return "?"


# ----------------------------------------------------------------------------------------------------------------
# AArch64


def _a64_reg(o, n):
    p = o.get("prefix")
    sh = o.get("shape")
    k = n + 1
    if p in (WILD, None):
        p = "x" if sh is None else "v"
    p = str(p)
    if p in ("w", "x", "b", "h", "s", "d", "q"):
        return "%s%d" % (p, k)
    if p == "v":
        if sh is None:
            return "v%d" % k
        if sh == WILD:
            sh = "d"
        lanes = o.get("lanes")
        lanes = str(lanes) if lanes not in (None, WILD) else A64_LANES.get(sh, "")
        return "v%d.%s%s" % (k, lanes, sh)
    if p == "z":
        if sh is None:
            return "z%d" % k
        return "z%d.%s" % (k, "d" if sh == WILD else sh)
    if p == "p":
        pred = o.get("predication")
        if pred not in (None, WILD):
            return "p%d/%s" % (k % 8, pred)
        if sh is None:
            return "p%d" % (k % 8)
        return "p%d.%s" % (k % 8, "d" if sh == WILD else sh)
    return "%s%d" % (p, k)


def _a64_mem(m, n):
    base = m.get("base")
    if isinstance(base, dict):
        base = base.get("prefix") or "x"
    bp = "x" if base in (WILD, None) else str(base)
    inner = "%s%d" % (bp, n + 10)
    idx = m.get("index")
    off = m.get("offset")
    post = m.get("post_indexed") is True
    pre = m.get("pre_indexed") is True
    if idx is not None and idx != WILD:
        ip = idx if isinstance(idx, str) else (idx.get("prefix") or "x")
        if ip == "z":
            inner += ", z%d.d" % (n + 3)
        else:
            inner += ", %s%d" % ("x" if ip in (WILD, "gpr") else ip, n + 3)
        if m.get("scale") not in (1, None):
            inner += ", lsl #3"
    elif off in ("imd", WILD) or (isinstance(off, dict) and off.get("class") == "immediate"):
        if not post:
            inner += ", #16"
    elif isinstance(off, dict) and off.get("class") == "identifier":
        inner += ", lbl"
    s = "[" + inner + "]"
    if pre:
        s += "!"
    if post:
        s += ", #16"
    return s


def _a64_operand(o, n):
    c = o.get("class")
    if c == "register":
        return _a64_reg(o, n)
    if c == "memory":
        return _a64_mem(o, n)
    if c == "immediate":
        return {"int": "#1", "float": "#1.0e+0f", "double": "#1.0e+0", WILD: "#1"}.get(o.get("imd"), "#1")
    if c == "identifier":
        return ".L1"
    if c == "condition":
        cc = o.get("ccode")
        return "eq" if cc in (WILD, None) else str(cc).lower()
    if c == "prfop":
        t, tg, pol = o.get("type"), o.get("target"), o.get("policy")
        return "%s%s%s" % (
            "pld" if t in (WILD, None) else str(t).lower(),
            "l1" if tg in (WILD, None) else str(tg).lower(),
            "keep" if pol in (WILD, None) else str(pol).lower(),
        )
    return "?"


# ----------------------------------------------------------------------------------------------------------------


def render_desc(isa, mnemonic, ops):
    fn = _x86_operand if str(isa).lower() == "x86" else _a64_operand
    text = str(mnemonic).lower()
    if ops:
        text += " " + ", ".join(fn(o, n) for n, o in enumerate(ops))
    return text


def render(isa, form):
    """Assembly line for an osaca InstructionForm entry of a machine model / ISA DB."""
    m, ops = describe_form(form)
    return render_desc(isa, m, ops)


def render_dict(isa, entry, name=None):
    """Assembly line for the plain YAML dict of an entry (independent of osaca)."""
    m, ops = describe_dict(entry, name)
    return render_desc(isa, m, ops)
