"""Isolation of the OSACA run-time environment used by every check.

OSACA reads its model files through ``utils.DATA_DIRS`` whose first entry is
``~/.osaca/data`` and caches the converted model as a pickle next to the file it
found.  ``/repo/osaca/data/.*.pickle`` are git-ignored caches written by whatever
loader code was installed earlier, so a check that let OSACA read them would not
see a changed loader.  All checks therefore run OSACA with ``HOME`` pointing to a
scratch directory that holds *symlinks* to the non-empty model files of the tree
under test; the companion caches are then written next to the symlinks by the code
under test.  The directory name contains a hash over ``osaca/**/*.py`` so that any
source change starts from a cold cache.
"""
import fcntl
import hashlib
import os
import shutil
import subprocess
import sys
import time

VERIF = os.path.dirname(os.path.dirname(os.path.abspath(__file__)))
SCRATCH = os.environ.get("VERIF_SCRATCH", os.path.join(VERIF, ".scratch"))
PY = "/venv/bin/python"


def repo():
    return os.path.abspath(os.environ.get("VERIF_REPO", "/repo"))


def code_hash(repo_dir=None):
    repo_dir = repo_dir or repo()
    h = hashlib.sha256()
    h.update(repo_dir.encode())
    root = os.path.join(repo_dir, "osaca")
    for d, dirs, files in sorted(os.walk(root)):
        dirs.sort()
        for f in sorted(files):
            if f.endswith(".py"):
                p = os.path.join(d, f)
                h.update(os.path.relpath(p, root).encode())
                with open(p, "rb") as fh:
                    h.update(fh.read())
    return h.hexdigest()[:16]


def model_files(repo_dir=None):
    """(arch name, absolute path) of every non-empty shipped model; ISA DBs as isa/x86, isa/aarch64."""
    repo_dir = repo_dir or repo()
    data = os.path.join(repo_dir, "osaca", "data")
    out = []
    for f in sorted(os.listdir(data)):
        p = os.path.join(data, f)
        if f.endswith(".yml") and os.path.getsize(p) > 0:
            out.append((f[:-4], p))
    for f in sorted(os.listdir(os.path.join(data, "isa"))):
        p = os.path.join(data, "isa", f)
        if f.endswith(".yml") and os.path.getsize(p) > 0:
            out.append(("isa/" + f[:-4], p))
    return out


def arch_models(repo_dir=None):
    return [a for a, _ in model_files(repo_dir) if not a.startswith("isa/")]


X86_ARCHS = ["snb", "ivb", "hsw", "icl", "icx", "spr", "zen1", "zen2", "zen3", "zen4"]
A64_ARCHS = ["a64fx", "a72", "m1", "n1", "tsv110", "tx2", "v2"]


def isa_of(arch):
    return "x86" if arch.lower() in X86_ARCHS + ["bdw", "csx", "skx"] else "aarch64"


def archs_of(isa, repo_dir=None):
    av = set(arch_models(repo_dir))
    return [a for a in (X86_ARCHS if isa == "x86" else A64_ARCHS) if a in av]


def child_env(home, repo_dir=None, extra=None):
    repo_dir = repo_dir or repo()
    env = dict(os.environ)
    env["HOME"] = home
    env["PYTHONPATH"] = repo_dir + os.pathsep + VERIF
    env["PYTHONHASHSEED"] = "0"
    env["PYTHONPYCACHEPREFIX"] = os.path.join(home, "pyc")
    env["VERIF_REPO"] = repo_dir
    env["VERIF_HOME"] = home
    env.pop("PYTHONSTARTUP", None)
    # the sandbox sets PYTHONDONTWRITEBYTECODE=1; with the pycache prefix below that would recompile every
    # third-party import in every subprocess (2.6 s instead of 0.5 s per start)
    env.pop("PYTHONDONTWRITEBYTECODE", None)
    if extra:
        env.update(extra)
    return env


def make_home(path, repo_dir=None, files=None):
    """Create a HOME skeleton at ``path`` with ~/.osaca/data symlinks to the model files."""
    repo_dir = repo_dir or repo()
    d = os.path.join(path, ".osaca", "data")
    os.makedirs(os.path.join(d, "isa"), exist_ok=True)
    for a, p in files or model_files(repo_dir):
        link = os.path.join(d, a + ".yml")
        if os.path.islink(link) or os.path.exists(link):
            os.unlink(link)
        os.symlink(p, link)
    return path


_WARM = r"""
import sys
from osaca.semantics import MachineModel
import osaca.utils as u
for a in sys.argv[1:]:
    MachineModel(path_to_yaml=u.find_datafile(a + ".yml"))
"""


def ensure_home(repo_dir=None, quiet=False, warm=True):
    """Return the scratch HOME for the tree under test; create and warm it serially per file if needed."""
    repo_dir = repo_dir or repo()
    if not warm:
        # checks that never load a machine model (parsers, register relation) only need the directory
        home = os.path.join(SCRATCH, "home-" + code_hash(repo_dir))
        if not os.path.isdir(os.path.join(home, ".osaca", "data")):
            os.makedirs(SCRATCH, exist_ok=True)
            make_home(home, repo_dir)
        return home
    os.makedirs(SCRATCH, exist_ok=True)
    ch = code_hash(repo_dir)
    home = os.path.join(SCRATCH, "home-" + ch)
    lock = open(os.path.join(SCRATCH, ".lock"), "w")
    fcntl.flock(lock, fcntl.LOCK_EX)
    try:
        stamp = os.path.join(home, ".warm")
        files = model_files(repo_dir)
        want = hashlib.sha256(
            "".join(a + str(os.path.getmtime(p)) + str(os.path.getsize(p)) for a, p in files).encode()
        ).hexdigest()
        if os.path.exists(stamp) and open(stamp).read() == want:
            return home
        # garbage-collect scratch homes of other code versions (keep disk use bounded)
        for d in os.listdir(SCRATCH):
            if d.startswith("home-") and d != "home-" + ch:
                p = os.path.join(SCRATCH, d)
                try:
                    if time.time() - os.path.getmtime(p) > 6 * 3600:
                        shutil.rmtree(p, ignore_errors=True)
                except OSError:
                    pass
        make_home(home, repo_dir, files)
        # stale companion pickles of older model contents
        t0 = time.time()
        # one process per model file: different cache files, so no two writers on one file
        procs = []
        env = child_env(home, repo_dir)
        for a, _ in files:
            procs.append(
                (a, subprocess.Popen([PY, "-c", _WARM, a], env=env, stdout=subprocess.PIPE, stderr=subprocess.PIPE))
            )
        bad = []
        for a, p in procs:
            out, err = p.communicate(timeout=900)
            if p.returncode != 0:
                bad.append((a, err.decode()[-400:]))
        if bad:
            # a model that cannot even be loaded is reported by the checks themselves (C15/C17)
            if not quiet:
                print("isolate: warm-up failed for", [b[0] for b in bad], file=sys.stderr)
                for b in bad:
                    print(b[1], file=sys.stderr)
        else:
            with open(stamp, "w") as f:
                f.write(want)
        if not quiet:
            print("isolate: warmed %d model caches in %.1fs under %s" % (len(files), time.time() - t0, home), file=sys.stderr)
        return home
    finally:
        fcntl.flock(lock, fcntl.LOCK_UN)
        lock.close()


if __name__ == "__main__":
    print(ensure_home())
