"""OSACA text report -> structured cells.

The parser is built from the *header line of each report*: the port header of the 'Combined Analysis Report'
(``     |  0   - 0DV  |  1   | ... ||  CP  | LCD  |``) gives, for every port, the character span of its column;
every kernel row is sliced by these spans (shifted by the position of the row's first ``|`` so that line numbers of
five or more digits do not matter).  Nothing about widths, the number of ports or which separators are blank is
assumed.  Cells are returned as the literal text shown (``""`` for a blank cell); ``cell_value`` turns a cell into
(value, half a unit of its last shown digit).

Structural surprises are never guessed around: they are listed in ``problems`` (report level) or ``row["problems"]``
so that the caller can decide (C13 reports them as ``layout/...``).
"""
import re

NUM = r"-?(?:\d+\.?\d*(?:[eE][-+]?\d+)?|\.\d+|inf|nan)"
NUM_RE = re.compile(r"^%s$" % NUM)

TITLE_COMBINED = "Combined Analysis Report"
TITLE_LCD = "Loop-Carried Dependencies Analysis Report"
W_ARCH = "WARNING: No micro-architecture was specified"
W_LENGTH = "WARNING: You are analyzing a large amount of instruction forms"
W_LCD = "WARNING: LCD analysis timed out"
W_MISSING = re.compile(r"WARNING: The performance data for (\d+) instructions is missing\.")


def cell_value(cell):
    """'12.50' -> (12.5, 0.005); '3.0' -> (3.0, 0.05); '7' -> (7.0, 0.5); blank/non-numeric -> None."""
    c = cell.strip()
    if not c or not NUM_RE.match(c):
        return None
    v = float(c)
    mant = re.split(r"[eE]", c)[0]
    dec = len(mant.split(".")[1]) if "." in mant else 0
    exp = int(re.split(r"[eE]", c)[1]) if re.search(r"[eE]", c) else 0
    return v, 0.5 * 10.0 ** (exp - dec)


def agrees(cell, value, eps=1e-9):
    """Does the shown cell equal ``value`` at the cell's own precision?  None when the cell is not a number."""
    cv = cell_value(cell)
    if cv is None:
        return None
    try:
        value = float(value)
    except (TypeError, ValueError):
        return False
    if value != value or cv[0] != cv[0]:
        return (value != value) and (cv[0] != cv[0])
    return abs(cv[0] - value) <= cv[1] + eps


def _header_columns(line):
    """Split the port header line.  Returns (first_bar, ports, tail) with ports = [(name, start, end, sepchar)].

    ``start:end`` is the span between two separators (exclusive), ``sepchar`` the separator that closes the column
    ('|' or '-').  ``tail`` is the index of the '|' that opens the CP column (directly after the closing '|' of the
    last port)."""
    first = line.find("|")
    if first < 0:
        return None
    m = re.search(r"\|\|\s*CP\s*\|\s*LCD\s*\|\s*$", line)
    if not m:
        return None
    end_ports = m.start()  # index of the '|' closing the last port column
    ports = []
    pos = first + 1
    body = line[: end_ports + 1]
    while pos <= end_ports:
        nxt = None
        for j in range(pos, end_ports + 1):
            if body[j] in "|-":
                nxt = j
                break
        if nxt is None:
            return None
        name = body[pos:nxt].strip()
        ports.append((name, pos, nxt, body[nxt]))
        pos = nxt + 1
    return first, ports, end_ports + 1


def _parse_row(row, first, ports, problems):
    m = re.match(r"^\s*(\d+) \|", row)
    if not m:
        return None
    out = {"line_number": int(m.group(1)), "cells": {}, "problems": [], "raw": row}
    shift = (m.end() - 1) - first
    for name, s, e, sep in ports:
        s2, e2 = s + shift, e + shift
        cell = row[s2:e2]
        sepch = row[e2 : e2 + 1]
        txt = cell.strip()
        if txt and not NUM_RE.match(txt):
            out["problems"].append("port %s: cell %r is not one number" % (name, cell))
        if sepch not in ("|", " "):
            out["problems"].append("port %s: %r where a column separator is expected" % (name, sepch))
        elif sep == "|" and sepch != "|":
            # a value may not straddle a visible column border
            out["problems"].append("port %s: no '|' under the header's '|'" % name)
        if cell[:1] not in ("", " ") or cell[-1:] not in ("", " "):
            out["problems"].append("port %s: cell %r touches its separators" % (name, cell))
        out["cells"][name] = txt
    last_end = ports[-1][2] + shift  # closing '|' of the last port
    rest = row[last_end + 1 :]
    parts = rest.split("|", 3)
    if len(parts) < 4 or parts[0] != "":
        out["problems"].append("no '|| CP | LCD |' block after the port columns: %r" % rest[:40])
        out.update(cp="", lcd="", flags="", text=rest)
        return out
    out["cp"] = parts[1].strip()
    out["lcd"] = parts[2].strip()
    for nm in ("cp", "lcd"):
        if out[nm] and not NUM_RE.match(out[nm]):
            out["problems"].append("%s cell %r is not one number" % (nm.upper(), out[nm]))
    tail = parts[3]
    # ' ' + flags + ' ' + text ; flags is ' ' for "none"
    if not tail.startswith(" "):
        out["problems"].append("flag field malformed: %r" % tail[:20])
        out.update(flags="", text=tail.strip())
        return out
    if tail[1:2] == " ":
        out["flags"] = ""
        out["text"] = tail[3:] if tail[2:3] == " " else tail[2:]
    else:
        k = tail.find(" ", 1)
        if k < 0:
            out["flags"], out["text"] = tail[1:], ""
        else:
            out["flags"], out["text"] = tail[1:k], tail[k + 1 :]
    return out


def _parse_summary(line, first, ports):
    """The totals row is built with blank separators and without column clipping (a total may be wider than its
    column, and a total printed by the fall-back format is followed by two instead of three separator characters).
    It is therefore read by *token positions*: the last two numbers are the CP and LCD totals; walking over the ports,
    a number belongs to port i when it starts at a position where cell i can start (after a number: its end + 2 or + 3;
    after a blank cell: the previous start + column width + 3), otherwise cell i is blank."""
    out = {"ports": {}, "cp": "", "lcd": "", "problems": [], "raw": line}
    toks = [(m.start(), m.group()) for m in re.finditer(r"\S+", line)]
    if len(toks) < 2 or not all(NUM_RE.match(t) for _, t in toks):
        out["problems"].append("totals row is not a list of numbers")
        return out
    out["cp"], out["lcd"] = toks[-2][1], toks[-1][1]
    toks = toks[:-2]
    cand = {first + 2}
    ti = 0
    for name, s, e, sep in ports:
        width = (e - s) - 2
        if ti < len(toks) and toks[ti][0] in cand:
            st, tx = toks[ti]
            out["ports"][name] = tx
            cand = {st + len(tx) + 2, st + len(tx) + 3}
            ti += 1
        else:
            if ti < len(toks) and all(c > toks[ti][0] for c in cand):
                out["problems"].append("number %r at column %d is not at the start of a port cell (port %s next)"
                                       % (toks[ti][1], toks[ti][0], name))
                return out
            out["ports"][name] = ""
            cand = {c + width + 3 for c in cand}
    if ti != len(toks):
        out["problems"].append("%d numbers could not be attributed to a port: %r" % (len(toks) - ti, [t for _, t in toks[ti:]]))
    return out


_LCD_ROW = re.compile(r"^\s*(\d+) \|\s*(%s) \| (.*)\| \[([\d, ]*)\]\s*$" % NUM)


def parse_report(text):
    lines = text.split("\n")
    rep = {
        "header": {},
        "arch_warning": False,
        "length_warning": False,
        "lcd_warning": False,
        "missing_warning": None,
        "ports": [],
        "rows": [],
        "summary": None,
        "lcd_list": [],
        "problems": [],
        "has_combined": False,
        "has_lcd_section": False,
    }
    P = rep["problems"]
    try:
        ic = lines.index(TITLE_COMBINED)
    except ValueError:
        P.append("no '%s' section" % TITLE_COMBINED)
        return rep
    rep["has_combined"] = True
    for l in lines[:ic]:
        m = re.match(r"^(Analyzed file|Architecture|Timestamp):\s*(.*)$", l)
        if m and m.group(1) not in rep["header"]:
            rep["header"][m.group(1)] = m.group(2).strip()
        m = re.match(r"^Open Source Architecture Code Analyzer \(OSACA\) - (\S+)", l)
        if m:
            rep["header"]["Version"] = m.group(1)
        if W_ARCH in l and l.startswith("-"):
            rep["arch_warning"] = True
        if W_LENGTH in l and l.startswith("-"):
            rep["length_warning"] = True
    # port header = first line after the title that contains '|'
    ih = None
    for j in range(ic + 1, min(ic + 6, len(lines))):
        if "|" in lines[j]:
            ih = j
            break
    if ih is None:
        P.append("no port header line")
        return rep
    hc = _header_columns(lines[ih])
    if hc is None:
        P.append("port header line not understood: %r" % lines[ih])
        return rep
    first, ports, tail = hc
    rep["ports"] = [p[0] for p in ports]
    rep["port_spans"] = [(p[1], p[2], p[3]) for p in ports]
    if len(set(rep["ports"])) != len(rep["ports"]) or any(not n for n in rep["ports"]):
        P.append("port header has empty or repeated names: %r" % rep["ports"])
    if ih + 1 >= len(lines) or set(lines[ih + 1]) != {"-"}:
        P.append("no dashed line under the port header")
    j = ih + 2
    while j < len(lines) and lines[j].strip() != "":
        r = _parse_row(lines[j], first, ports, P)
        if r is None:
            P.append("line in the kernel table is not a row: %r" % lines[j][:80])
        else:
            rep["rows"].append(r)
        j += 1
    # region between the table and the LCD list
    try:
        il = lines.index(TITLE_LCD, j)
    except ValueError:
        il = len(lines)
        P.append("no '%s' section" % TITLE_LCD)
    else:
        rep["has_lcd_section"] = True
    k = j
    while k < il:
        l = lines[k]
        m = W_MISSING.search(l)
        if m and l.startswith("-"):
            if rep["missing_warning"] is not None:
                P.append("missing-instruction warning printed twice")
            rep["missing_warning"] = int(m.group(1))
            k += 5
            continue
        if W_LCD in l and l.startswith("-"):
            rep["lcd_warning"] = True
            k += 6
            continue
        if l.strip():
            toks = l.split()
            if l.startswith(" ") and all(NUM_RE.match(t) for t in toks):
                if rep["summary"] is not None:
                    P.append("two totals rows")
                rep["summary"] = _parse_summary(l, first, ports)
            else:
                P.append("unexpected line between table and LCD list: %r" % l[:80])
        k += 1
    if rep["has_lcd_section"]:
        k = il + 1
        if k < len(lines) and set(lines[k]) == {"-"}:
            k += 1
        else:
            P.append("no dashed line under the LCD title")
        while k < len(lines):
            l = lines[k]
            k += 1
            if not l.strip():
                continue
            m = _LCD_ROW.match(l)
            if not m:
                P.append("LCD list line not understood: %r" % l[:100])
                continue
            members = [int(x) for x in m.group(4).replace(" ", "").split(",") if x != ""]
            rep["lcd_list"].append(
                {"line_number": int(m.group(1)), "latency": m.group(2), "text": m.group(3).rstrip(), "members": members}
            )
    return rep
