"""C02 Optimised schedule never worse than uniform and close to the true optimum.

Monitors as in C01 (snapshots after add_semantics and after each assign_optimal_throughput pass); oracle: R-sched exact
fractional optimum (max over port sets S of cycles confined to S / |S|, minimised over alternative assignments).
"""
import itertools
import os
import random

from .. import gen_model, isolate, ref_sched, sched_workload as W
from ..common import EPS, STEP, CaseTimeout, Result, digest, time_limit
from . import c01

LEVEL = "exploration"
RULE = (
    "(c) bounded family enumerated completely in both tiers: 3 ports, one single-micro-op form per non-empty port subset with 1 and "
    "with 2 cycles, every ordered kernel of length <= 4 (<= 3 when a 2-cycle form occurs) = 5355 kernels, CLI configuration "
    "(two passes) within 0.15 of the exact optimum; three further bounded families are enumerated completely as well and held to the "
    "same bound, which the unchanged tree meets on all of them: B 4 ports, single-micro-op forms, length <= 3 (4305 kernels); C 3 ports, "
    "1-cycle single-micro-op forms plus two-micro-op forms on disjoint port sets, length <= 3 (7239); D 4 ports, three 2-cycle "
    "single-port forms plus one arbitrary form in every position (6912); (a)(b) on C01's random workload (synthetic models, shipped-model streams): "
    "optimised <= uniform + 0.01 and optimised >= optimum - tolerance. Non-trivial: uniform bottleneck exceeds the optimum by "
    "more than 0.05 (there is something to balance); distinct by digest of (model, kernel)"
)
ASSUMPTIONS = [
    "bottleneck = max over ports of get_throughput_sum (rounded to 0.01 by the code under test)",
    "the statement's own bounded family is the 3-port one (A); B-D are additions of this check (same bound, complete enumeration)",
    "undercut tolerance: 0.01 + sum of C01's per-instruction tolerances; an undercut is attributed to C01's known finding only when "
    "C01's own classifier fires with exactly that key on the same kernel",
]
EXHAUSTIVE = {"quick": True, "thorough": True}
SHARD_TIMEOUT = {"quick": 600, "thorough": 3600}
FAMILY_GAP = 0.15


def floors(tier):
    f = {"family_kernels": 5355, "family_len4": 2401, "family_2cycle": 2555, "evaluations": 5355 + (300 if tier == "quick" else 4000),
         "distinct_nontrivial": 1500, "rand:synth": 200 if tier == "quick" else 3000, "rand:shipped": 60 if tier == "quick" else 1000,
         "check_a": 5600, "check_b": 5600, "familyB_kernels": 4305, "familyC_kernels": 7239, "familyD_kernels": 6912}
    return f


def family_kernels(fam="A"):
    """Forms (lists of micro-ops [cycles, port string]) and kernels (tuples of form indices) of a bounded family.

    A: the family of the statement - 3 ports, one single-micro-op form per non-empty port subset with 1 and 2 cycles, every
       ordered kernel of length <= 4 (<= 3 with 2-cycle forms): 5355 kernels.
    B: 4 ports, single-micro-op forms as in A, every ordered kernel of length <= 3 (length 3 with 1-cycle forms only): 4305.
    D: 4 ports, forms of B, kernels of length 4 made of three 2-cycle single-port forms and one arbitrary form: 6912.
    C: 3 ports, 1-cycle single-micro-op forms plus every two-micro-op form on two disjoint port sets (both orders of the
       micro-ops), every ordered kernel of length <= 3: 7239."""
    ports = "0123" if fam in ("B", "D") else "012"
    subsets = []
    for k in range(1, len(ports) + 1):
        subsets += ["".join(c) for c in itertools.combinations(ports, k)]
    if fam == "C":
        forms = [[[1, s]] for s in subsets]
        forms += [[[1, s1], [1, s2]] for s1 in subsets for s2 in subsets if not set(s1) & set(s2)]
    else:
        forms = [[[c, s]] for c in (1, 2) for s in subsets]
    if fam == "D":
        # 4 ports as in B; kernels of length 4: three 2-cycle single-port forms (they saturate up to three ports) and one
        # arbitrary form, in every position
        forms = [[[c, s]] for c in (1, 2) for s in subsets]
        heavy = [i for i, f in enumerate(forms) if f[0][0] == 2 and len(f[0][1]) == 1]
        seen = set()
        for trio in itertools.product(heavy, repeat=3):
            for x in range(len(forms)):
                for pos in range(4):
                    seen.add(trio[:pos] + (x,) + trio[pos:])
        return forms, sorted(seen), list(ports)
    out = []
    for n in ((1, 2, 3, 4) if fam == "A" else (1, 2, 3)):
        for combo in itertools.product(range(len(forms)), repeat=n):
            two = any(forms[i][0][0] == 2 for i in combo)
            if n == (4 if fam == "A" else 3) and two:
                continue
            out.append(combo)
    return forms, out, list(ports)


def family_model(fam="A"):
    forms, _, ports = family_kernels(fam)
    m = gen_model.base_model("x86", ports)
    for i, uops in enumerate(forms):
        m["instruction_forms"].append({"name": "fam%da" % i, "operands": gen_model.x86_reg_ops(2),
                                       "throughput": max(c / len(s) for c, s in uops), "latency": 1,
                                       "port_pressure": [[c, s] for c, s in uops], "uops": len(uops)})
    return m, forms


def plan(tier, seed):
    specs = []
    nfam = 12
    for i in range(nfam):
        specs.append({"kind": "family", "part": i, "parts": nfam})
    # two more bounded families, enumerated completely as well (a fourth port; two micro-ops on disjoint port sets)
    for fam in ("B", "C", "D"):
        for i in range(nfam):
            specs.append({"kind": "family", "part": i, "parts": nfam, "fam": fam})
    if tier == "quick":
        for i in range(6):
            specs.append({"kind": "synth", "models": 14, "kernels": 4})
        for a in ["zen1", "zen2", "spr", "tx2", "v2", "a64fx"]:
            specs.append({"kind": "shipped", "arch": a, "kernels": 20})
    else:
        for i in range(24):
            specs.append({"kind": "synth", "models": 50, "kernels": 6})
        for a in isolate.arch_models():
            specs.append({"kind": "shipped", "arch": a, "kernels": 80})
    return specs


def bottleneck(ev):
    return max(ev[2]) if ev[2] else 0.0


def summed_choices(evs, expected):
    """Per summed instruction the admissible micro-op lists."""
    ch = []
    for i, s in enumerate(evs["uniform"][1]):
        if s["mnemonic"] is None or s["throughput"] == 0.0 or expected[i] is None:
            continue
        ch.append([a for a in expected[i]])
    return ch


def judge(ports, evs, expected, tables, R, case, family=False):
    ch = summed_choices(evs, expected)
    opt = ref_sched.optimum_with_alternatives(ch)
    if opt is None:
        R.count("optimum_not_computed")
        return False
    uni = bottleneck(evs["uniform"])
    # per instruction C01's tolerance of the alternative with the most (micro-op, port) pairs - whichever one the optimiser chose
    tol_b = STEP + sum(max(c01.instr_tol(alt) for alt in a) for a in ch) + EPS
    nontrivial = uni > opt + 0.05
    for cfg in ("once", "twice"):
        b = bottleneck(evs[cfg])
        R.count("check_a")
        # uniform with alternatives uses the first alternative; the optimiser may choose another one, never a worse bottleneck
        if b > uni + STEP + EPS:
            R.violation("worse-than-uniform/" + cfg, "%s bottleneck %.3f > uniform %.3f" % (cfg, b, uni), dict(case, cfg=cfg))
        R.count("check_b")
        if b < opt - tol_b:
            # infeasible split: is it exactly C01's known mechanism?
            probe = Result()
            c01.judge_kernel(ports, evs, expected, tables, probe, case)
            keys = set(probe.witness_counts)
            if cfg == "twice" and keys == {"second-pass-overlapping-portsets"}:
                key = "undercut/second-pass-overlapping-portsets"
            else:
                key = "undercut/" + cfg
            R.violation(key, "%s bottleneck %.3f undercuts the exact optimum %.3f (tolerance %.3f)" % (cfg, b, opt, tol_b), dict(case, cfg=cfg))
    if family:
        b = bottleneck(evs["twice"])
        R.observe("family_gap_x100", int(round(abs(b - opt) * 100)))
        if abs(b - opt) > FAMILY_GAP + EPS:
            R.violation("family-gap", "bounded family: reported bottleneck %.3f, exact optimum %.3f (gap %.3f > %.2f)" % (b, opt, abs(b - opt), FAMILY_GAP), case)
    return nontrivial


def run_family(spec, R, mon):
    """The bounded family goes through the real CLI entry point (osaca.osaca.run -> inspect), because the statement is about the
    *reported* bottleneck: the family model is placed as csx.yml in a private data directory that is searched first."""
    import osaca.utils as utils

    fam = spec.get("fam", "A")
    tag = "family" if fam == "A" else "family" + fam
    m, forms = family_model(fam)
    m["arch_code"] = "CSX"
    _, kernels, fports = family_kernels(fam)
    text = gen_model.model_yaml(m)
    with gen_model.ScratchDir("c02") as d:
        with open(os.path.join(d, "csx.yml"), "w") as f:
            f.write(text)
        old_dirs = list(utils.DATA_DIRS)
        utils.DATA_DIRS.insert(0, d)
        try:
            kfile = os.path.join(d, "k.s")
            for idx, combo in enumerate(kernels):
                if idx % spec["parts"] != spec["part"]:
                    continue
                ktext = "".join("fam%da %%r%d, %%r%d\n" % (i, 8 + j, 12 + (j % 4)) for j, i in enumerate(combo))
                case = {"kind": "family", "fam": fam, "combo": list(combo)}
                with open(kfile, "w") as f:
                    f.write(ktext)
                mon.take()
                try:
                    W.run_cli(["--arch", "csx", "--lcd-timeout", "-1", kfile])
                except Exception as e:  # noqa
                    R.exception(e, case)
                    R.case()
                    continue
                ev = mon.take()
                if not ev or ev[0][0] != "uniform" or len(ev) < 2:
                    R.violation("cli/no-optimisation", "default CLI run performed %r" % [e[0] for e in ev], case)
                    R.case()
                    continue
                R.count("family_cli_passes:%d" % (len(ev) - 1))
                evs = {"uniform": ev[0], "once": ev[1], "twice": ev[-1]}
                expected = [[ref_sched.norm_uops([[c, sx] for c, sx in forms[i]])] for i in combo]
                nt = judge(fports, evs, expected, None, R, case, family=True)
                R.case(digest([tag, combo]), nontrivial=nt)
                R.count(tag + "_kernels")
                if len(combo) == 4:
                    R.count("family_len4")
                if fam == "A" and any(forms[i][0][0] == 2 for i in combo):
                    R.count("family_2cycle")
                if idx % 997 == 0:
                    R.sample({"kind": tag, "kernel": [forms[i] for i in combo],
                              "uniform": bottleneck(evs["uniform"]), "reported": bottleneck(evs["twice"]),
                              "optimum": ref_sched.optimum_with_alternatives(summed_choices(evs, expected))}, limit=3)
        finally:
            utils.DATA_DIRS[:] = old_dirs


def run_synth(spec, R, mon):
    from osaca.parser import get_parser
    from osaca.semantics import ArchSemantics, MachineModel

    rng = random.Random(spec["seed"])
    with gen_model.ScratchDir("c02s") as d:
        for mi in range(spec["models"]):
            isa = "x86" if rng.random() < 0.7 else "aarch64"
            mseed = rng.getrandbits(48)
            mrng = random.Random(mseed)
            m, meta = gen_model.port_model(mrng, isa)
            text = gen_model.model_yaml(m)
            path = os.path.join(d, "m%d.yml" % mi)
            with open(path, "w") as f:
                f.write(text)
            mm = MachineModel(path_to_yaml=path)
            sem = ArchSemantics(mm)
            parser = get_parser(isa)
            by = {f["name"]: f for f in meta}
            for k in range(spec["kernels"]):
                ktext, names = W.synth_kernel_text(mrng, meta, isa)
                case = {"kind": "synth", "isa": isa, "model_yaml": text, "kernel": ktext, "model_seed": mseed}
                try:
                    with time_limit(60):
                        evs = W.three_configs(sem, parser, ktext, mon)
                except CaseTimeout:
                    R.inconclusive += 1
                    R.case()
                    continue
                except Exception as e:  # noqa
                    R.exception(e, case)
                    R.case()
                    continue
                nt = judge(m["ports"], evs, c01.expected_from_meta(by, names), None, R, case)
                R.case(digest([text, ktext]), nontrivial=nt)
                R.count("rand:synth")
            MachineModel._runtime_cache.pop(path, None)
            for fn in os.listdir(d):
                os.unlink(os.path.join(d, fn))


def run_shipped(spec, R, mon):
    from osaca.parser import get_parser
    from osaca.semantics import ArchSemantics, MachineModel

    arch = spec["arch"]
    rng = random.Random(spec["seed"])
    mm = MachineModel(arch=arch)
    isa = mm.get_ISA()
    sem = ArchSemantics(mm)
    parser = get_parser(isa)
    entries = W.regonly_entries(mm, isa)
    tables = W.model_tables(mm)
    ports = list(mm.get_ports())
    for k in range(spec["kernels"]):
        ktext = W.shipped_stream_text(rng, entries, isa)
        case = {"kind": "shipped", "arch": arch, "kernel": ktext}
        try:
            with time_limit(60):
                evs = W.three_configs(sem, parser, ktext, mon)
        except CaseTimeout:
            R.inconclusive += 1
            R.case()
            continue
        except Exception as e:  # noqa
            R.exception(e, case)
            R.case()
            continue
        probe = Result()
        exp = c01.expected_from_observation(mm, evs, probe, case)
        nt = judge(ports, evs, exp, tables, R, case)
        R.case(digest([arch, ktext]), nontrivial=nt)
        R.count("rand:shipped")
        if k == 0:
            R.sample({"kind": "shipped", "arch": arch, "kernel": ktext.strip().split("\n")[:5], "uniform": bottleneck(evs["uniform"]),
                      "once": bottleneck(evs["once"]), "twice": bottleneck(evs["twice"])}, limit=4)


def run_shard(spec, R):
    mon = W.SchedMonitor()
    try:
        {"family": run_family, "synth": run_synth, "shipped": run_shipped}[spec["kind"]](spec, R, mon)
    finally:
        mon.close()
    for k, v in mon.mon.calls.items():
        R.count("monitor:" + k, v)


def replay(case, R):
    from osaca.parser import get_parser
    from osaca.semantics import ArchSemantics, MachineModel

    mon = W.SchedMonitor()
    try:
        with gen_model.ScratchDir("c02r") as d:
            if case["kind"] == "family":
                _, kernels, _ = family_kernels(case.get("fam", "A"))
                idx = kernels.index(tuple(case["combo"]))
                run_family({"parts": len(kernels), "part": idx, "fam": case.get("fam", "A")}, R, mon)
                return
            elif case["kind"] == "synth":
                mrng = random.Random(case["model_seed"])
                m, meta = gen_model.port_model(mrng, case["isa"])
                path = os.path.join(d, "m.yml")
                open(path, "w").write(case["model_yaml"])
                mm = MachineModel(path_to_yaml=path)
                by = {f["name"]: f for f in meta}
                names = [l.split()[0] for l in case["kernel"].strip().split("\n")]
                evs = W.three_configs(ArchSemantics(mm), get_parser(case["isa"]), case["kernel"], mon)
                judge(m["ports"], evs, c01.expected_from_meta(by, names), None, R, case)
            else:
                mm = MachineModel(arch=case["arch"])
                evs = W.three_configs(ArchSemantics(mm), get_parser(mm.get_ISA()), case["kernel"], mon)
                exp = c01.expected_from_observation(mm, evs, Result(), case)
                judge(list(mm.get_ports()), evs, exp, W.model_tables(mm), R, case)
            R.case()
    finally:
        mon.close()
