"""C20 Benchmark import snaps measurements and emits every imported form.

Monitor: the real ``osaca.db_interface.import_benchmark_output(arch, bench, file, output=stream)`` (in-process; a
share through the true CLI ``osaca --arch A --import BENCH FILE`` in-process and as a subprocess) is run on generated
ibench / asmbench output files.  Observation point: the emitted stream, parsed back as plain YAML text with
ruamel's safe loader (nothing of osaca).  Oracle: written from the statement and README.rst "Benchmark import".

Verdict per imported form
    * the form appears (mnemonic compared case-insensitively, entry key ``name`` or ``mnemonic``), exactly once when
      its mnemonic is new to the target model, with every operand decoded per the README code table;
    * throughput: 1/n (n=1..10) when the measurement is within 4.7 % of 1/n (both readings of "5 %": relative to the
      reciprocal and relative to the measurement), null when it is more than 5.6 % away from every 1/n, either in the
      band between (DON'T-CARE);  latency: the same with the nearest integer;
    * a value for which no line was given stays null (nothing invented);
    * ibench: the TP and LT lines of one form end up in ONE entry carrying both values;
    * asmbench: a malformed block (4th line of the block not blank / missing) stops the import there - all forms of
      earlier blocks appear with their values, nothing of later blocks appears (the bad block itself: don't care).
"""
import collections
import io
import json
import math
import os
import random
import re
import subprocess
import tempfile
import warnings

from .. import entry_render as er
from .. import isolate
from ..common import digest, time_limit, CaseTimeout

LEVEL = "exploration"
RULE = (
    "one case = one generated benchmark file (1-6 forms) imported into zen1 (x86) / tx2 / n1 (AArch64) as ibench or "
    "asmbench; form names random over all documented operand codes of the ISA (r x y z i m[b][o][i][s] / "
    "w x b h s d q v[bhsd] i m[b][o][i][s][r][p]), mnemonics fresh or already in the model, lower or UPPER case, "
    "with or without the letters TP / LT; measurements exact, inside, at the edge of, in the don't-care band of and "
    "outside the snapping windows of every 1/n (n=1..10) and of integers 1..40; ibench line orders TP/LT, LT/TP, "
    "interleaved, TP-only, LT-only; asmbench files intact or with one corrupted block (blank line replaced, deleted, "
    "extra line inserted, final blank line missing); non-trivial = every case (each file has >=1 form with a "
    "decidable expectation); distinct = digest of the file text, arch and bench type"
)
ASSUMPTIONS = [
    "the emitted stream is judged as YAML text read with ruamel.yaml's safe loader; an imported entry may carry its "
    "mnemonic under 'name' or 'mnemonic', compared case-insensitively",
    "'within 5%' is read as: snapping required within 4.7 % (relative to reciprocal/integer AND to the measurement), "
    "null required beyond 5.6 % (both readings), anything between is don't-care",
    "the snapped throughput may be rounded (|value - 1/n| <= 1e-4 accepted); latency whose nearest integer is 0 is don't-care",
    "every import starts from a fresh model: MachineModel._runtime_cache is cleared before each in-process import "
    "(a fresh CLI process has an empty one)",
    "operand checks are presence checks (base/offset/index non-null iff the letter is given, scale > 1 iff 's', "
    "pre/post-indexing iff 'r'/'p'); the immediate type and the concrete base/index names are not judged",
    "memory codes are generated in the README's letter order, 's' only together with 'i'",
]
EXHAUSTIVE = {"quick": False, "thorough": False}
SHARD_TIMEOUT = {"quick": 300, "thorough": 1500}

TARGETS = [("zen1", "x86"), ("tx2", "aarch64"), ("n1", "aarch64")]

FRESH = ["qfoo", "zzmul", "xnewop", "vfrob", "wadd2", "ymix", "knop3", "gblend", "hshuf", "jxor"]
# mnemonics containing the letters TP / LT (real ones and made up), used in lower and upper case
TPLT_X86 = ["cvtps2pd", "vcvtps2pd", "cvtpd2ps", "vcvtph2ps", "cvttps2dq", "vtestpd", "vtestps", "pslldq", "vpcmpltd", "hltx", "qtpq", "qltq", "vpmultp"]
TPLT_A64 = ["stp", "ldtp", "fcmlt", "cmlt", "sqshltp", "qtpq", "qltq", "fcvtps"]


# ----------------------------------------------------------------------------------------------------------------
# oracle


def tp_expectation(m):
    """(must, may): must = required value (float), 'null', or None when open; may = set of acceptable values."""
    strict, loose = [], []
    for n in range(1, 11):
        r = 1.0 / n
        d = abs(m - r)
        rel_r = d / r
        rel_m = d / m if m > 0 else float("inf")
        if max(rel_r, rel_m) <= 0.047:
            strict.append(r)
        if min(rel_r, rel_m) <= 0.056:
            loose.append(r)
    if len(strict) == 1:
        return strict[0], [strict[0]]
    if not loose:
        return "null", ["null"]
    return None, loose + ["null"]


def lt_expectation(m):
    lo, hi = math.floor(m), math.ceil(m)
    cands = sorted(set([lo, hi]))
    near = [c for c in cands if abs(m - c) == min(abs(m - x) for x in cands)]
    if m == 0:
        return 0.0, [0.0]  # a measured 0 cycles (eliminated move, zeroing idiom) is the integer 0 exactly
    if 0 in near or m <= 0:
        return None, [float(c) for c in cands] + ["null"]
    strict = [c for c in near if max(abs(m - c) / c, abs(m - c) / m) <= 0.047]
    if len(near) == 1 and strict:
        return float(near[0]), [float(near[0])]
    loose = [c for c in cands if c > 0 and min(abs(m - c) / c, abs(m - c) / m) <= 0.056]
    if not loose:
        return "null", ["null"]
    return None, [float(c) for c in loose] + ["null"]


def value_ok(got, must, may, tol):
    """got: None or number."""
    g = "null" if got is None else got
    if must is not None:
        if must == "null":
            return g == "null"
        return g != "null" and _num(g) and abs(g - must) <= tol
    for v in may:
        if v == "null":
            if g == "null":
                return True
        elif g != "null" and _num(g) and abs(g - v) <= tol:
            return True
    return False


def _num(v):
    return isinstance(v, (int, float)) and not isinstance(v, bool)


def is_reg(d):
    return d.get("class") == "register" or ("class" not in d and ("regtype" in d or "prefix" in d) and "base" not in d)


def is_imm(d):
    return d.get("class") == "immediate" or ("class" not in d and "imd_type" in d)


def is_mem(d):
    return d.get("class") == "memory" or ("class" not in d and "base" in d and "index" in d)


def present(v):
    return v is not None


def operand_matches(isa, code, d):
    """Does the emitted operand dict ``d`` decode the documented operand ``code``?"""
    if not isinstance(d, dict):
        return False
    if code == "i":
        return is_imm(d)
    if code.startswith("m"):
        if not is_mem(d):
            return False
        f = code[1:]
        if present(d.get("base")) != ("b" in f) or present(d.get("offset")) != ("o" in f) or present(d.get("index")) != ("i" in f):
            return False
        sc = d.get("scale")
        big = _num(sc) and sc > 1
        if big != ("s" in f):
            return False
        if isa == "aarch64":
            if bool(d.get("pre_indexed")) != ("r" in f) or bool(d.get("post_indexed")) != ("p" in f):
                return False
        return True
    if not is_reg(d):
        return False
    if isa == "x86":
        want = {"r": "gpr", "x": "xmm", "y": "ymm", "z": "zmm"}[code]
        return d.get("name") == want
    if code.startswith("v"):
        return d.get("prefix") == "v" and d.get("shape") == (code[1:] or "d")
    return d.get("prefix") == code and d.get("shape") in (None, "") and code in "wxbhsdq"


def entry_mnemonic(e):
    n = e.get("mnemonic") if "mnemonic" in e else e.get("name")
    return str(n).upper() if n is not None else None


# ----------------------------------------------------------------------------------------------------------------
# workload


def gen_code(rnd, isa):
    k = rnd.random()
    if isa == "x86":
        if k < 0.55:
            return rnd.choice("rxyz")
        if k < 0.65:
            return "i"
        flags = "".join(c for c in "boi" if rnd.random() < 0.6)
        if "i" in flags and rnd.random() < 0.5:
            flags += "s"
        return "m" + flags
    if k < 0.45:
        return rnd.choice("wxbhsdq")
    if k < 0.65:
        return "v" + rnd.choice(["", "b", "h", "s", "d"])
    if k < 0.73:
        return "i"
    flags = "".join(c for c in "boi" if rnd.random() < 0.6)
    if "i" in flags and rnd.random() < 0.5:
        flags += "s"
    r = rnd.random()
    if r < 0.2:
        flags += "r"
    elif r < 0.4:
        flags += "p"
    elif r < 0.45:
        flags += "rp"
    return "m" + flags


def gen_measure(rnd, kind):
    """(text value, class)"""
    cls = rnd.choice(["exact", "inside", "edge-in", "band", "edge-out", "far", "inside", "exact"])
    if kind == "tp":
        n = rnd.randint(1, 10)
        base = 1.0 / n
    else:
        base = float(rnd.choice([1, 1, 2, 2, 3, 3, 4, 4, 5, 6, 7, 8, 9, 10, 11, 12, 14, 17, 20, 23, 31, 40]))
    sign = rnd.choice([-1, 1])
    if cls == "exact":
        m = base
    elif cls == "inside":
        m = base * (1 + sign * rnd.uniform(0.0, 0.04))
    elif cls == "edge-in":
        m = base * (1 + sign * rnd.uniform(0.040, 0.0465))
    elif cls == "band":
        m = base * (1 + sign * rnd.uniform(0.0475, 0.0555))
    elif cls == "edge-out":
        m = base * (1 + sign * rnd.uniform(0.057, 0.09))
    else:
        if kind == "tp":
            m = rnd.choice([1 / 11, 1 / 12, 1 / 16, 0.07, 0.0, 1.2, 1.5, 2.0, 3.0, 0.62, 0.41, 0.29, 0.225, 0.18, 0.155, 0.75, 0.0851])
        else:
            m = rnd.choice([1.5, 2.5, 1.3, 2.3, 3.4, 4.5, 5.5, 6.4, 7.5, 8.5, 9.5, 1.2, 1.8, 2.75, 0.8, 0.6, 0.0, 0.0, 0.0])
            if m == 0.0:
                cls = "zero"
    digits = rnd.choice([3, 3, 4, 5])
    return ("%." + str(digits) + "f") % m, cls


def model_index(arch):
    """Independent view of the target model: {MNEMONIC: set(arities)}."""
    import ruamel.yaml

    path = dict(isolate.model_files())[arch]
    with open(path) as f:
        doc = ruamel.yaml.YAML(typ="safe", pure=True).load(f.read())
    idx = {}
    for e in doc["instruction_forms"]:
        for n in er.names_of(e):
            idx.setdefault(n.upper(), set()).add(len(e.get("operands") or []))
    return idx


def gen_case(rnd, arch, isa, idx, bench):
    nforms = rnd.choice([1, 2, 2, 3, 3, 4, 6])
    forms = []
    used = set()
    existing = sorted(idx)
    tries = 0
    while len(forms) < nforms and tries < 100:
        tries += 1
        k = rnd.random()
        if k < 0.40:
            mn, mclass = rnd.choice(FRESH) + rnd.choice(["", "a", "b2", "q"]), "fresh"
        elif k < 0.60:
            mn, mclass = rnd.choice(TPLT_X86 if isa == "x86" else TPLT_A64), "tplt"
        elif k < 0.85:
            mn, mclass = rnd.choice(existing).lower(), "existing"
        else:
            # same mnemonic as an earlier form of this file
            if not forms:
                continue
            mn, mclass = forms[rnd.randrange(len(forms))]["mnemonic"].lower(), "repeat"
        if "-" in mn or "_" in mn or ":" in mn or " " in mn or not mn:
            continue
        if rnd.random() < 0.4:
            mn = mn.upper()
        if mclass == "existing" and rnd.random() < 0.7 and idx[mn.upper()] - {0}:
            nops = rnd.choice(sorted(idx[mn.upper()] - {0}))
        else:
            nops = rnd.choice([1, 2, 2, 3, 3, 4])
        codes = [gen_code(rnd, isa) for _ in range(nops)]
        name = mn + "-" + "_".join(codes)
        if name.upper() in used:
            continue
        used.add(name.upper())
        tp_text, tp_cls = gen_measure(rnd, "tp")
        lt_text, lt_cls = gen_measure(rnd, "lt")
        forms.append({"mnemonic": mn, "codes": codes, "name": name, "tp": tp_text, "lt": lt_text, "tp_class": tp_cls, "lt_class": lt_cls, "mclass": mclass})
    case = {"arch": arch, "isa": isa, "bench": bench, "forms": forms}
    if bench == "ibench":
        for f in forms:
            f["lines"] = rnd.choice(["TP,LT", "TP,LT", "TP,LT", "LT,TP", "TP", "LT"])
        order = rnd.choice(["grouped", "grouped", "interleaved"])
        case["order"] = order
        case["header"] = rnd.random() < 0.7
    else:
        case["corrupt"] = None
        if rnd.random() < 0.45:
            j = rnd.randrange(len(forms))
            kind = rnd.choice(["blank-replaced", "blank-deleted", "line-inserted", "final-blank-missing"])
            if kind == "final-blank-missing":
                j = len(forms) - 1
            elif kind == "blank-deleted" and j == len(forms) - 1:
                kind = "blank-replaced"
            case["corrupt"] = {"kind": kind, "block": j}
            # the corrupted and all later blocks carry unique fresh mnemonics so that their absence is decidable
            for q in range(j, len(forms)):
                f = forms[q]
                f["mnemonic"] = ("zq%d%s" % (q, rnd.choice(["nop", "op", "TPX", "mix"])))
                f["mclass"] = "fresh"
                f["name"] = f["mnemonic"] + "-" + "_".join(f["codes"])
        case["unit"] = rnd.choice(["cycles", "cycle", "cy"])
    case["text"] = file_text(case)
    return case


def file_text(case):
    forms = case["forms"]
    if case["bench"] == "ibench":
        lines = []
        if case.get("header"):
            lines.append("Using frequency 2.50GHz.")

        def ln(f, which):
            v = f["tp"] if which == "TP" else f["lt"]
            return "%s-%s:%s%s (clock cycles)%s[DEBUG - result: 1.000000]" % (f["name"], which, " " * 4, v, " " * 4)

        if case.get("order") == "interleaved":
            first, second = [], []
            for f in forms:
                w = f["lines"].split(",")
                first.append(ln(f, w[0]))
                if len(w) > 1:
                    second.append(ln(f, w[1]))
            lines += first + second
        else:
            for f in forms:
                for w in f["lines"].split(","):
                    lines.append(ln(f, w))
        return "\n".join(lines) + "\n"
    out = []
    c = case.get("corrupt")
    for j, f in enumerate(forms):
        block = [f["name"], "Latency: %s %s" % (f["lt"], case["unit"]), "Throughput: %s %s" % (f["tp"], case["unit"]), ""]
        if c and c["block"] == j:
            if c["kind"] == "blank-replaced":
                block[3] = "# end of measurement"
            elif c["kind"] == "blank-deleted":
                block = block[:3]
            elif c["kind"] == "line-inserted":
                block = ["measuring next instruction form"] + block
            elif c["kind"] == "final-blank-missing":
                block = block[:3]
        out += block
    return "\n".join(out) + ("\n" if out else "")


# ----------------------------------------------------------------------------------------------------------------
# driving the real import


def reset_runtime_cache():
    from osaca.semantics import MachineModel

    MachineModel._runtime_cache.clear()


def do_import(case, path, mode):
    """Returns the emitted text; exceptions of the code under test propagate."""
    reset_runtime_cache()
    if mode == "api":
        from osaca.db_interface import import_benchmark_output

        out = io.StringIO()
        import_benchmark_output(case["arch"], case["bench"], path, output=out)
        return out.getvalue()
    if mode == "cli":
        import osaca.osaca as oo

        parser = oo.create_parser()
        args = parser.parse_args(["--arch", case["arch"].upper(), "--import", case["bench"], path])
        out = io.StringIO()
        try:
            oo.check_arguments(args, parser)
            oo.run(args, output_file=out)
        finally:
            args.file.close()
        return out.getvalue()
    p = subprocess.run([isolate.PY, "-W", "ignore", "-m", "osaca", "--arch", case["arch"].upper(), "--import", case["bench"], path],
                       capture_output=True, text=True, timeout=300)
    if p.returncode != 0:
        raise SubprocessFailure(p.returncode, p.stderr[-600:])
    return p.stdout


class SubprocessFailure(Exception):
    def __init__(self, rc, err):
        super().__init__("exit %d: %s" % (rc, err))
        self.rc = rc
        self.err = err


ENTRY_KEY = re.compile(r"^(?:- |  )(?:name|mnemonic): *(.*?) *$", re.M)


def parse_stream(text, wanted):
    """Emitted stream -> (entries whose mnemonic is in ``wanted`` parsed as YAML, Counter of all mnemonics).

    The stream is plain block-style YAML; the items of the top-level ``instruction_forms`` list start with '- ' in
    column 0.  Only the items whose name/mnemonic line matches a wanted mnemonic are handed to the YAML loader (the
    whole stream is ~50 kB per import and the pure-Python loader would dominate the run time); the other items are
    only counted.  Returns None when the stream has no instruction_forms list.
    """
    import ruamel.yaml

    i = text.find("\ninstruction_forms:")
    if i < 0:
        if not text.startswith("instruction_forms:"):
            return None
        i = -1
    body = text[i + 1:].split("\n")[1:]
    chunks, cur = [], None
    for line in body:
        if line.startswith("- "):
            cur = [line]
            chunks.append(cur)
        elif line.startswith(" ") or line == "":
            if cur is not None:
                cur.append(line)
        else:
            break  # next top-level key
    loader = ruamel.yaml.YAML(typ="safe", pure=True)
    entries, counts = [], collections.Counter()
    for ch in chunks:
        t = "\n".join(ch)
        m = ENTRY_KEY.search(t)
        mn = None
        if m:
            mn = m.group(1).strip("'\"").upper()
        counts[mn] += 1
        if mn in wanted or mn is None:
            doc = loader.load(t)
            if isinstance(doc, list) and doc and isinstance(doc[0], dict):
                entries.append(doc[0])
    return entries, counts


# ----------------------------------------------------------------------------------------------------------------
# judging one import


def overwritten_forms(case, idx):
    """Names of the imported forms that the recorded mechanism (import/x86-existing-mnemonic-arity-lost) overwrites.

    A replay of the precondition only, on plain data: forms are taken in the order of their first line in the file; per
    (upper-case mnemonic, operand count) there is one look-up slot, which exists from the start when the model has such an entry
    and is created by a new form only when that form is written in upper case (a new form is filed under its mnemonic as
    written, looked up under the upper-case one). A form that finds the slot takes it over; whatever imported form held it
    before is gone. A lower-case form that finds no slot is filed where no later look-up goes and stays."""
    c = case.get("corrupt")
    stop = c["block"] if c and c.get("kind") != "final-blank-missing" else None
    forms = [f for j, f in enumerate(case["forms"]) if stop is None or j < stop]

    def first_line(f):
        m = re.search(r"^" + re.escape(f["name"]) + r"(?![\w])", case["text"], re.M)
        return m.start() if m else 10 ** 9

    slot, lost = {}, set()
    for f in sorted(forms, key=first_line):
        key = (f["mnemonic"].upper(), len(f["codes"]))
        if key in slot or key[1] in idx.get(key[0], ()):
            if slot.get(key):
                lost.add(slot[key])
            slot[key] = f["name"]
        elif f["mnemonic"] == key[0]:
            slot[key] = f["name"]
    return lost


def classify(case, f, idx, default):
    """Mechanism key of a discrepancy on form ``f``."""
    up = f["mnemonic"].upper()
    arity = len(f["codes"])
    collide_model = arity in idx.get(up, ())
    # the collision mechanism has precise preconditions and is judged first: a TP/LT-containing mnemonic that collides with an
    # existing mnemonic/arity is lost for that reason, whatever its name
    if case["isa"] == "x86" and (collide_model or f["name"] in overwritten_forms(case, idx)) and default in ("missing-form", "throughput-snap", "latency-snap", "operand-decode"):
        return "import/x86-existing-mnemonic-arity-lost"
    if case["bench"] == "ibench" and "TP" in f["mnemonic"] and "LT" in f.get("lines", "") and default in ("throughput-snap", "latency-snap", "missing-form"):
        return "import/ibench-tp-lt-substring"
    if default == "missing-form" and case["isa"] != "x86" and (collide_model or any(
            g is not f and g["mnemonic"].upper() == up and len(g["codes"]) == arity for g in case["forms"])):
        return "import/%s-existing-mnemonic-arity-lost" % case["isa"]
    return "import/" + default


def judge(case, text, idx, R, mode):
    wit = {k: v for k, v in case.items()}
    wit["mode"] = mode
    parsed = parse_stream(text, set(f["mnemonic"].upper() for f in case["forms"]))
    if parsed is None:
        R.violation("import/stream-not-a-model", "emitted stream has no instruction_forms list (%d bytes)" % len(text), wit)
        return
    forms_out, counts = parsed
    R.count("emitted_entries_seen", sum(counts.values()))
    by_mn = {}
    for e in forms_out:
        by_mn.setdefault(entry_mnemonic(e), []).append(e)
    c = case.get("corrupt")
    stop = c["block"] if c else None
    for j, f in enumerate(case["forms"]):
        up = f["mnemonic"].upper()
        arity = len(f["codes"])
        same = [e for e in by_mn.get(up, []) if isinstance(e.get("operands"), list) and len(e["operands"]) == arity]
        cands = [e for e in same if all(operand_matches(case["isa"], code, d) for code, d in zip(f["codes"], e["operands"]))]
        if stop is not None and j >= stop:
            if j == stop:
                R.count("dont_care_bad_block")
                continue
            R.count("forms_after_bad_block")
            if by_mn.get(up):
                R.violation("import/asmbench-continued-after-bad-block", "%s: form %s of block %d appears although block %d is malformed (%s)" % (case["arch"], f["name"], j, stop, c["kind"]),
                            dict(wit, form=f["name"]))
            continue
        R.count("forms_judged")
        R.count("mclass:" + f["mclass"])
        R.count("case:" + ("upper" if f["mnemonic"].isupper() else "lower"))
        for code in f["codes"]:
            R.observe("operand_codes", case["isa"] + ":" + code)
        # expectations
        has_tp = case["bench"] == "asmbench" or "TP" in f["lines"].split(",")
        has_lt = case["bench"] == "asmbench" or "LT" in f["lines"].split(",")
        tp_must, tp_may = tp_expectation(float(f["tp"])) if has_tp else ("null", ["null"])
        lt_must, lt_may = lt_expectation(float(f["lt"])) if has_lt else ("null", ["null"])
        R.count("tp:" + ("no-line" if not has_tp else "dont-care" if tp_must is None else "must-null" if tp_must == "null" else "must-snap"))
        R.count("lt:" + ("no-line" if not has_lt else "dont-care" if lt_must is None else "must-null" if lt_must == "null" else "must-snap"))
        if has_lt and float(f["lt"]) == 0.0:
            R.count("lt_measured_zero")
        if has_tp and tp_must not in (None, "null"):
            R.observe("snapped_reciprocals", "1/%d" % round(1 / tp_must))
        fresh = up not in idx and not any(g is not f and g["mnemonic"].upper() == up for g in case["forms"])
        w = dict(wit, form=f["name"])
        if not cands:
            if same and fresh:
                R.violation(classify(case, f, idx, "operand-decode"), "%s %s: %s imported, operands emitted as %s" % (case["arch"], case["bench"], f["name"], json.dumps(same[0]["operands"], default=str)[:200]), w)
            else:
                R.violation(classify(case, f, idx, "missing-form"), "%s %s: imported form %s does not appear in the emitted model (%d entries with that mnemonic and arity)" % (case["arch"], case["bench"], f["name"], len(same)), w)
            continue
        if fresh and len(by_mn.get(up, [])) != 1:
            R.violation(classify(case, f, idx, "duplicate-form"), "%s %s: %s imported once, %d entries with that mnemonic emitted" % (case["arch"], case["bench"], f["name"], len(by_mn[up])), w)
            continue
        good = [e for e in cands if value_ok(e.get("throughput"), tp_must, tp_may, 1e-4) and value_ok(e.get("latency"), lt_must, lt_may, 1e-9)]
        if good:
            R.count("forms_ok")
            continue
        e = cands[0]
        tp_ok = any(value_ok(x.get("throughput"), tp_must, tp_may, 1e-4) for x in cands)
        lt_ok = any(value_ok(x.get("latency"), lt_must, lt_may, 1e-9) for x in cands)
        if not tp_ok:
            R.violation(classify(case, f, idx, "throughput-snap"), "%s %s: %s measured TP %s -> emitted throughput %r, expected %s (latency %r)" % (
                case["arch"], case["bench"], f["name"], f["tp"] if has_tp else "(no line)", e.get("throughput"), _exp(tp_must, tp_may), e.get("latency")), w)
        if not lt_ok:
            R.violation(classify(case, f, idx, "latency-snap"), "%s %s: %s measured LT %s -> emitted latency %r, expected %s (throughput %r)" % (
                case["arch"], case["bench"], f["name"], f["lt"] if has_lt else "(no line)", e.get("latency"), _exp(lt_must, lt_may), e.get("throughput")), w)
        if tp_ok and lt_ok:
            R.violation(classify(case, f, idx, "not-merged"), "%s %s: %s: no single entry carries both values (entries: %s)" % (
                case["arch"], case["bench"], f["name"], [(x.get("throughput"), x.get("latency")) for x in cands][:4]), w)


def _exp(must, may):
    return repr(must) if must is not None else "one of %r" % (may,)


def run_case(case, idx, R, mode):
    R.case(digest([case["arch"], case["bench"], case["text"], mode]), nontrivial=True)
    R.count("imports")
    R.count("bench:" + case["bench"])
    R.count("arch:" + case["arch"])
    R.count("mode:" + mode)
    if case.get("corrupt"):
        R.count("corrupt:" + case["corrupt"]["kind"])
    elif case["bench"] == "asmbench":
        R.count("corrupt:none")
    if case["bench"] == "ibench":
        R.count("order:" + case.get("order", "grouped"))
    wit = dict(case, mode=mode)
    with tempfile.TemporaryDirectory(prefix="c20-") as d:
        path = os.path.join(d, "bench.out")
        with open(path, "w") as fh:
            fh.write(case["text"])
        try:
            with warnings.catch_warnings():
                warnings.simplefilter("ignore")
                with time_limit(120):
                    text = do_import(case, path, mode)
        except CaseTimeout:
            R.inconclusive += 1
            return
        except subprocess.TimeoutExpired:
            R.inconclusive += 1
            return
        except SubprocessFailure as e:
            key = "import/cli-exit"
            if case.get("corrupt") and case["corrupt"]["kind"] == "final-blank-missing":
                key = "import/asmbench-final-blank-missing-crash"
            R.violation(key, "osaca --import exited %d: %s" % (e.rc, e.err[-200:]), wit)
            return
        except Exception as e:  # noqa
            from ..common import in_osaca

            if not in_osaca(e):
                raise
            if case.get("corrupt") and case["corrupt"]["kind"] == "final-blank-missing":
                R.violation("import/asmbench-final-blank-missing-crash", "asmbench file whose last block lacks the blank line: %s: %s instead of stopping at that block" % (type(e).__name__, str(e)[:100]), wit)
            else:
                R.exception(e, wit, prefix="import/")
            return
    judge(case, text, idx, R, mode)


# ----------------------------------------------------------------------------------------------------------------


def floors(tier):
    q = {
        "evaluations": 160, "distinct_nontrivial": 160, "forms_judged": 400, "forms_ok": 330,
        "bench:ibench": 60, "bench:asmbench": 60, "arch:zen1": 50, "arch:tx2": 50, "arch:n1": 50,
        "mode:api": 150, "mode:cli": 15, "mode:subprocess": 2,
        "tp:must-snap": 220, "tp:must-null": 70, "tp:dont-care": 35, "tp:no-line": 30,
        "lt:must-snap": 250, "lt:must-null": 50, "lt:dont-care": 25, "lt:no-line": 30,
        "mclass:fresh": 170, "mclass:existing": 100, "mclass:tplt": 80, "mclass:repeat": 25, "case:upper": 150, "case:lower": 250, "lt_measured_zero": 3,
        "corrupt:none": 45, "corrupt:blank-replaced": 4, "corrupt:blank-deleted": 4, "corrupt:line-inserted": 4, "corrupt:final-blank-missing": 4,
        "forms_after_bad_block": 15, "order:interleaved": 20, "order:grouped": 50,
    }
    if tier != "quick":
        q = {k: v * 20 for k, v in q.items()}
        q["mode:subprocess"] = 20
        q["mode:cli"] = 120
    q["set:operand_codes"] = 60 if tier == "quick" else 78
    q["set:snapped_reciprocals"] = 10
    return q


def plan(tier, seed):
    shards = 16 if tier == "quick" else 32
    per = 21 if tier == "quick" else 250
    specs = []
    for i in range(shards):
        specs.append({"n": per, "cli": 2 if tier == "quick" else 8, "subprocess": (1 if i < 4 else 0) if tier == "quick" else (2 if i < 20 else 0)})
    return specs


def run_shard(spec, R):
    rnd = random.Random(spec["seed"])
    indexes = {a: model_index(a) for a, _ in TARGETS}
    for i in range(spec["n"]):
        arch, isa = TARGETS[(i + spec["shard"]) % len(TARGETS)]
        bench = "ibench" if rnd.random() < 0.5 else "asmbench"
        case = gen_case(rnd, arch, isa, indexes[arch], bench)
        if not case["forms"]:
            continue
        if i < spec["subprocess"]:
            mode = "subprocess"
        elif i < spec["subprocess"] + spec["cli"]:
            mode = "cli"
        else:
            mode = "api"
        run_case(case, indexes[arch], R, mode)
        if i < 2 and spec["shard"] < 2:
            R.sample({"arch": arch, "bench": bench, "file": case["text"], "corrupt": case.get("corrupt")})


def replay(case, R):
    mode = case.get("mode", "api")
    c = {k: v for k, v in case.items() if k not in ("traceback", "mode", "form")}
    run_case(c, model_index(c["arch"]), R, mode)
