"""C16 LCD result is independent of process scheduling and worker count.

Monitor: the real KernelDG is run on the same kernel through its single-process path (threshold patched high) and through its
multi-process path (threshold patched to 1) with cpu_count patched to 1, 2, 3, 5, 16 and kernel length + 7; a wrapper on
KernelDG._extend_path, running inside each forked worker, injects seeded delays before and after the enumeration and logs the
completion order to an append-only file. Oracle: equality of the returned dictionaries (keys, members, latencies, order);
repeated true CLI runs are compared byte-wise apart from the timestamp line.
"""
import os
import random
import subprocess
import time

from .. import depgen as D
from .. import corpus, gen_model, isolate
from ..common import CaseTimeout, digest, time_limit
from . import c05

LEVEL = "exploration"
RULE = (
    "kernels around and above the 50-line threshold: generated dependency kernels (10-24 dense lines) padded with independent "
    "lines to 49/50/51/64/90 lines, unpadded ones (forced onto the multi-process path), padded shipped kernels, kernels with label/comment/directive lines, short kernels with a recurrence and independent by-passes (single- vs forced multi-process search); worker counts "
    "{1,2,3,5,16,len+7}; per worker seeded delays of 0-60 ms before and after its enumeration so that completion orders vary. "
    "Non-trivial: the kernel has >= 2 loop-carried dependencies and the run used >= 2 non-empty worker sections; distinct by "
    "digest of (kernel, worker count, delay seed). Evidence lists the distinct completion orders observed"
)
ASSUMPTIONS = [
    "fork start method; delays are injected only around (never inside) a worker's enumeration, i.e. at points where the real "
    "scheduler may also delay a worker",
    "complete searches only (timeout -1): with a timeout the result legitimately depends on timing (C19)",
]
SHARD_TIMEOUT = {"quick": 900, "thorough": 5400}
WORKERS = [1, 2, 3, 5, 16, "len+7"]


def floors(tier):
    q = tier == "quick"
    return {"evaluations": 100 if q else 1500, "distinct_nontrivial": 40 if q else 600, "parallel_runs": 100 if q else 1500,
            "set:completion_orders": 3, "workers:1": 5, "workers:2": 5, "workers:3": 5, "workers:5": 5, "workers:16": 5, "workers:len+7": 5,
            "cli_triples": 2 if q else 12, "len>=50": 6 if q else 100, "len=50": 2 if q else 30, "len=49": 2 if q else 30,
            "monitor:_extend_path_sections": 200 if q else 3000, "kernels_with_label_comment_directive_lines": 1 if q else 30, "small_dense_kernels": 30 if q else 500, "reconvergent_kernels": 8 if q else 150, "manypaths_kernels": 1 if q else 4, "manypaths_cycles": 1000 if q else 4000}


def plan(tier, seed):
    q = tier == "quick"
    specs = []
    for i in range(12 if q else 32):
        specs.append({"kind": "gen", "isa": "x86" if i % 2 == 0 else "aarch64", "kernels": 1 if q else 6, "delay_seeds": 2 if q else 6})
    # short, dense kernels (forking and re-joining chains): the single-process search is the one normally used for them, the
    # multi-process one is forced for comparison
    for i in range(4 if q else 16):
        specs.append({"kind": "gen", "isa": "x86" if i % 2 == 0 else "aarch64", "kernels": 10 if q else 40, "delay_seeds": 1, "small": True})
    # a recurrence with about a thousand cycles (every member is the root of hundreds of paths): result sets of that size
    for i in range(1 if q else 4):
        specs.append({"kind": "manypaths", "isa": "aarch64" if (i + seed) % 2 == 0 else "x86", "stages": 10})
    for i in range(2 if q else 6):
        specs.append({"kind": "cli", "isa": "x86" if i % 2 == 0 else "aarch64", "triples": 1 if q else 2})
    return specs


def dict_view(lcd):
    return [(k, [(d[0].line_number, round(float(d[1]), 6)) for d in v["dependencies"]], round(float(v["latency"]), 6), v["root"].line_number)
            for k, v in lcd.items()]


class WorkerProbe:
    """Wrapper installed on KernelDG._extend_path; executes inside each forked worker."""

    def __init__(self, logfile):
        from osaca.semantics import kernel_dg

        self.logfile = logfile
        self.KD = kernel_dg.KernelDG
        self.orig = self.KD._extend_path
        self.delay_seed = 0
        probe = self

        def wrapped(self_, dst_list, kernel, dg, offset):
            first = kernel[0].line_number if kernel else -1
            rng = random.Random("%s-%s" % (probe.delay_seed, first))
            time.sleep(rng.choice([0, 0, 0.005, 0.02, 0.06]))
            res = probe.orig(self_, dst_list, kernel, dg, offset)
            time.sleep(rng.choice([0, 0, 0.005, 0.02, 0.06]))
            fd = os.open(probe.logfile, os.O_WRONLY | os.O_APPEND | os.O_CREAT)
            os.write(fd, ("%d %d %d\n" % (first, len(kernel), os.getpid())).encode())
            os.close(fd)
            return res

        self.KD._extend_path = wrapped

    def take(self):
        try:
            with open(self.logfile) as f:
                lines = [l.split() for l in f.read().strip().split("\n") if l.strip()]
        except FileNotFoundError:
            lines = []
        open(self.logfile, "w").close()
        return [(int(a), int(b)) for a, b, c in lines]

    def close(self):
        self.KD._extend_path = self.orig


def make_kernel(krng, isa, vocab, target_len, extras=0):
    """Dense dependency core + independent filler lines (source-only forms) spread over the kernel.

    extras > 0: that many label / comment / directive lines are spread over the kernel in addition (they are kernel lines
    without an instruction) and a dependency-carrying line is the last one."""
    core = c05.dense_kernel(krng, isa, vocab, False)
    while len(core) < 10:
        core = core + c05.dense_kernel(krng, isa, vocab, False)
    core = core[:24]
    lines = [i["text"] for i in core]
    filler_forms = [v for v in vocab if v["name"] == "fw0a"]
    pool = D.Pool(krng, isa)
    while len(lines) < target_len - extras:
        f = D.instantiate(krng, isa, filler_forms[0], pool)
        lines.insert(krng.randint(0, len(lines)), f["text"])
    if extras:
        cm = "#" if isa == "x86" else "//"
        tail = lines[-1]
        for j in range(extras):
            x = krng.choice([".Lx%d:" % j, "%s note %d" % (cm, j), ".p2align 4"])
            lines.insert(krng.randint(0, len(lines) - 1), x)
        if tail.startswith("fw0a"):
            # a line of the dependency core goes last
            k = max(i for i, l in enumerate(lines) if not l.startswith(("fw0a", ".", cm)))
            lines.append(lines.pop(k))
    return lines


def reconvergent_kernel(krng, isa, vocab):
    """A recurrence with independent by-passes that re-join at different instructions (u = f(acc); b = f(acc, u); v = f(b);
    acc = f(b, v) and a second stage of the same kind): several cycles share prefixes and differ in the by-passes taken.
    Built from one register-only form of the vocabulary; None when the vocabulary has no usable form."""
    cands = []
    for v in vocab:
        ops = v["ops"]
        if not ops or any(o["kind"] != "reg" for o in ops) or v["zero"] or v["name"][:2] in ("hr", "hn", "fw", "fr") or len(set(o["cls"] for o in ops)) != 1:
            continue
        dsts = [j for j, o in enumerate(ops) if "d" in o["role"]]
        pure = [j for j, o in enumerate(ops) if o["role"] == "s"]
        if len(dsts) != 1 or not pure:
            continue
        if len(pure) >= 2 or ops[dsts[0]]["role"] == "sd":
            cands.append((v, dsts[0], pure))
    if not cands:
        return None
    form, dj, pure = krng.choice(cands)
    cls = form["ops"][0]["cls"]
    if isa == "x86":
        names = (["rax", "rbx", "rcx", "rdx", "rsi", "rdi", "r8", "r9", "r10", "r11"] if cls == "g" else ["xmm%d" % i for i in range(10)])
    else:
        names = (["x%d" % i for i in range(10)] if cls == "g" else ["d%d" % i for i in range(10)])
    krng.shuffle(names)
    acc, u, b, v, w, k1, k2 = names[:7]
    out = []

    def assign(dst, srcs):
        if len(pure) >= 2:
            groups = [srcs]
        else:
            groups = [[x] for x in srcs]  # one source per instruction, the destination is read as well ('sd')
        for g in groups:
            regs, it = [], 0
            for j, o in enumerate(form["ops"]):
                if j == dj:
                    regs.append(dst)
                else:
                    regs.append(g[it % len(g)])
                    it += 1
            out.append(D.instantiate(krng, isa, form, None, regs=regs)["text"])

    assign(u, [acc, k1])
    assign(b, [acc, u])
    assign(v, [b, k2])
    if krng.random() < 0.5:
        assign(w, [b, v])
        assign(acc, [w, v])
    else:
        assign(acc, [b, v])
    return out


def run_lcd(isa, path, ipath, arch, text, threshold, ncores):
    from osaca.parser import get_parser
    from osaca.semantics import ArchSemantics, MachineModel, kernel_dg

    parser = get_parser(isa)
    forms = parser.parse_file(text)
    mm = MachineModel(arch=arch) if arch else MachineModel(path_to_yaml=path)
    sem = ArchSemantics(mm, path_to_yaml=ipath) if ipath else ArchSemantics(mm)
    sem.add_semantics(forms)
    old_thr, old_cc = kernel_dg.KernelDG.INSTRUCTION_THRESHOLD, kernel_dg.cpu_count
    kernel_dg.KernelDG.INSTRUCTION_THRESHOLD = threshold
    if ncores is not None:
        kernel_dg.cpu_count = lambda: ncores
    try:
        dg = kernel_dg.KernelDG(forms, parser, mm, sem, -1, False)
    finally:
        kernel_dg.KernelDG.INSTRUCTION_THRESHOLD = old_thr
        kernel_dg.cpu_count = old_cc
    return dict_view(dg.get_loopcarried_dependencies()), dg.timed_out, len(forms)


TARGETS = [50, 0, 49, 51, 64, 90]


def gen_case(isa, vocab, path, ipath, mseed, kseed, delay_seeds, probe, R, target=None, small=False):
    krng = random.Random(kseed)
    if target is None:
        target = krng.choice(TARGETS)
    extras = krng.choice([0, 0, 3, 5, 9]) if target else 0
    if small:
        extras = 0
        lines = reconvergent_kernel(krng, isa, vocab) if krng.random() < 0.5 else None
        if lines:
            R.count("reconvergent_kernels")
            # a few unrelated lines around it
            more = [i["text"] for i in c05.dense_kernel(krng, isa, vocab, False)][: krng.randint(0, 4)]
            lines = more[: len(more) // 2] + lines + more[len(more) // 2:]
        else:
            lines = [i["text"] for i in c05.dense_kernel(krng, isa, vocab, False)][:16]
        R.count("small_dense_kernels")
    else:
        lines = make_kernel(krng, isa, vocab, target, extras)
    text = "\n".join(lines) + "\n"
    n = len(lines)
    if extras:
        R.count("kernels_with_label_comment_directive_lines")
    base_case = {"kind": "gen", "isa": isa, "model_seed": mseed, "kernel_seed": kseed, "lines": n, "target": target, "small": small}
    try:
        with time_limit(300):
            seq, _, nforms = run_lcd(isa, path, ipath, None, text, 10 ** 9, None)
            if nforms != n:
                raise RuntimeError("harness: %d parsed lines for %d kernel lines" % (nforms, n))
            probe.take()
            if n >= 50:
                R.count("len>=50")
            R.count("len=%d" % n if n in (49, 50, 51) else "len:other")
            for w in (WORKERS if not small else [2, 16]):
                nc = n + 7 if w == "len+7" else w
                for ds in range(delay_seeds):
                    probe.delay_seed = "%s-%s-%s" % (kseed, w, ds)
                    par, timed_out, _ = run_lcd(isa, path, ipath, None, text, 1, nc)
                    order = probe.take()
                    R.count("parallel_runs")
                    R.count("workers:%s" % w)
                    R.count("monitor:_extend_path_sections", len(order))
                    case = dict(base_case, workers=nc, delay_seed=ds)
                    nonempty = [o for o in order if o[1] > 0]
                    R.observe("completion_orders", "w=%s:" % w + ",".join(str(o[0]) for o in nonempty)[:80] if len(nonempty) <= 16 else "w=%s:(%d sections)" % (w, len(nonempty)))
                    if timed_out:
                        R.violation("timed-out-without-timeout", "timed_out set although the timeout is -1", case)
                    sections = sorted(o[0] for o in nonempty)
                    if sum(o[1] for o in order) != n:
                        R.violation("sections/do-not-partition-the-kernel", "worker sections cover %d of %d lines: %s" % (sum(o[1] for o in order), n, sorted(order)), case)
                    if par != seq:
                        R.violation(diff_key(seq, par), "multi-process search with %d workers differs from the single-process search: %s" % (nc, diff_text(seq, par)), case)
                    R.case(digest([text, w, ds]), nontrivial=(len(seq) >= 2 and len(nonempty) >= 2))
    except CaseTimeout:
        R.inconclusive += 1
        R.case()
        return
    except Exception as e:  # noqa
        R.exception(e, base_case)
        R.case()
        return
    R.sample({"isa": isa, "lines": n, "lcds": len(seq), "first": seq[:2]}, limit=3)


def diff_key(seq, par):
    sk, pk = [s[0] for s in seq], [p[0] for p in par]
    if sorted(sk) != sorted(pk):
        return "parallel/lost-cycles" if set(pk) < set(sk) else "parallel/extra-cycles" if set(sk) < set(pk) else "parallel/different-cycles"
    if sk != pk:
        return "parallel/different-order"
    return "parallel/different-latencies-or-members"


def diff_text(seq, par):
    sk, pk = [s[0] for s in seq], [p[0] for p in par]
    return "sequential %d entries, parallel %d; only sequential %s; only parallel %s; order equal: %s" % (
        len(seq), len(par), sorted(set(sk) - set(pk))[:4], sorted(set(pk) - set(sk))[:4], sk == pk)


def run_gen(spec, R):
    from osaca.semantics import MachineModel

    rng = random.Random(spec["seed"])
    isa = spec["isa"]
    with gen_model.ScratchDir("c16") as d:
        probe = WorkerProbe(os.path.join(d, "workers.log"))
        try:
            for k in range(spec["kernels"]):
                mseed = rng.getrandbits(48)
                mrng = random.Random(mseed)
                m, isa_db, vocab = D.dep_model(mrng, isa)
                path, ipath = os.path.join(d, "m%d.yml" % k), os.path.join(d, "i%d.yml" % k)
                open(path, "w").write(gen_model.model_yaml(m))
                open(ipath, "w").write(gen_model.model_yaml(isa_db))
                gen_case(isa, vocab, path, ipath, mseed, mrng.getrandbits(48), spec["delay_seeds"], probe, R,
                         target=TARGETS[(spec["shard"] // 2 + k) % len(TARGETS)], small=bool(spec.get("small")))
                MachineModel._runtime_cache.pop(path, None)
                MachineModel._runtime_cache.pop(ipath, None)
        finally:
            probe.close()


def norm_report(text):
    return "\n".join(l for l in text.split("\n") if not l.startswith("Timestamp:"))


def run_cli(spec, R):
    """Three true CLI runs of the same command on a kernel of >= 50 lines: byte-identical apart from the timestamp line."""
    rng = random.Random(spec["seed"])
    isa = spec["isa"]
    arch = "zen2" if isa == "x86" else "tx2"
    vocab = D.curated_vocab(isa)
    with gen_model.ScratchDir("c16cli") as d:
        for t in range(spec["triples"]):
            krng = random.Random(rng.getrandbits(48))
            pool = D.Pool(krng, isa, ng=6, nv=4)
            lines = [D.instantiate_curated(krng, isa, krng.choice(vocab), pool)["text"] for _ in range(krng.choice([50, 55, 70]))]
            fn = os.path.join(d, "k%d.s" % t)
            open(fn, "w").write("\n".join(lines) + "\n")
            case = {"kind": "cli", "arch": arch, "kernel": "\n".join(lines)}
            outs = []
            for rep in range(3):
                try:
                    p = subprocess.run([isolate.PY, "-m", "osaca", "--arch", arch, "--lcd-timeout", "-1", "--ignore-unknown", fn],
                                       capture_output=True, text=True, timeout=600)
                except subprocess.TimeoutExpired:
                    R.inconclusive += 1
                    outs = None
                    break
                if p.returncode != 0:
                    R.violation("cli/exit-%d" % p.returncode, p.stderr[-300:], case)
                    outs = None
                    break
                outs.append(norm_report(p.stdout))
            R.case(digest(["cli", arch, lines]), nontrivial=True)
            if outs is None:
                continue
            R.count("cli_triples")
            if not (outs[0] == outs[1] == outs[2]):
                R.violation("cli/repeated-runs-differ", "three runs of the same command give different reports", case)
            if "Loop-Carried Dependencies Analysis Report" not in outs[0]:
                R.violation("cli/no-lcd-report", "report has no LCD section", case)


def manypaths_kernel(isa, stages, total=50):
    L = []
    for i in range(stages):
        if isa == "aarch64":
            L += ["fadd d0, d1, d2", "fadd d1, d0, d9", "fmul d2, d0, d8"]
        else:
            L += ["vaddsd %xmm1, %xmm2, %xmm0", "vaddsd %xmm0, %xmm9, %xmm1", "vmulsd %xmm0, %xmm8, %xmm2"]
    k = 0
    while len(L) < total:
        L.insert((k * 7) % len(L), ("add x%d, x20, x21" % (3 + k % 5)) if isa == "aarch64" else ("leaq (%%r12,%%r13), %%r%d" % (8 + k % 4)))
        k += 1
    return "\n".join(L) + "\n"


def run_manypaths(spec, R):
    isa = spec["isa"]
    arch = "tx2" if isa == "aarch64" else "zen2"
    text = manypaths_kernel(isa, spec["stages"])
    case = {"kind": "manypaths", "isa": isa, "arch": arch, "stages": spec["stages"]}
    try:
        with time_limit(420):
            seq, _, n = run_lcd(isa, None, None, arch, text, 10 ** 9, None)
            par, timed_out, _ = run_lcd(isa, None, None, arch, text, 1, 16)
    except CaseTimeout:
        R.inconclusive += 1
        R.case()
        return
    except Exception as e:  # noqa
        R.exception(e, case)
        R.case()
        return
    R.count("manypaths_kernels")
    R.count("manypaths_cycles", len(seq))
    R.count("parallel_runs")
    if timed_out:
        R.violation("timed-out-without-timeout", "timed_out set although the timeout is -1", case)
    if par != seq:
        R.violation(diff_key(seq, par), "multi-process search with 16 workers differs from the single-process search on a recurrence with %d cycles: %s"
                    % (len(seq), diff_text(seq, par)), case)
    R.case(digest(["manypaths", isa, spec["stages"]]), nontrivial=len(seq) >= 2)


def run_shard(spec, R):
    {"gen": run_gen, "cli": run_cli, "manypaths": run_manypaths}[spec["kind"]](spec, R)


def replay(case, R):
    from osaca.semantics import MachineModel

    if case["kind"] == "manypaths":
        run_manypaths(case, R)
        return
    if case["kind"] != "gen":
        R.count("replay_cli_not_supported")
        return
    isa = case["isa"]
    with gen_model.ScratchDir("c16r") as d:
        probe = WorkerProbe(os.path.join(d, "workers.log"))
        try:
            mrng = random.Random(case["model_seed"])
            m, isa_db, vocab = D.dep_model(mrng, isa)
            path, ipath = os.path.join(d, "m.yml"), os.path.join(d, "i.yml")
            open(path, "w").write(gen_model.model_yaml(m))
            open(ipath, "w").write(gen_model.model_yaml(isa_db))
            gen_case(isa, vocab, path, ipath, case["model_seed"], case["kernel_seed"], 2, probe, R, target=case.get("target"), small=bool(case.get("small")))
        finally:
            probe.close()
