"""C07 Instruction-form lookup is sound and complete for operand kinds.

Monitor: every MachineModel.get_instruction(name, operands) result on instructions that went through the real parser;
the semantic layer's fall-back chain is observed through ArchSemantics.assign_tp_lt (flags + which entry supplied the data).
Oracle: R-match (vf/ref_match.py) on plain descriptors: the entry pattern as written in the YAML and the AST the
instruction text was rendered from.
"""
import copy
import os
import random

from .. import gen_lookup as G
from .. import gen_model, isolate, ref_match as RM
from ..common import digest

LEVEL = "exploration"
RULE = (
    "(a) synthetic models: per mnemonic 1-5 entries with random operand patterns over all operand kinds, wildcards, duplicates, "
    "generalising/shadowing entries, multi-name entries, names in random case; instructions = concretisations of every entry plus "
    "near misses (one operand moved to a neighbouring kind, operand added/removed, mnemonic with/without size/.cond suffix), text "
    "rendered with random layout and parsed by the real parser; (b) every entry of every shipped arch model and both ISA DBs "
    "(YAML parsed independently), instruction rendered from the entry's own pattern. Non-trivial: the mnemonic has >= 2 entries or "
    "the case is a near miss; distinct by digest of (entry patterns of the mnemonic, instruction kinds)"
)
ASSUMPTIONS = [
    "R-match table of DESIGN.md section 2 (DON'T-CARE for k/segment registers against 'gpr', explicit register names, bare vector "
    "registers against shaped entries and vice versa, entry fields outside the vocabulary)",
    "lookup order for mnemonics that also occur in multi-name entries is OSACA's (split entries are appended) - such shadowing is not generated",
    "shipped models: entries are mapped to the loaded objects by position (singles in file order, then the split multi-name entries)",
]
SHARD_TIMEOUT = {"quick": 600, "thorough": 3600}
LAT_TAG = 1000


def floors(tier):
    q = tier == "quick"
    return {"evaluations": 6000 if q else 60000, "distinct_nontrivial": 1500 if q else 10000, "direct_lookups": 5000 if q else 50000,
            "semantic_path": 800 if q else 8000, "shipped_entries": 3000 if q else 12000, "verdict:MUST": 3000 if q else 30000,
            "verdict:none_expected": 800 if q else 8000, "nearmiss": 2000 if q else 20000, "fallback_used": 50 if q else 500,
            "monitor:get_instruction": 6000 if q else 60000, "isa:x86": 1, "isa:aarch64": 1}


def plan(tier, seed):
    specs = []
    q = tier == "quick"
    for i in range(16 if q else 32):
        specs.append({"kind": "synth", "models": 3 if q else 30, "isa": "x86" if i % 2 == 0 else "aarch64"})
    files = isolate.model_files()
    for a, p in files:
        specs.append({"kind": "shipped", "arch": a, "every": 3 if q else 1, "size": os.path.getsize(p)})
    specs.sort(key=lambda s: -s.get("size", 0))
    return specs


# ---------------------------------------------------------------- synthetic models

def generalise(isa, ops, rng):
    out = copy.deepcopy(ops)
    for o in out:
        if rng.random() < 0.5:
            if o["class"] == "register":
                if isa == "x86":
                    o["name"] = "*"
                else:
                    if "shape" in o and rng.random() < 0.6:
                        o["shape"] = "*"
                    else:
                        o["prefix"] = "*"
            elif o["class"] == "memory":
                for f in ("base", "offset", "index", "scale"):
                    if rng.random() < 0.5:
                        o[f] = "*"
                if isa == "aarch64":
                    for f in ("pre_indexed", "post_indexed"):
                        if rng.random() < 0.5:
                            o[f] = "*"
            elif o["class"] == "immediate" and isa == "aarch64":
                o["imd"] = "*"
            elif o["class"] == "condition":
                o["ccode"] = "*"
    return out


def lookup_model(rng, isa):
    """Returns (model dict, groups) ; groups: {NAME_UPPER: [global entry index, ...] in lookup order}, entries: list of operand patterns."""
    ports = ["0", "1"]
    m = gen_model.base_model(isa, ports)
    if isa == "x86":
        m["load_latency"] = {k: 4 for k in ("gpr", "mm", "xmm", "ymm", "zmm", "k")}
    else:
        m["load_latency"] = {k: 4 for k in "wxbhsdqvzp"}
    m["load_throughput_default"] = [[1, "0"]]
    m["store_throughput_default"] = [[1, "1"]]
    entries = []
    groups = {}
    nbase = rng.randint(4, 8)
    forms = []
    for b in range(nbase):
        base = "lk%s%s" % ("abcdefghij"[b], rng.choice(["a", "e", "m", "x"]))
        names = [base]
        if isa == "x86" and rng.random() < 0.5:
            names.append(base + rng.choice("bswlqt"))
        if isa == "aarch64" and rng.random() < 0.5:
            names.append(base + rng.choice([".ne", ".eq", ".4s"]))
        for nm in names:
            k = rng.randint(1, 5)
            prev = []
            for j in range(k):
                r = rng.random()
                if prev and r < 0.15:
                    ops = copy.deepcopy(rng.choice(prev))
                elif prev and r < 0.45:
                    ops = generalise(isa, rng.choice(prev), rng)
                elif prev and r < 0.7:
                    ops = G.rand_entry_operands(isa, rng, n=len(prev[0]))
                else:
                    ops = G.rand_entry_operands(isa, rng)
                prev.append(ops)
                idx = len(entries)
                entries.append(ops)
                groups.setdefault(nm.upper(), []).append(idx)
                written = "".join(c.upper() if rng.random() < 0.3 else c for c in nm)
                forms.append({"name": written, "operands": ops, "throughput": 1.0, "latency": LAT_TAG + idx, "port_pressure": [[1, "0"]]})
    # multi-name entries on mnemonics of their own
    for b in range(rng.randint(0, 2)):
        n1, n2 = "ml%da" % b, "ml%de" % b
        ops = G.rand_entry_operands(isa, rng)
        idx = len(entries)
        entries.append(ops)
        groups.setdefault(n1.upper(), []).append(idx)
        groups.setdefault(n2.upper(), []).append(idx)
        forms.append({"name": [n1, n2], "operands": ops, "throughput": 1.0, "latency": LAT_TAG + idx, "port_pressure": [[1, "0"]]})
    m["instruction_forms"] = forms
    return m, groups, entries


def fallback_name(isa, name):
    if isa == "x86" and name[-1].lower() in "bswlqt":
        return name[:-1]
    if isa == "aarch64" and "." in name:
        return name[: name.index(".")]
    return None


def got_index(res):
    if res is None:
        return None
    return int(res.latency) - LAT_TAG


def parsed_as_written(form, ops):
    """The real parser must have produced operands of the kinds the text was rendered from; if not, that is the parser's
    business (C09/C10) and the lookup is not judged."""
    from osaca.parser.register import RegisterOperand
    from osaca.parser.memory import MemoryOperand
    from osaca.parser.immediate import ImmediateOperand
    from osaca.parser.identifier import IdentifierOperand
    from osaca.parser.condition import ConditionOperand
    from osaca.parser.prefetch import PrefetchOperand

    want = {"reg": RegisterOperand, "mem": MemoryOperand, "imm": ImmediateOperand, "id": IdentifierOperand, "cond": ConditionOperand,
            "prfop": PrefetchOperand}
    if form.mnemonic is None or len(form.operands) != len(ops):
        return False
    for po, o in zip(form.operands, ops):
        if not isinstance(po, want[o["k"]]):
            return False
        if o["k"] == "imm" and getattr(po, "identifier", None) is not None:
            return False
    return True


def check_direct(isa, mm, parser, groups, entries, name, ops, R, rng, case, nearmiss):
    text = G.render(isa, name, ops, rng)
    try:
        form = parser.parse_line(text, 1)
    except Exception:  # noqa  (parser coverage is C09/C10's business)
        R.count("unparseable_rendering")
        return
    if not parsed_as_written(form, ops):
        R.count("parsed_differently")
        return
    kinds = [G.ast_kind(o) for o in ops]
    idxs = groups.get(name.upper(), [])
    st, first = RM.expected_lookup(isa, [entries[i] for i in idxs], kinds)
    c = dict(case, text=text, mnemonic=name, kinds=kinds, entry_patterns=[entries[i] for i in idxs])
    try:
        res = mm.get_instruction(form.mnemonic, form.operands)
    except Exception as e:  # noqa
        R.exception(e, c)
        R.case()
        return
    R.count("direct_lookups")
    g = got_index(res)
    pos = idxs.index(g) if g in idxs else None
    if g is not None and pos is None:
        R.violation("unsound/entry-of-other-mnemonic", "lookup of %r returned an entry of another mnemonic" % name, c)
        R.case()
        return
    verdict = RM.judge_lookup(st, first, pos)
    tally(R, st, first, nearmiss)
    if verdict:
        R.violation(verdict[0] + "/" + kind_tag(isa, kinds, [entries[i] for i in idxs], st, pos, first), "%s: %s  [%s]" % (text.strip(), verdict[1], ", ".join(st)), c)
    R.case(digest([[entries[i] for i in idxs], kinds]), nontrivial=(len(idxs) >= 2 or nearmiss))


def kind_tag(isa, kinds, pats, st, pos, first):
    """Mechanism tag: the operand class whose judgement differs (first operand where the involved entry's per-operand verdict is decisive)."""
    i = pos if pos is not None else first
    if i is None or i >= len(pats):
        return "none"
    e = pats[i]
    if len(e) != len(kinds):
        return "operand-count"
    f = RM.ref_x86 if isa == "x86" else RM.ref_a64
    want = RM.NOT if st[i] == RM.NOT else RM.MUST
    for eo, o in zip(e, kinds):
        if f(eo, o) == RM.NOT and want == RM.NOT:
            return o["k"]
    return "+".join(sorted(set(o["k"] for o in kinds))) or "no-operands"


def tally(R, st, first, nearmiss):
    if first is not None:
        R.count("verdict:MUST")
    elif RM.DC in st:
        R.count("verdict:dontcare_only")
    else:
        R.count("verdict:none_expected")
    if RM.DC in st:
        R.count("dontcare_entries", st.count(RM.DC))
    if nearmiss:
        R.count("nearmiss")


def check_semantic(isa, mm, sem, parser, groups, entries, name, ops, R, rng, case):
    """The fall-back chain as performed by ArchSemantics.assign_tp_lt (instructions without memory operands)."""
    text = G.render(isa, name, ops, rng)
    try:
        form = parser.parse_line(text, 1)
    except Exception:  # noqa
        R.count("unparseable_rendering")
        return
    if not parsed_as_written(form, ops):
        R.count("parsed_differently")
        return
    kinds = [G.ast_kind(o) for o in ops]

    def ref(nm):
        idxs = groups.get(nm.upper(), [])
        st, first = RM.expected_lookup(isa, [entries[i] for i in idxs], kinds)
        return idxs, st, first

    idxs, st, first = ref(name)
    expected = None  # ('entry', global idx) | ('unknown',) | None = don't care
    used_fallback = False
    if first is not None and RM.DC not in st[:first]:
        expected = ("entry", idxs[first])
    elif RM.DC in st:
        expected = None
    else:
        fb = fallback_name(isa, name)
        if fb is None:
            expected = ("unknown",)
        else:
            idxs2, st2, first2 = ref(fb)
            if first2 is not None and RM.DC not in st2[:first2]:
                expected = ("entry", idxs2[first2])
                used_fallback = True
            elif RM.DC in st2:
                expected = None
            else:
                expected = ("unknown",)
    c = dict(case, text=text, mnemonic=name, kinds=kinds, semantic=True)
    try:
        sem.assign_src_dst(form)
        sem.assign_tp_lt(form)
    except Exception as e:  # noqa
        R.exception(e, c)
        R.case()
        return
    R.count("semantic_path")
    if expected is None:
        R.count("semantic_dontcare")
        R.case()
        return
    unknown = "tp_unknown" in form.flags
    if expected[0] == "unknown":
        R.count("semantic_unknown_expected")
        if not unknown:
            R.violation("fallback/applied-entry-although-none-matches", "%s: analysed with latency %s although no entry (full name or documented fall-back) matches"
                        % (text.strip(), form.latency), c)
    else:
        if used_fallback:
            R.count("fallback_used")
        if unknown:
            R.violation("fallback/unknown-although-entry-matches" + ("/via-suffix-fallback" if used_fallback else ""),
                        "%s: flagged unknown although entry #%d matches" % (text.strip(), expected[1]), c)
        elif int(form.latency) - LAT_TAG != expected[1]:
            R.violation("fallback/wrong-entry" + ("/via-suffix-fallback" if used_fallback else ""),
                        "%s: data of entry #%d used, expected entry #%d" % (text.strip(), int(form.latency) - LAT_TAG, expected[1]), c)
    R.case(digest(["sem", name.upper(), kinds, [entries[i] for i in idxs]]), nontrivial=True)


def run_synth(spec, R, mon_calls):
    from osaca.parser import get_parser
    from osaca.semantics import ArchSemantics, MachineModel

    rng = random.Random(spec["seed"])
    isa = spec["isa"]
    parser = get_parser(isa)
    R.count("isa:" + isa)
    with gen_model.ScratchDir("c07") as d:
        for mi in range(spec["models"]):
            mseed = rng.getrandbits(48)
            mrng = random.Random(mseed)
            m, groups, entries = lookup_model(mrng, isa)
            text = gen_model.model_yaml(m)
            path = os.path.join(d, "m%d.yml" % mi)
            with open(path, "w") as f:
                f.write(text)
            case = {"kind": "synth", "isa": isa, "model_seed": mseed}
            try:
                mm = MachineModel(path_to_yaml=path)
                sem = ArchSemantics(mm)
            except Exception as e:  # noqa
                R.exception(e, dict(case, model_yaml=text))
                continue
            names = sorted(groups)
            for nm in names:
                for gi in groups[nm]:
                    for rep in range(2):
                        ops = G.concretize(isa, entries[gi], mrng)
                        if ops is None:
                            R.count("entry_not_renderable")
                            continue
                        written = "".join(c.upper() if mrng.random() < 0.3 else c for c in nm.lower())
                        check_direct(isa, mm, parser, groups, entries, written, ops, R, mrng, case, False)
                        muts = G.mutations(isa, ops, mrng)
                        mrng.shuffle(muts)
                        for mo in muts[:6]:
                            check_direct(isa, mm, parser, groups, entries, written, mo, R, mrng, case, True)
                        # other mnemonics with the same operands (mnemonic must agree)
                        other = mrng.choice(names)
                        check_direct(isa, mm, parser, groups, entries, other.lower(), ops, R, mrng, case, other != nm)
                        # semantic layer: suffix fall-backs
                        if not any(o["k"] == "mem" for o in ops):
                            base = nm.lower()
                            variants = [base]
                            if isa == "x86":
                                variants += [base + mrng.choice("bswlqt"), base + "z", base[:-1] if len(base) > 3 else base,
                                             # only ONE trailing size letter may be dropped (movsbl is not mov)
                                             base + mrng.choice("bswlqt") + mrng.choice("bswlqt"),
                                             base + mrng.choice("sz") + mrng.choice("bw") + mrng.choice("lq")]
                            else:
                                variants += [base + mrng.choice([".ne", ".eq", ".4s", ".d"]), base.split(".")[0],
                                             base + "s", base + ".ne.x"]
                            for v in variants:
                                check_semantic(isa, mm, sem, parser, groups, entries, v, ops, R, mrng, case)
                            for mo in muts[6:8]:
                                if not any(o["k"] == "mem" for o in mo):
                                    check_semantic(isa, mm, sem, parser, groups, entries, mrng.choice(variants), mo, R, mrng, case)
            if mi == 0:
                R.sample({"kind": "synth", "isa": isa, "mnemonic": names[0], "entry_patterns": [entries[i] for i in groups[names[0]]]}, limit=2)
            MachineModel._runtime_cache.pop(path, None)
            for fn in os.listdir(d):
                os.unlink(os.path.join(d, fn))


# ---------------------------------------------------------------- shipped models

def load_yaml_entries(path):
    """Independent parse of a model file: list of (NAME, operand patterns, latency, throughput) in OSACA's lookup order
    (single-name entries in file order, then the entries split from multi-name entries), plus isa."""
    import ruamel.yaml

    y = ruamel.yaml.YAML(typ="safe")
    with open(path) as f:
        data = y.load(f)
    singles, multi = [], []
    for e in data.get("instruction_forms", []):
        ops = e.get("operands") or []
        if isinstance(e.get("name"), list):
            for n in e["name"]:
                multi.append((str(n).upper(), ops, e.get("latency"), e.get("throughput"), True))
        else:
            singles.append((str(e["name"]).upper(), ops, e.get("latency"), e.get("throughput"), False))
    return data["isa"].lower(), singles + multi


def run_shipped(spec, R):
    from osaca.parser import get_parser
    from osaca.semantics import MachineModel
    import osaca.utils as u

    arch = spec["arch"]
    rng = random.Random(spec["seed"])
    path = dict(isolate.model_files())[arch]
    isa, ylist = load_yaml_entries(path)
    R.count("isa:" + isa)
    mm = MachineModel(path_to_yaml=u.find_datafile(arch + ".yml"))
    parser = get_parser(isa)
    d = mm["instruction_forms_dict"]
    groups = {}
    for k, (name, ops, lat, tp, is_multi) in enumerate(ylist):
        groups.setdefault(name, []).append(k)
    # positional mapping sanity: same group sizes and same latency/throughput per position
    for name, idxs in groups.items():
        objs = d.get(name, [])
        if len(objs) != len(idxs) or any(objs[j].latency != ylist[i][2] or objs[j].throughput != ylist[i][3] for j, i in enumerate(idxs)):
            R.count("groups_not_mappable")
            groups[name] = None
    mixed = set()
    for name, idxs in groups.items():
        if idxs and len(set(ylist[i][4] for i in idxs)) > 1:
            mixed.add(name)
    offset = rng.randrange(spec["every"])
    n = 0
    for k, (name, epat, lat, tp, is_multi) in enumerate(ylist):
        if k % spec["every"] != offset:
            continue
        idxs = groups.get(name)
        if idxs is None:
            continue
        ops = G.concretize(isa, epat, rng)
        if ops is None:
            R.count("entry_not_renderable")
            continue
        text = G.render(isa, name.lower(), ops, rng)
        try:
            form = parser.parse_line(text, 1)
        except Exception:  # noqa
            R.count("unparseable_rendering")
            continue
        if not parsed_as_written(form, ops):
            R.count("parsed_differently")
            continue
        kinds = [G.ast_kind(o) for o in ops]
        pats = [ylist[i][1] for i in idxs]
        st, first = RM.expected_lookup(isa, pats, kinds)
        case = {"kind": "shipped", "arch": arch, "entry_index": k, "text": text, "kinds": kinds}
        try:
            res = mm.get_instruction(form.mnemonic, form.operands)
        except Exception as e:  # noqa
            R.exception(e, case)
            R.case()
            continue
        R.count("shipped_entries")
        R.count("direct_lookups")
        pos = None
        if res is not None:
            objs = d.get(name, [])
            pos = next((j for j, o in enumerate(objs) if o is res), None)
            if pos is None:
                R.violation("unsound/entry-of-other-mnemonic", "%s: result is not an entry of %s" % (text, name), case)
                continue
        own = idxs.index(k)
        if st[own] == RM.NOT:
            # the concretisation is meant to be exactly the kinds the entry declares: a NOT here is a harness bug
            raise AssertionError("reference rejects an entry's own concretisation: %r %r %r" % (text, epat, kinds))
        if name in mixed and pos is not None and first is not None and pos > first:
            R.count("order_dontcare_multi_name")
            R.case()
            continue
        tally(R, st, first, False)
        verdict = RM.judge_lookup(st, first, pos)
        if verdict:
            R.violation(verdict[0] + "/" + kind_tag(isa, kinds, pats, st, pos, first), "%s %s: %s [%s]" % (arch, text.strip(), verdict[1], ", ".join(st)),
                        dict(case, entry_patterns=pats))
        R.case(digest([arch, name, pats, kinds]), nontrivial=len(idxs) >= 2)
        n += 1
        if n == 1:
            R.sample({"kind": "shipped", "arch": arch, "text": text, "entry_pattern": epat, "statuses": st}, limit=4)


def run_shard(spec, R):
    from osaca.semantics import MachineModel
    from ..monitor import Monitor

    mon = Monitor()
    mon.wrap(MachineModel, "get_instruction")
    try:
        if spec["kind"] == "synth":
            run_synth(spec, R, mon)
        else:
            run_shipped(spec, R)
    finally:
        mon.undo()
    R.count("monitor:get_instruction", mon.calls.get("MachineModel.get_instruction", 0))


def replay(case, R):
    from osaca.parser import get_parser
    from osaca.semantics import ArchSemantics, MachineModel
    import osaca.utils as u

    if case["kind"] == "synth":
        isa = case["isa"]
        mrng = random.Random(case["model_seed"])
        m, groups, entries = lookup_model(mrng, isa)
        with gen_model.ScratchDir("c07r") as d:
            path = os.path.join(d, "m.yml")
            open(path, "w").write(gen_model.model_yaml(m))
            mm = MachineModel(path_to_yaml=path)
            parser = get_parser(isa)
            form = parser.parse_line(case["text"], 1)
            kinds = case["kinds"]
            if case.get("semantic"):
                ops = None
                sem = ArchSemantics(mm)
                sem.assign_src_dst(form)
                sem.assign_tp_lt(form)
                R.sample({"flags": form.flags, "latency": form.latency})
                print("replay semantic: flags=%s latency=%s" % (form.flags, form.latency))
            else:
                idxs = groups.get(case["mnemonic"].upper(), [])
                st, first = RM.expected_lookup(isa, [entries[i] for i in idxs], kinds)
                res = mm.get_instruction(form.mnemonic, form.operands)
                g = got_index(res)
                pos = idxs.index(g) if g in idxs else None
                v = RM.judge_lookup(st, first, pos)
                if v:
                    R.violation(v[0] + "/" + kind_tag(isa, kinds, [entries[i] for i in idxs], st, pos, first), "%s: %s" % (case["text"], v[1]), case)
            R.case()
    else:
        spec = {"arch": case["arch"], "seed": 0, "every": 1}
        path = dict(isolate.model_files())[case["arch"]]
        isa, ylist = load_yaml_entries(path)
        mm = MachineModel(path_to_yaml=u.find_datafile(case["arch"] + ".yml"))
        form = get_parser(isa).parse_line(case["text"], 1)
        name = ylist[case["entry_index"]][0]
        idxs = [i for i, e in enumerate(ylist) if e[0] == name]
        pats = [ylist[i][1] for i in idxs]
        st, first = RM.expected_lookup(isa, pats, case["kinds"])
        res = mm.get_instruction(form.mnemonic, form.operands)
        objs = mm["instruction_forms_dict"].get(name, [])
        pos = next((j for j, o in enumerate(objs) if o is res), None) if res is not None else None
        v = RM.judge_lookup(st, first, pos)
        if v:
            R.violation(v[0] + "/" + kind_tag(isa, case["kinds"], pats, st, pos, first), "%s: %s" % (case["text"], v[1]), case)
        R.case()
