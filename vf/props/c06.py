"""C06 Store-to-load dependencies through provably equal addresses on both ISAs.

Monitor: edges of KernelDG(...).dg between store lines and load lines; oracle: R-deps' store->load relation (symbolic
pointer tracking on the generator's AST: origin register + constant delta, unknown after any other write).
"""
import os
import random

from .. import depgen as D
from .. import gen_model, isolate
from ..common import EPS, CaseTimeout, digest, time_limit

LEVEL = "exploration"
RULE = (
    "store/load kernels: a store in every addressing shape (base, base+disp, base+index*scale+disp), 0-3 instructions in between "
    "(constant add/sub/inc/dec of the base or index, register copy, clobber of the base, unrelated work, AArch64 pre/post-indexed "
    "accesses, a second store to the same or another operand; after a write-back store: a copy of its base), then 1-3 loads whose displacement is the adjusted one or a near miss "
    "(off by 8 / 1, other base, other index, other scale); synthetic ISA databases on synthetic models and the curated real "
    "vocabulary on every shipped model of the ISA. Non-trivial: the expected relation is non-empty and the kernel also contains a "
    "near-miss load; distinct by digest of the kernel text"
)
ASSUMPTIONS = [
    "address registers are modified only through their full-width name, and only by constant add/sub/inc/dec, copies or clobbers "
    "(DESIGN.md section 2, R-deps); the write-back of a pre/post-indexed store itself is part of the tracked changes (judged through loads "
    "that use a copy of the base taken right after the store - a load through the base itself has a register dependency on the "
    "store anyway)",
    "edge weight: store latency without its separately modelled load stage (read-modify-write forms) + store_to_load_forward_latency (default 0)",
]
SHARD_TIMEOUT = {"quick": 600, "thorough": 3600}


def floors(tier):
    q = tier == "quick"
    return {"evaluations": 500 if q else 10000, "distinct_nontrivial": 120 if q else 2500, "pairs_checked": 800 if q else 16000,
            "expected_edges": 200 if q else 4000, "expected_no_edge": 400 if q else 8000, "isa:x86": 1, "isa:aarch64": 1,
            "with_bump": 150 if q else 3000, "with_index": 60 if q else 1200, "with_copy": 30 if q else 600, "killed_by_store": 10 if q else 200,
            "kind:synth": 250 if q else 5000, "kind:curated": 200 if q else 3500, "a64_writeback_between": 15 if q else 300, "bump_copy_bump": 25 if q else 500, "symbolic_displacement": 20 if q else 400, "multi_destination_store": 40 if q else 800, "writeback_store_then_copy": 8 if q else 150, "copy_then_clobber": 20 if q else 400, "second_store_other_scale": 3 if q else 60}


def plan(tier, seed):
    q = tier == "quick"
    specs = []
    for i in range(8 if q else 32):
        specs.append({"kind": "synth", "isa": "x86" if i % 2 == 0 else "aarch64", "models": 6 if q else 25, "kernels": 8})
    archs = ["zen2", "spr", "zen1", "hsw", "tx2", "v2", "n1", "a64fx"] if q else isolate.arch_models()
    for a in archs:
        specs.append({"kind": "curated", "arch": a, "kernels": 40 if q else 300})
    return specs


# ---------------------------------------------------------------- kernel generator

def pick(forms, pred):
    return [f for f in forms if pred(f)]


def has_mem(f, role):
    return any(o["kind"] == "mem" and role in o["role"] for o in f["ops"])


def stl_kernel(rng, isa, vocab, curated=False):
    inst = D.instantiate_curated if curated else D.instantiate
    stores = pick(vocab, lambda f: has_mem(f, "d"))
    loads = pick(vocab, lambda f: has_mem(f, "s") and not has_mem(f, "d"))
    bumps = pick(vocab, lambda f: f["bump"] in ("add", "sub", "inc", "dec"))
    copies = pick(vocab, lambda f: f["bump"] == "copy")
    others = pick(vocab, lambda f: not f["bump"] and not any(o["kind"] == "mem" for o in f["ops"]) and any(o["kind"] == "reg" and "d" in o["role"] for o in f["ops"]))
    pool = D.Pool(rng, isa, ng=4, nv=3)
    addr = pool.g[:3]
    pool_data = D.Pool(rng, isa, ng=4, nv=3)
    pool_data.g = [g for g in (pool.g[3:] + pool_data.g) if g not in addr][:3] or pool.g[3:]
    pool_data.v = pool.v

    def areg(f):
        return D.x86_alias(f, rng, 64) if isa == "x86" else "x%d" % f

    base, other, third = areg(addr[0]), areg(addr[1]), areg(addr[2])
    tags = set()
    sm = {"base": base, "index": None, "scale": 1, "disp": None, "pre": False, "post": False, "post_val": None, "sym": None}
    symbolic = isa == "x86" and rng.random() < 0.1
    r = rng.random()
    step = 8
    if r < 0.25:
        pass
    elif r < 0.7:
        sm["disp"] = rng.choice([8, 16, 24, -8, 64])
    else:
        sm["index"] = other
        sm["scale"] = rng.choice([1, 8]) if isa == "aarch64" else rng.choice([1, 2, 4, 8])
        if isa == "x86" and rng.random() < 0.6:
            sm["disp"] = rng.choice([8, 16, -8])
        tags.add("with_index")
    if symbolic:
        # symbolic displacement (global array addressed through a register): sym(%base[,%index,scale])
        sm["disp"] = None
        sm["sym"] = rng.choice(["gvar", "tbl_a"])
        tags.add("symbolic_displacement")
    if isa == "aarch64" and not sm["index"] and rng.random() < 0.3:
        if rng.random() < 0.5:
            sm["disp"] = sm["disp"] or 16
            sm["pre"] = True
        else:
            sm["disp"] = None
            sm["post"], sm["post_val"] = True, 16
    kernel = []
    sf = rng.choice(stores)
    if isa == "aarch64" and sm["index"] and any(o.get("noindex") for o in sf["ops"]):
        sf = [f for f in stores if not any(o.get("noindex") for o in f["ops"])][0]
    pre = rng.randint(0, 2)
    for _ in range(pre):
        kernel.append(inst(rng, isa, rng.choice(others), pool_data))
    kernel.append(inst(rng, isa, sf, pool_data, mem=dict(sm)) if not curated else curated_mem(rng, isa, sf, pool_data, sm))
    # symbolic state kept by the generator only to aim the loads; the oracle recomputes it from the AST
    delta = {base: (base, 0), other: (other, 0), third: (third, 0)}
    if sm["pre"]:
        delta[base] = (base, sm["disp"])
    if sm["post"]:
        delta[base] = (base, sm["post_val"])
    scenario = rng.random()
    wb_copy = False
    if (sm["pre"] or sm["post"]) and copies and rng.random() < 0.6:
        # the store's own write-back moves the base before any later access: loads through a copy of the base taken right
        # after the store (a load through the base itself has a register dependency on the store anyway)
        kernel.append(copy_instance(rng, isa, rng.choice(copies), third, base, curated))
        delta[third] = delta[base]
        tags.update(["with_copy", "writeback_store_then_copy"])
        wb_copy = True
        scenario = 1.0
    if scenario < 0.12 and bumps and copies:
        # bump, copy, bump again (original or copy): the copy must keep its own change record
        seq = []
        f = rng.choice(bumps)
        ins = bump_instance(rng, isa, f, base, rng.choice([8, 16, 24]), curated)
        seq.append(ins)
        if ins["bump"] and delta.get(base):
            delta[base] = (delta[base][0], delta[base][1] + ins["bump"][3])
        seq.append(copy_instance(rng, isa, rng.choice(copies), third, base, curated))
        delta[third] = delta[base]
        target = rng.choice([base, third])
        f = rng.choice(bumps)
        ins = bump_instance(rng, isa, f, target, rng.choice([8, 16]), curated)
        seq.append(ins)
        if ins["bump"] and delta.get(target):
            delta[target] = (delta[target][0], delta[target][1] + ins["bump"][3])
        kernel.extend(seq)
        tags.update(["with_bump", "with_copy", "bump_copy_bump"])
    chase = False
    if 0.12 <= scenario < 0.2 and copies and others and not wb_copy:
        # pointer chasing: the address register is copied, then overwritten with something unknown; the copy still addresses
        # the stored location
        cl = None
        for _ in range(6):
            cl = clobber_instance(rng, isa, rng.choice(others), base, pool_data, curated)
            if cl:
                break
        if cl:
            kernel.append(copy_instance(rng, isa, rng.choice(copies), third, base, curated))
            delta[third] = delta[base]
            kernel.append(cl)
            delta[base] = None
            tags.update(["with_copy", "with_clobber", "copy_then_clobber"])
            chase = True
    for _ in range(rng.choice([0, 0, 1, 1, 2, 3]) if scenario >= 0.12 and not wb_copy and not chase else 0):
        k = rng.random()
        if k < 0.4 and bumps:
            f = rng.choice(bumps)
            target = base if (rng.random() < 0.7 or not sm["index"]) else other
            c = rng.choice([8, 16, 24, 1, 2])
            ins = bump_instance(rng, isa, f, target, c, curated)
            kernel.append(ins)
            if ins["bump"] and delta.get(target):
                delta[target] = (delta[target][0], delta[target][1] + ins["bump"][3])
            tags.add("with_bump")
        elif k < 0.55 and copies:
            f = rng.choice(copies)
            ins = copy_instance(rng, isa, f, third, base, curated)
            kernel.append(ins)
            delta[third] = delta[base]
            tags.add("with_copy")
        elif k < 0.65 and others:
            f = rng.choice(others)
            ins = clobber_instance(rng, isa, f, base, pool_data, curated)
            if ins:
                kernel.append(ins)
                delta[base] = None
                tags.add("with_clobber")
        elif k < 0.75:
            # another store: same operand (ends the search) or another one
            m2 = dict(sm) if rng.random() < 0.5 else dict(sm, disp=(sm["disp"] or 0) + 8)
            if sm["index"] and rng.random() < 0.5:
                # same base, index and displacement, another scale: another operand, the search goes on
                m2 = dict(sm, scale=rng.choice([x for x in ([1, 8] if isa == "aarch64" else [1, 2, 4, 8]) if x != sm["scale"]]))
                tags.add("second_store_other_scale")
            if isa == "aarch64" and m2["index"] and m2["disp"] is not None:
                m2 = dict(sm, index=None, scale=1, disp=8)  # AArch64 has no base+index+displacement form
            if m2["pre"] or m2["post"]:
                m2 = dict(m2, pre=False, post=False, post_val=None)
            f2 = rng.choice([f for f in stores if not (m2["index"] and any(o.get("noindex") for o in f["ops"]))])
            kernel.append(curated_mem(rng, isa, f2, pool_data, m2) if curated else inst(rng, isa, f2, pool_data, mem=m2))
            tags.add("second_store")
        elif k < 0.87 and isa == "aarch64":
            # a pre/post-indexed access in between moves the base by a constant
            lf = rng.choice([f for f in loads if not any(o.get("noindex") and False for o in f["ops"])])
            m2 = {"base": base, "index": None, "scale": 1, "disp": None, "pre": False, "post": False, "post_val": None, "sym": None}
            if rng.random() < 0.5:
                m2["disp"], m2["pre"] = rng.choice([8, 16]), True
                if delta.get(base):
                    delta[base] = (delta[base][0], delta[base][1] + m2["disp"])
            else:
                m2["post"], m2["post_val"] = True, rng.choice([8, 16])
                if delta.get(base):
                    delta[base] = (delta[base][0], delta[base][1] + m2["post_val"])
            kernel.append(curated_mem(rng, isa, lf, pool_data, m2) if curated else inst(rng, isa, lf, pool_data, mem=m2))
            tags.add("a64_writeback_between")
        elif others:
            kernel.append(inst(rng, isa, rng.choice(others), pool_data))
    near = False
    for _ in range(rng.randint(1, 3)):
        lf = rng.choice(loads)
        how = rng.choice(["exact", "exact", "exact", "off8", "off1", "otherbase", "viacopy", "otheridx", "otherscale"])
        if "bump_copy_bump" in tags:
            how = rng.choice(["exact", "viacopy", "viacopy", "off8"])
        if chase:
            how = rng.choice(["viacopy", "viacopy", "exact", "off8"])
        if wb_copy:
            how = rng.choice(["viacopy", "viacopy", "viacopy_off"])
        lb = base
        if how in ("viacopy", "viacopy_off") and delta.get(third) and delta[third][0] == base:
            lb = third
        elif how == "otherbase":
            lb = third if not (delta.get(third) and delta[third] and delta[third][0] == base) else other
        st = delta.get(lb)
        saddr = 0 if sm["post"] else (sm["disp"] or 0)
        want = saddr - (st[1] if st else 0)
        if sm["index"] and delta.get(other):
            want -= delta[other][1] * sm["scale"]
        lm = {"base": lb, "index": sm["index"], "scale": sm["scale"], "disp": want, "pre": False, "post": False, "post_val": None, "sym": None}
        if symbolic:
            # same symbol (provably equal only when nothing moved the registers), another symbol, or no symbol at all
            lm["disp"] = None
            lm["sym"] = rng.choice([sm["sym"], sm["sym"], "tbl_b", None])
            if lm["sym"] is None:
                lm["disp"] = rng.choice([None, 8])
            if lm["sym"] != sm["sym"]:
                near = True
        if how == "viacopy_off":
            # among the wrong displacements: the one that is right if the write-back is forgotten
            lm["disp"] = want + rng.choice([8, -8, delta[base][1], -delta[base][1]])
        elif how == "off8":
            lm["disp"] = want + rng.choice([8, -8])
        elif how == "off1":
            lm["disp"] = want + 1
        elif how == "otheridx":
            lm["index"] = None if sm["index"] else third
            if lm["index"] is None:
                lm["scale"] = 1
        elif how == "otherscale" and sm["index"]:
            lm["scale"] = 8 if sm["scale"] != 8 else 1
        if how != "exact" and how != "viacopy":
            near = True
        if isa == "aarch64" and lm["index"]:
            lm["disp"] = None if lm["disp"] in (0, None) else lm["disp"]
            if lm["disp"] is not None:
                lm["index"], lm["scale"] = None, 1
        if lm["disp"] == 0 and rng.random() < 0.5:
            lm["disp"] = None
        if lm.get("sym"):
            lm["disp"] = None  # a symbolic displacement is written without a numeric one
        if lm["index"] and any(o.get("noindex") for o in lf["ops"]):
            lf = [f for f in loads if not any(o.get("noindex") for o in f["ops"])][0]
        regops = [o for o in lf["ops"] if o["kind"] == "reg"]
        if (not curated and how in ("exact", "viacopy") and len(regops) == 1 and regops[0]["cls"] == "g" and regops[0]["role"] == "d"
                and not lm["index"] and rng.random() < 0.25):
            # pointer chasing: the load overwrites its own address register ('mov (%rbx), %rbx', 'ldr x0, [x0]')
            kernel.append(inst(rng, isa, lf, pool_data, mem=lm, regs=[lm["base"]]))
            tags.add("load_overwrites_its_address_register")
            break
        kernel.append(curated_mem(rng, isa, lf, pool_data, lm) if curated else inst(rng, isa, lf, pool_data, mem=lm))
    return kernel, tags, near


def curated_mem(rng, isa, form, pool, mem):
    ins = D.instantiate_curated(rng, isa, form, pool)
    # replace the memory operand by the wanted one
    regs = [r.split(".")[0] for r in ins["regs"]]
    new = D.instantiate(rng, isa, dict(form, ops=[dict(o, role=("s" if o.get("role") == "a" else o["role"])) for o in form["ops"]]), pool, mem=dict(mem), regs=regs)
    texts = list(new["optexts"])
    k = 0
    for j, o in enumerate(form["ops"]):
        if o["kind"] == "reg":
            texts[j] = ins["optexts"][j]
    new["text"] = form["name"] + " " + ", ".join(texts)
    new["optexts"] = texts
    return new


def bump_instance(rng, isa, f, target, c, curated):
    if isa == "x86":
        regs = [target]
    else:
        regs = [target, target]
    nregs = sum(1 for o in f["ops"] if o["kind"] == "reg")
    regs = (regs * 3)[:nregs]
    if isa == "aarch64" and rng.random() < 0.12 and any(o["kind"] == "imm" for o in f["ops"]):
        # immediates of 4096 and more are written with a shift
        k = rng.choice([1, 2])
        return D.instantiate(rng, isa, f, None, regs=regs, imm=4096 * k, imm_text="#%d, lsl #12" % k)
    return D.instantiate(rng, isa, f, None, regs=regs, imm=c)


def copy_instance(rng, isa, f, dst, src, curated):
    regs = [src, dst] if isa == "x86" else [dst, src]
    return D.instantiate(rng, isa, f, None, regs=regs)


def clobber_instance(rng, isa, f, base, pool, curated):
    """An instruction that overwrites the base register (full-width name) in a way that is not a constant bump."""
    ops = [o for o in f["ops"] if o["kind"] == "reg"]
    if not ops or any(o.get("cls") == "v" for o in ops if "d" in o["role"]):
        return None
    if curated and any(o.get("w32") or o.get("cls_pat") == "w" for o in ops):
        return None
    regs = []
    for o in ops:
        if "d" in o["role"]:
            regs.append(base)
        else:
            regs.append(pool.reg(rng, o["cls"], True, o.get("cls_pat")) if not curated else
                        (D.x86_alias(rng.choice(pool.g), rng, 64) if isa == "x86" and o["cls"] == "g" else
                         ("x%d" % rng.choice(pool.g)) if o["cls"] == "g" else pool.reg(rng, o["cls"], True, o.get("cls_pat"))))
    if f["zero"] and len(set(regs)) == 1:
        return None
    return D.instantiate(rng, isa, f, pool, regs=regs)


# ---------------------------------------------------------------- oracle

def judge(isa, kernel_ast, forms, dg, mm, R, case):
    regref = D.ref_edges(kernel_ast, False)
    stl, dc = D.ref_store_load(kernel_ast, isa)
    obs, _ = D.observed_edges(forms, dg)
    fwd = mm.get("store_to_load_forward_latency", 0) or 0
    n = len(kernel_ast)
    exp_edges = 0
    for a in range(n):
        A = kernel_ast[a]
        if not any("d" in m["role"] for m in A["mems"]):
            continue
        for b in range(a + 1, n):
            B = kernel_ast[b]
            if not any("s" in m["role"] for m in B["mems"]):
                continue
            R.count("pairs_checked")
            if (a, b) in dc:
                R.count("dontcare_pairs")
                continue
            expected = (a, b) in stl
            if expected:
                exp_edges += 1
                R.count("expected_edges")
            else:
                R.count("expected_no_edge")
            got = (a, b) in obs
            if (a, b) in regref:
                continue  # an edge exists for a register reason anyway
            if expected and not got:
                R.violation("missing/" + isa + "/" + shape_tag(kernel_ast, a, b), "no edge %d->%d: '%s' stores to the location '%s' loads from"
                            % (a + 1, b + 1, A["text"], B["text"]), case)
            elif got and not expected:
                R.violation("spurious/" + isa + "/" + why_not(kernel_ast, a, b, isa), "edge %d->%d ('%s' -> '%s') although the addresses are not provably equal"
                            % (a + 1, b + 1, A["text"], B["text"]), case)
            elif got:
                w = obs[(a, b)]
                F = forms[a]
                wo = F.latency_wo_load if F.latency_wo_load is not None else F.latency
                adm = {float(wo) + fwd}  # the load stage of a read-modify-write store is a node of its own (C03: "without its separately modelled load stage")
                R.count("weights_checked")
                if w is None or not any(abs(float(w) - x) <= EPS for x in adm):
                    R.violation("weight/" + isa, "store->load edge %d->%d has weight %r, expected store latency %s + forwarding latency %s" % (a + 1, b + 1, w, wo, fwd), case)
    return exp_edges


def between_tags(kernel, a, b):
    t = set()
    for i in kernel[a + 1:b]:
        if i["bump"]:
            t.add("copy" if i["bump"][3] == 0 and i["bump"][1] != i["bump"][2] else "bump")
        if any(m["pre"] or m["post"] for m in i["mems"]):
            t.add("writeback")
    return t


def shape_tag(kernel, a, b):
    sm = [m for m in kernel[a]["mems"] if "d" in m["role"]][0]
    t = ["base"]
    if sm["index"]:
        t.append("index")
    if sm["disp"] is not None:
        t.append("disp")
    bt = between_tags(kernel, a, b)
    return "+".join(t) + ("/after-" + "+".join(sorted(bt)) if bt else "/direct")


def why_not(kernel, a, b, isa):
    sm = [m for m in kernel[a]["mems"] if "d" in m["role"]][0]
    lm = [m for m in kernel[b]["mems"] if "s" in m["role"]][0]
    bt = between_tags(kernel, a, b)
    if any("d" in m["role"] and D.same_operand(m, sm) for i in kernel[a + 1:b] for m in i["mems"]):
        return "after-store-to-same-operand"
    if lm["base"] != sm["base"] and "copy" not in bt:
        return "other-base"
    if (lm["index"] or None) != (sm["index"] or None):
        return "other-index"
    if lm["index"] and lm["scale"] != sm["scale"]:
        return "other-scale"
    if any((not i["bump"]) and (D.fam_of(isa, sm["base"]) in i["writes"]) for i in kernel[a + 1:b]):
        return "base-clobbered"
    return "other-displacement" + ("/after-" + "+".join(sorted(bt)) if bt else "")


# ---------------------------------------------------------------- drivers

def run_synth(spec, R):
    from osaca.semantics import MachineModel

    rng = random.Random(spec["seed"])
    isa = spec["isa"]
    R.count("isa:" + isa)
    with gen_model.ScratchDir("c06") as d:
        for mi in range(spec["models"]):
            mseed = rng.getrandbits(48)
            mrng = random.Random(mseed)
            m, isa_db, vocab = D.dep_model(mrng, isa)
            path, ipath = os.path.join(d, "m%d.yml" % mi), os.path.join(d, "i%d.yml" % mi)
            open(path, "w").write(gen_model.model_yaml(m))
            open(ipath, "w").write(gen_model.model_yaml(isa_db))
            for k in range(spec["kernels"]):
                one_case("synth", isa, vocab, path, ipath, None, mseed, mrng.getrandbits(48), R)
            MachineModel._runtime_cache.pop(path, None)
            MachineModel._runtime_cache.pop(ipath, None)
            for fn in os.listdir(d):
                os.unlink(os.path.join(d, fn))


def one_case(kind, isa, vocab, path, ipath, arch, mseed, kseed, R, sample=True):
    krng = random.Random(kseed)
    kernel_ast, tags, near = stl_kernel(krng, isa, vocab, curated=(kind == "curated"))
    text = "\n".join(i["text"] for i in kernel_ast) + "\n"
    case = {"kind": kind, "isa": isa, "arch": arch, "model_seed": mseed, "kernel_seed": kseed, "kernel": text}
    try:
        with time_limit(60):
            forms, dg, mm = D.analyse(isa, path, ipath, text, flags=False, timeout=-1, arch=arch)
    except CaseTimeout:
        R.inconclusive += 1
        R.case()
        return
    except Exception as e:  # noqa
        R.exception(e, case)
        R.case()
        return
    if len(forms) != len(kernel_ast) or any("tp_unknown" in f.flags for f in forms):
        R.count("gate:not-recognised")
        R.case()
        return
    for t in tags:
        R.count(t)
    if any(("sd" in [m["role"] for m in i["mems"]]) or (i["flag_writes"] and any("d" in m["role"] for m in i["mems"])) for i in kernel_ast):
        R.count("multi_destination_store")
    if any("d" in m["role"] and D.same_operand(m, [x for x in kernel_ast[a]["mems"] if "d" in x["role"]][0])
           for a in range(len(kernel_ast)) if any("d" in x["role"] for x in kernel_ast[a]["mems"])
           for i in kernel_ast[a + 1:] for m in i["mems"]):
        R.count("killed_by_store")
    exp = judge(isa, kernel_ast, forms, dg, mm, R, case)
    R.case(digest((arch or "") + text), nontrivial=(exp > 0 and near))
    R.count("kind:" + kind)
    if arch:
        R.count("arch:" + arch)
    if sample:
        R.sample({"kind": kind, "arch": arch, "isa": isa, "kernel": text.strip().split("\n"),
                  "expected_store_load_edges": sorted([a + 1, b + 1] for a, b in D.ref_store_load(kernel_ast, isa)[0])}, limit=3)


def c06_vocab(isa):
    """The curated vocabulary without instructions that modify an address register in a non-constant, non-copy way which the
    shipped ISA database nevertheless describes by an 'operation' (AArch64 register-register add: outside the statement)."""
    V = []
    for f in D.curated_vocab(isa):
        if isa == "aarch64" and f["name"] == "add" and all(o["kind"] == "reg" for o in f["ops"]):
            continue
        if f["name"] == "leaq":
            continue
        V.append(f)
    return V


def run_curated(spec, R):
    arch = spec["arch"]
    isa = isolate.isa_of(arch)
    R.count("isa:" + isa)
    rng = random.Random(spec["seed"])
    vocab = c06_vocab(isa)
    for k in range(spec["kernels"]):
        one_case("curated", isa, vocab, None, None, arch, None, rng.getrandbits(48), R, sample=(k == 0))


def run_shard(spec, R):
    if spec["kind"] == "synth":
        run_synth(spec, R)
    else:
        run_curated(spec, R)


def replay(case, R):
    isa = case["isa"]
    if case["kind"] == "synth":
        mrng = random.Random(case["model_seed"])
        m, isa_db, vocab = D.dep_model(mrng, isa)
        with gen_model.ScratchDir("c06r") as d:
            path, ipath = os.path.join(d, "m.yml"), os.path.join(d, "i.yml")
            open(path, "w").write(gen_model.model_yaml(m))
            open(ipath, "w").write(gen_model.model_yaml(isa_db))
            one_case("synth", isa, vocab, path, ipath, None, case["model_seed"], case["kernel_seed"], R, sample=False)
    else:
        one_case("curated", isa, c06_vocab(isa), None, None, case["arch"], None, case["kernel_seed"], R, sample=False)
