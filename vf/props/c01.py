"""C01 Port pressure is a feasible split of each instruction's micro-ops.

Monitors: wrappers on ArchSemantics.add_semantics / assign_optimal_throughput snapshot every instruction's
(port_uops, port_pressure) and get_throughput_sum(kernel) after the uniform assignment, after the first and after the
second optimisation pass (the CLI's configuration). Oracle: R-sched (ref_sched.feasibility), written from the statement.
"""
import os
import random

from .. import gen_model, isolate, ref_sched, sched_workload as W
from ..common import EPS, STEP, CaseTimeout, digest, time_limit

LEVEL = "exploration"
RULE = (
    "synthetic port models (2-6 ports, multi-character names, 1-4 micro-ops, nested/overlapping/disjoint port sets, both YAML "
    "spellings, alternative assignments, zero-throughput lines) x random kernels (1-12 instr.); every shipped model x random "
    "streams of 8-16 instructions rendered from its own register forms; shipped corpus through the real CLI on models of its ISA; "
    "each under uniform / optimised once / optimised twice. Non-trivial: the balancer changed the pressure of at least one "
    "instruction that has a multi-port micro-op; distinct by digest of (model text or arch, kernel text)"
)
ASSUMPTIONS = [
    "tolerance under optimised scheduling: 0.01 x (sum over the instruction's micro-ops of their port-set sizes), see DESIGN.md 'Tolerances'",
    "shipped models: the instruction's micro-ops are taken from the observed port_uops, which must be the port data of an entry "
    "with the instruction's mnemonic (lookup correctness itself is C07/C08); entries with malformed port data (C15) are excluded",
    "models with load/store multipliers (zen1): a composed instruction is accepted if the split is feasible for one documented multiplier",
]
SHARD_TIMEOUT = {"quick": 600, "thorough": 3600}

QUICK_ARCHS = ["zen1", "zen2", "spr", "hsw", "snb", "tx2", "n1", "v2", "a64fx"]  # snb: the hidden_loads key is present but empty


def floors(tier):
    if tier == "quick":
        return {"evaluations": 700, "distinct_nontrivial": 150, "cfg:uniform": 700, "cfg:once": 700, "cfg:twice": 700,
                "kind:synth": 300, "kind:shipped": 100, "kind:cli": 20, "kind:clisynth": 40, "dict_checked": 100, "composed_memory_instr_seen": 300, "instr_checked": 10000, "alt_forms_seen": 20,
                "zero_tp_lines_seen": 20, "multichar_port_models": 10, "totals_checked": 2000}
    return {"evaluations": 9000, "distinct_nontrivial": 2000, "cfg:uniform": 9000, "cfg:once": 9000, "cfg:twice": 9000,
            "kind:synth": 5000, "kind:shipped": 1500, "kind:cli": 150, "kind:clisynth": 800, "dict_checked": 1500, "composed_memory_instr_seen": 4000, "instr_checked": 100000, "alt_forms_seen": 200,
            "zero_tp_lines_seen": 200, "multichar_port_models": 100, "totals_checked": 20000}


def plan(tier, seed):
    specs = []
    if tier == "quick":
        for i in range(10):
            specs.append({"kind": "synth", "models": 15, "kernels": 4})
        archs = QUICK_ARCHS
        for a in archs:
            specs.append({"kind": "shipped", "arch": a, "kernels": 25})
        for a in ["zen1", "zen2", "spr", "tx2", "v2", "n1"]:
            specs.append({"kind": "cli", "arch": a, "max_files": 8})
        for a in ["zen3", "a64fx", "zen2", "n1"]:
            specs.append({"kind": "clisynth", "arch": a, "kernels": 15})
    else:
        for i in range(32):
            specs.append({"kind": "synth", "models": 60, "kernels": 8})
        for a in isolate.arch_models():
            for j in range(2):
                specs.append({"kind": "shipped", "arch": a, "kernels": 60})
        for a in isolate.arch_models():
            specs.append({"kind": "cli", "arch": a, "max_files": 1000})
            specs.append({"kind": "clisynth", "arch": a, "kernels": 60})
    return specs


# ---------------------------------------------------------------- oracle

def instr_tol(uops):
    return STEP * sum(len(P) for _, P in uops) + EPS


def overlapping_different(uops):
    sets = [frozenset(P) for _, P in uops]
    for i in range(len(sets)):
        for j in range(i + 1, len(sets)):
            if sets[i] != sets[j] and sets[i] & sets[j]:
                return True
    return False


def judge_instruction(ports, cfg, snap, expected_alts, tables, R, case, once_ok=None, idx=None):
    """expected_alts: list of admissible micro-op lists (>1 for alternative assignments). Returns True if feasible."""
    x = snap["pressure"]
    if x is None or len(x) != len(ports):
        R.violation("shape/pressure-length", "pressure vector %r for %d ports" % (x, len(ports)), case)
        return False
    obs = snap["uops"]
    if "alts" in obs:
        if cfg != "uniform":
            R.violation("uops/alternatives-left-after-optimisation", "port_uops still a mapping of alternatives after optimisation", case)
            return False
        if obs["alts"] != expected_alts:
            R.violation("uops/not-the-entry's", "port_uops %r, entry %r" % (obs["alts"], expected_alts), case)
            return False
        uops = expected_alts[0]
    else:
        uops = obs["list"]
        if uops not in expected_alts:
            R.violation("uops/not-the-entry's", "port_uops %r not among the entry's %r (%s)" % (uops, expected_alts, cfg), case)
            return False
    best = None
    for cand in W.scaled_candidates(uops, tables) if tables else [uops]:
        tol = EPS if cfg == "uniform" else instr_tol(cand)
        bad = ref_sched.feasibility(ports, cand, x, tol)
        if cfg == "uniform" and not bad:
            u = ref_sched.uniform_split(ports, cand)
            if max(abs(a - b) for a, b in zip(u, x)) > EPS:
                bad = [("uniform", "pressure %r is not the 1/N split %r" % (x, u))]
        if best is None or len(bad) < len(best[0]):
            best = (bad, cand)
        if not bad:
            break
    bad, cand = best
    if not bad:
        return True
    clauses = sorted(set(b[0] for b in bad))
    if cfg == "twice" and clauses == ["hall"] and once_ok and len(cand) >= 2 and overlapping_different(cand):
        key = "second-pass-overlapping-portsets"
    else:
        key = "infeasible/%s/%s" % (cfg, "+".join(clauses))
    R.violation(key, "%s: line %r micro-ops %r pressure %r: %s" % (cfg, snap["line"], cand, [round(v, 4) for v in x], "; ".join(b[1] for b in bad)),
                dict(case, instr=idx, cfg=cfg))
    return False


def judge_totals(ports, cfg, ev, R, case):
    kind, snaps, reported = ev
    cols = [0.0] * len(ports)
    summed = 0
    for s in snaps:
        if s["throughput"] != 0.0 and s["pressure"] is not None:
            summed += 1
            for i, v in enumerate(s["pressure"]):
                cols[i] += v
        elif s["mnemonic"] is not None and s["pressure"] and any(abs(v) > 0 for v in s["pressure"]):
            R.count("zero_tp_lines_seen")
    R.count("totals_checked")
    if summed == 0:
        if reported not in ([], [0.0] * len(ports)):
            R.violation("totals/nonempty-without-summed-lines", "%s: totals %r although no line carries throughput" % (cfg, reported), case)
        return cols
    if len(reported) != len(ports):
        R.violation("totals/length", "%s: %d totals for %d ports" % (cfg, len(reported), len(ports)), case)
        return cols
    for i, p in enumerate(ports):
        if abs(reported[i] - cols[i]) > 0.005 + 1e-7:
            R.violation("totals/not-column-sum", "%s: port %s total %.4f, column sum over lines with throughput %.4f" % (cfg, p, reported[i], cols[i]),
                        dict(case, cfg=cfg))
            break
    return cols


def judge_kernel(ports, evs, expected, tables, R, case):
    """evs: {'uniform','once','twice'} events; expected: per instruction list of admissible micro-op lists or None (derive from uniform snapshot)."""
    n = len(evs["uniform"][1])
    feasible_once = {}
    changed = False
    for cfg in ("uniform", "once", "twice"):
        if cfg not in evs:
            continue
        R.count("cfg:" + cfg)
        kind, snaps, reported = evs[cfg]
        if len(snaps) != n:
            R.violation("shape/kernel-length-changed", "%s: %d lines, uniform had %d" % (cfg, len(snaps), n), case)
            continue
        for i, s in enumerate(snaps):
            if s["mnemonic"] is None:
                continue
            exp = expected[i]
            if exp is None:
                continue
            R.count("instr_checked")
            ok = judge_instruction(ports, cfg, s, exp, tables, R, case, once_ok=feasible_once.get(i), idx=i)
            if cfg == "once":
                feasible_once[i] = ok
            if cfg != "uniform":
                u = evs["uniform"][1][i]["pressure"]
                if u is not None and s["pressure"] is not None and any(len(P) > 1 for al in exp for _, P in al):
                    if max(abs(a - b) for a, b in zip(u, s["pressure"])) > 1e-6:
                        changed = True
        judge_totals(ports, cfg, evs[cfg], R, case)
    return changed


# ---------------------------------------------------------------- workloads

def expected_from_meta(meta_by_name, names):
    out = []
    for nm in names:
        f = meta_by_name[nm]
        alts = f["alts"] if f["alts"] else [f["uops"]]
        out.append([ref_sched.norm_uops(a) for a in alts])
    return out


def run_synth_case(rng_seed, isa, kernels, R, mon, d, tag):
    from osaca.parser import get_parser
    from osaca.semantics import ArchSemantics, MachineModel

    rng = random.Random(rng_seed)
    m, meta = gen_model.port_model(rng, isa)
    text = gen_model.model_yaml(m)
    path = os.path.join(d, "m%s.yml" % tag)
    with open(path, "w") as f:
        f.write(text)
    mm = MachineModel(path_to_yaml=path)
    sem = ArchSemantics(mm)
    parser = get_parser(isa)
    ports = m["ports"]
    if any(len(p) > 1 for p in ports):
        R.count("multichar_port_models")
    if any(f["alts"] for f in meta):
        R.count("alt_models")
    by = {f["name"]: f for f in meta}
    for k in range(kernels):
        ktext, names = W.synth_kernel_text(rng, meta, isa)
        case = {"kind": "synth", "isa": isa, "model_seed": rng_seed, "kernel": ktext, "model_yaml": text}
        R.count("alt_forms_seen", sum(1 for n in names if by[n]["alts"]))
        try:
            with time_limit(60):
                evs = W.three_configs(sem, parser, ktext, mon)
        except CaseTimeout:
            R.inconclusive += 1
            R.case()
            continue
        except Exception as e:  # noqa
            R.exception(e, case)
            R.case()
            continue
        changed = judge_kernel(ports, evs, expected_from_meta(by, names), None, R, case)
        R.case(digest([text, ktext]), nontrivial=changed)
        R.count("kind:synth")
        R.sample({"kind": "synth", "ports": ports, "forms": {n: by[n]["alts"] or by[n]["uops"] for n in sorted(set(names))},
                  "kernel": ktext.strip().split("\n"),
                  "pressure_after_twice": [[round(v, 3) for v in s["pressure"]] for s in evs["twice"][1]]}, limit=2)
    MachineModel._runtime_cache.pop(path, None)
    for fn in os.listdir(d):
        if fn.startswith(".m%s_" % tag) or fn == "m%s.yml" % tag:
            os.unlink(os.path.join(d, fn))


def expected_from_observation(mm, evs, R, case):
    """Shipped models: admissible micro-op lists = the observed port data after add_semantics, provided it is the port data of
    an entry with that mnemonic (or a composition for memory forms)."""
    out = []
    d = mm["instruction_forms_dict"]
    for s in evs["uniform"][1]:
        if s["mnemonic"] is None:
            out.append(None)
            continue
        obs = s["uops"]
        alts = obs["alts"] if "alts" in obs else [obs["list"]]
        composed = ("performs_load" in s["flags"] or "performs_store" in s["flags"]) and "is_load_instruction" not in s["flags"]
        if not composed:
            name = s["mnemonic"].upper()
            # entries under the full mnemonic and under the documented fall-back names (which one applies is C07's business)
            cands = list(d.get(name, []))
            if name[-1:] in "BSWLQT":
                cands += list(d.get(name[:-1], []))
            if "." in name:
                cands += list(d.get(name.split(".")[0], []))
            known = []
            for e in cands:
                pp = e.port_pressure
                if pp is None:
                    continue
                known.append([ref_sched.norm_uops(v) for v in pp.values()] if isinstance(pp, dict) else [ref_sched.norm_uops(pp)])
            if "tp_unknown" in s["flags"] and "lt_unknown" in s["flags"] and alts == [[]]:
                # instruction without model data (C08's business): nothing is scheduled, pressure must be zero
                out.append([[]])
                R.count("unknown_instr_seen")
                continue
            if alts not in known and cands:
                R.violation("uops/not-the-entry's", "line %r: port_uops %r is not the port data of any %s entry" % (s["line"], alts, name), case)
                out.append(None)
                continue
        if composed:
            R.count("composed_memory_instr_seen")
        out.append(alts)
    return out


def run_shipped(spec, R, mon):
    from osaca.parser import get_parser
    from osaca.semantics import ArchSemantics, MachineModel

    arch = spec["arch"]
    rng = random.Random(spec["seed"])
    mm = MachineModel(arch=arch)
    isa = mm.get_ISA()
    sem = ArchSemantics(mm)
    parser = get_parser(isa)
    entries = W.regonly_entries(mm, isa)
    tables = W.model_tables(mm)
    ports = list(mm.get_ports())
    for k in range(spec["kernels"]):
        ktext = W.shipped_stream_text(rng, entries, isa)
        case = {"kind": "shipped", "arch": arch, "kernel": ktext}
        try:
            with time_limit(60):
                evs = W.three_configs(sem, parser, ktext, mon)
        except CaseTimeout:
            R.inconclusive += 1
            R.case()
            continue
        except Exception as e:  # noqa
            R.exception(e, case)
            R.case()
            continue
        exp = expected_from_observation(mm, evs, R, case)
        changed = judge_kernel(ports, evs, exp, tables, R, case)
        R.case(digest([arch, ktext]), nontrivial=changed)
        R.count("kind:shipped")
        R.count("arch:" + arch)
        if k == 0:
            R.sample({"kind": "shipped", "arch": arch, "kernel": ktext.strip().split("\n")[:6]}, limit=3)


def run_cli(spec, R, mon):
    from osaca.semantics import MachineModel
    from .. import corpus

    arch = spec["arch"]
    isa = isolate.isa_of(arch)
    rng = random.Random(spec["seed"])
    mm = MachineModel(arch=arch)
    tables = W.model_tables(mm)
    ports = list(mm.get_ports())
    with gen_model.ScratchDir("c01cli") as d:
        if spec["kind"] == "cli":
            files = corpus.corpus(isa)
            rng.shuffle(files)
            files = [(f, None) for f in files[: spec["max_files"]]]
        else:
            entries = W.regonly_entries(mm, isa)
            files = []
            for k in range(spec["kernels"]):
                text = W.shipped_stream_text(rng, entries, isa, 1, 10)
                fn = os.path.join(d, "k%d.s" % k)
                with open(fn, "w") as fh:
                    fh.write(text)
                files.append((fn, text))
        for f, text in files:
            for fixed in (False, True):
                case = {"kind": spec["kind"], "arch": arch, "file": f, "fixed": fixed, "text": text}
                cli_case(arch, f, fixed, mm, ports, tables, R, mon, case)


def cli_case(arch, f, fixed, mm, ports, tables, R, mon, case):
    mon.take()
    yml = os.path.join(os.path.dirname(f) if case.get("text") else os.environ.get("VERIF_HOME", "/tmp"), "c01-%d.yml" % os.getpid())
    try:
        with time_limit(120):
            W.run_cli(["--arch", arch, "--ignore-unknown", "--lcd-timeout", "0", "--yaml-out", yml] + (["--fixed"] if fixed else []) + [f])
    except CaseTimeout:
        R.inconclusive += 1
        R.case()
        return
    except Exception as e:  # noqa
        R.exception(e, case)
        R.case()
        return
    ev = mon.take()
    kinds = [e[0] for e in ev]
    if fixed:
        if kinds != ["uniform"]:
            R.violation("cli/--fixed-ran-optimiser", "--fixed run performed %r" % kinds, case)
            return
        evs = {"uniform": ev[0]}
    else:
        if kinds != ["uniform", "optimised", "optimised"]:
            R.count("cli_unexpected_sequence")
            if kinds[:1] != ["uniform"] or len(kinds) < 2:
                R.violation("cli/no-optimisation", "default run performed %r" % kinds, case)
                return
        evs = {"uniform": ev[0], "once": ev[1], "twice": ev[-1]}
    exp = expected_from_observation(mm, evs, R, case)
    changed = judge_kernel(ports, evs, exp, tables, R, case)
    judge_dict(ports, ev[-1], yml, R, case)
    R.case(digest([arch, case.get("text") or os.path.basename(f), fixed]), nontrivial=changed)
    R.count("kind:" + case["kind"])


def judge_dict(ports, last_event, yml, R, case):
    """The machine-readable output carries exactly the per-instruction pressure and the totals the scheduler left behind."""
    from ruamel.yaml import YAML

    try:
        with open(yml) as fh:
            d = YAML(typ="unsafe", pure=True).load(fh)
    except Exception as e:  # noqa
        R.count("yaml_not_loadable")
        return
    finally:
        try:
            os.unlink(yml)
        except OSError:
            pass
    kind, snaps, reported = last_event
    R.count("dict_checked")
    if list(d["Target"]["Ports"]) != list(ports):
        R.violation("dict/ports", "dict lists ports %s, model has %s" % (d["Target"]["Ports"], ports), case)
        return
    if len(d["Kernel"]) != len(snaps):
        R.violation("dict/kernel-length", "dict has %d lines, %d were scheduled" % (len(d["Kernel"]), len(snaps)), case)
        return
    for i, (row, sn) in enumerate(zip(d["Kernel"], snaps)):
        got = [float(row["PortPressure"][p]) for p in ports]
        if sn["pressure"] is not None and max(abs(a - b) for a, b in zip(got, sn["pressure"])) > 1e-9:
            R.violation("dict/per-instruction-pressure", "line %d: dict pressure %s, scheduler left %s" % (i + 1, got, sn["pressure"]), case)
            return
    tot = [float(d["Summary"]["PortPressure"][p]) for p in ports]
    if reported and max(abs(a - b) for a, b in zip(tot, reported)) > 1e-9:
        R.violation("dict/summary-pressure", "dict totals %s, get_throughput_sum %s" % (tot, reported), case)


def run_shard(spec, R):
    mon = W.SchedMonitor()
    try:
        if spec["kind"] == "synth":
            rng = random.Random(spec["seed"])
            with gen_model.ScratchDir("c01") as d:
                for i in range(spec["models"]):
                    isa = "x86" if rng.random() < 0.7 else "aarch64"
                    run_synth_case(rng.getrandbits(48), isa, spec["kernels"], R, mon, d, str(i))
        elif spec["kind"] == "shipped":
            run_shipped(spec, R, mon)
        else:
            run_cli(spec, R, mon)
    finally:
        mon.close()
    for k, v in mon.mon.calls.items():
        R.count("monitor:" + k, v)


def replay(case, R):
    from osaca.parser import get_parser
    from osaca.semantics import ArchSemantics, MachineModel

    mon = W.SchedMonitor()
    try:
        if case["kind"] == "synth":
            with gen_model.ScratchDir("c01r") as d:
                rng = random.Random(case["model_seed"])
                m, meta = gen_model.port_model(rng, case["isa"])
                path = os.path.join(d, "m.yml")
                with open(path, "w") as f:
                    f.write(case["model_yaml"])
                mm = MachineModel(path_to_yaml=path)
                sem = ArchSemantics(mm)
                by = {f["name"]: f for f in meta}
                names = [l.split()[0] for l in case["kernel"].strip().split("\n")]
                evs = W.three_configs(sem, get_parser(case["isa"]), case["kernel"], mon)
                judge_kernel(m["ports"], evs, expected_from_meta(by, names), None, R, case)
                R.case()
        elif case["kind"] == "shipped":
            mm = MachineModel(arch=case["arch"])
            sem = ArchSemantics(mm)
            evs = W.three_configs(sem, get_parser(mm.get_ISA()), case["kernel"], mon)
            judge_kernel(list(mm.get_ports()), evs, expected_from_observation(mm, evs, R, case), W.model_tables(mm), R, case)
            R.case()
        else:
            mm = MachineModel(arch=case["arch"])
            with gen_model.ScratchDir("c01r") as d:
                f = case["file"]
                if case.get("text"):
                    f = os.path.join(d, "k.s")
                    with open(f, "w") as fh:
                        fh.write(case["text"])
                cli_case(case["arch"], f, case["fixed"], mm, list(mm.get_ports()), W.model_tables(mm), R, mon, case)
    finally:
        mon.close()
