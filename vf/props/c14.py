"""C14 Loop-carried dependencies are invariant under rotation of the loop body.

Metamorphic monitor: the real pipeline analyses every rotation of a kernel from a fresh parse; the loop-carried dependency
sets (members mapped back to the original instruction index, latency) and the maximum must be equal for all offsets.
"""
import os
import random

from .. import depgen as D
from .. import corpus, gen_model, isolate
from ..common import CaseTimeout, digest, time_limit
from . import c05, c06

LEVEL = "exploration"
RULE = (
    "shipped example/test kernels of at most 40 lines on the models of their ISA x all rotation offsets; generated kernels (C05's "
    "dense register kernels, C06's store/load kernels with pointer bumps, AArch64 write-back addressing) on synthetic and shipped "
    "models x all rotation offsets. Non-trivial: the kernel has a cycle with >= 2 members (some rotation point cuts it); distinct "
    "by digest of (model, kernel text)"
)
ASSUMPTIONS = ["every rotation is analysed from a fresh parse of the rotated text with timeout -1 (complete search)"]
SHARD_TIMEOUT = {"quick": 900, "thorough": 5400}


def floors(tier):
    q = tier == "quick"
    return {"evaluations": 250 if q else 4000, "distinct_nontrivial": 80 if q else 1500, "rotations": 1500 if q else 25000,
            "kind:corpus": 10 if q else 80, "kind:synth": 120 if q else 1200, "kind:stl": 60 if q else 700, "kind:curated": 40 if q else 600,
            "kernels_with_cycles": 150 if q else 2500, "kind:long": 3 if q else 30,
            "mixed_addressing_kernels": 6 if q else 60}


def plan(tier, seed):
    q = tier == "quick"
    specs = []
    for a in (["zen2", "spr", "tx2", "v2"] if q else isolate.arch_models()):
        specs.append({"kind": "corpus", "arch": a, "max_files": 4 if q else 100})
    for i in range(10 if q else 32):
        specs.append({"kind": "synth", "isa": "x86" if i % 2 == 0 else "aarch64", "models": 5 if q else 20, "kernels": 5})
    for a in (["zen2", "zen1", "tx2", "n1"] if q else isolate.arch_models()):
        specs.append({"kind": "curated", "arch": a, "kernels": 25 if q else 120})
    # kernels of 50 and more lines take the multi-process search: rotations that put each dependency-carrying line last
    for i in range(4 if q else 24):
        specs.append({"kind": "long", "isa": "x86" if i % 2 == 0 else "aarch64", "kernels": 1 if q else 2})
    return specs


def lcd_set(isa, path, ipath, arch, lines, rot, flags):
    n = len(lines)
    # every other rotation is written without a final newline (text assembled with "\n".join): the same instruction stream
    text = "\n".join(lines[rot:] + lines[:rot]) + ("\n" if rot % 2 == 0 else "")
    forms, dg, mm, sem, parser = c05.analyse_case(isa, path, ipath, arch, text, flags, 0)
    if len(forms) != n:
        return None
    idx = {f.line_number: (i + rot) % n for i, f in enumerate(forms)}
    out = set()
    for key, v in dg.get_loopcarried_dependencies().items():
        # members with the latency each of them passes on (which member carries which latency must not depend on the rotation)
        members = tuple(sorted((idx[d[0].line_number], round(float(d[1]), 6)) for d in v["dependencies"]))
        out.add((members, round(float(v["latency"]), 6)))
    return out


def check_rotations(kind, isa, path, ipath, arch, lines, flags, R, case, offsets=None):
    n = len(lines)
    try:
        with time_limit(240 if offsets is None else 900):
            base = lcd_set(isa, path, ipath, arch, lines, 0, flags)
            if base is None:
                R.count("gate:line-count")
                R.case()
                return
            for r in (range(1, n) if offsets is None else offsets):
                got = lcd_set(isa, path, ipath, arch, lines, r, flags)
                R.count("rotations")
                if got is None:
                    R.violation("rotation/%s/lines-lost" % isa, "rotating by %d lines: the analysed kernel has not %d lines any more" % (r, n), dict(case, rotation=r))
                    break
                if got != base:
                    lost, new = sorted(base - got), sorted(got - base)
                    tag = "lost" if lost and not new else "new" if new and not lost else "changed"
                    bm, gm = set(tuple(i for i, w in m) for m, l in base), set(tuple(i for i, w in m) for m, l in got)
                    sub = "latency-only" if bm == gm else "members"
                    R.violation("rotation/%s/%s/%s" % (isa, tag, sub), "rotating by %d lines: cycles lost %s, new %s (maximum %s -> %s)"
                                % (r, lost[:3], new[:3], max([l for m, l in base] or [0]), max([l for m, l in got] or [0])), dict(case, rotation=r))
                    break
    except CaseTimeout:
        R.inconclusive += 1
        R.case()
        return
    except Exception as e:  # noqa
        R.exception(e, case)
        R.case()
        return
    if base:
        R.count("kernels_with_cycles")
    R.case(digest((arch or case.get("model_seed", "")) and str(arch or case.get("model_seed")) + "\n".join(lines)), nontrivial=any(len(m) >= 2 for m, l in base))
    R.count("kind:" + kind)
    R.sample({"kind": kind, "arch": arch, "lines": n, "cycles": sorted([[list(x) for x in m], l] for m, l in base)[:4], "kernel_head": lines[:4]}, limit=3)


def run_corpus(spec, R):
    arch = spec["arch"]
    isa = isolate.isa_of(arch)
    rng = random.Random(spec["seed"])
    files = corpus.corpus(isa)
    rng.shuffle(files)
    done = 0
    for f in files:
        if done >= spec["max_files"]:
            break
        kernel, parser = corpus.marked_kernel(f, isa)
        lines = [k.line for k in kernel]
        if len(lines) > 40 or len(lines) < 2:
            R.count("corpus_skipped_long")
            continue
        done += 1
        check_rotations("corpus", isa, None, None, arch, lines, False, R, {"kind": "corpus", "arch": arch, "file": f})


def run_synth(spec, R):
    from osaca.semantics import MachineModel

    rng = random.Random(spec["seed"])
    isa = spec["isa"]
    with gen_model.ScratchDir("c14") as d:
        for mi in range(spec["models"]):
            mseed = rng.getrandbits(48)
            mrng = random.Random(mseed)
            m, isa_db, vocab = D.dep_model(mrng, isa)
            path, ipath = os.path.join(d, "m%d.yml" % mi), os.path.join(d, "i%d.yml" % mi)
            open(path, "w").write(gen_model.model_yaml(m))
            open(ipath, "w").write(gen_model.model_yaml(isa_db))
            for k in range(spec["kernels"]):
                gen_case(isa, vocab, path, ipath, None, mseed, mrng.getrandbits(48), R)
            MachineModel._runtime_cache.pop(path, None)
            MachineModel._runtime_cache.pop(ipath, None)
            for fn in os.listdir(d):
                os.unlink(os.path.join(d, fn))


def mixed_addressing_kernel(krng):
    """AArch64: one load mnemonic and register class used with plain/offset addressing (its result on a memory-carried cycle)
    and with write-back addressing (a streaming load) in the same loop body"""
    w = krng.choice(["d", "d", "q"])
    a, b = krng.sample(range(0, 32), 2)
    b1, b2 = krng.sample(range(0, 29), 2)
    sz = 8 if w == "d" else 16
    op = "fadd d%d, d%d, d%d" % (a, a, b) if w == "d" else "fadd v%d.2d, v%d.2d, v%d.2d" % (a, a, b)
    stream = krng.choice(["ldr %s%d, [x%d], #%d" % (w, b, b2, sz), "ldr %s%d, [x%d, #%d]!" % (w, b, b2, sz)])
    body = ["ldr %s%d, [x%d]" % (w, a, b1), op, "str %s%d, [x%d, #%d]" % (w, a, b1, sz), "add x%d, x%d, #%d" % (b1, b1, sz)]
    body.insert(krng.choice([0, 2, 4]), stream)
    return [{"text": t} for t in body]


def gen_case(isa, vocab, path, ipath, arch, mseed, kseed, R, shape=None):
    krng = random.Random(kseed)
    curated = arch is not None
    if shape == "mixed-addressing":
        kernel_ast = mixed_addressing_kernel(krng)
        kind = "curated"
        R.count("mixed_addressing_kernels")
    elif krng.random() < 0.4:
        kernel_ast, _, _ = c06.stl_kernel(krng, isa, c06.c06_vocab(isa) if curated else vocab, curated=curated)
        kind = "stl"
    else:
        kernel_ast = c05.dense_kernel(krng, isa, vocab, curated)
        kind = "curated" if curated else "synth"
    if len(kernel_ast) < 2:
        return
    flags = (not curated) and krng.random() < 0.3
    lines = [i["text"] for i in kernel_ast]
    case = {"kind": kind, "gen": "curated" if curated else "synth", "isa": isa, "arch": arch, "model_seed": mseed, "kernel_seed": kseed,
            "kernel": "\n".join(lines), "flags": flags}
    if shape:
        case["shape"] = shape
    check_rotations(kind, isa, path, ipath, arch, lines, flags, R, case)


def run_long(spec, R):
    from osaca.semantics import MachineModel
    from . import c16

    rng = random.Random(spec["seed"])
    isa = spec["isa"]
    with gen_model.ScratchDir("c14l") as d:
        for k in range(spec["kernels"]):
            mseed = rng.getrandbits(48)
            mrng = random.Random(mseed)
            m, isa_db, vocab = D.dep_model(mrng, isa)
            path, ipath = os.path.join(d, "m%d.yml" % k), os.path.join(d, "i%d.yml" % k)
            open(path, "w").write(gen_model.model_yaml(m))
            open(ipath, "w").write(gen_model.model_yaml(isa_db))
            kseed = mrng.getrandbits(48)
            krng = random.Random(kseed)
            lines = c16.make_kernel(krng, isa, vocab, krng.choice([50, 52, 57, 64]))
            n = len(lines)
            core = [i for i, l in enumerate(lines) if not l.startswith("fw0a")]
            # every rotation that leaves a dependency-carrying line last, plus a few others
            offsets = sorted(set([(i + 1) % n for i in core] + [krng.randrange(1, n) for _ in range(4)]) - {0})
            case = {"kind": "long", "gen": "long", "isa": isa, "model_seed": mseed, "kernel_seed": kseed, "kernel": "\n".join(lines), "flags": False}
            check_rotations("long", isa, path, ipath, None, lines, False, R, case, offsets=offsets)
            MachineModel._runtime_cache.pop(path, None)
            MachineModel._runtime_cache.pop(ipath, None)


def run_curated(spec, R):
    arch = spec["arch"]
    isa = isolate.isa_of(arch)
    rng = random.Random(spec["seed"])
    vocab = D.curated_vocab(isa)
    for k in range(spec["kernels"]):
        gen_case(isa, vocab, None, None, arch, None, rng.getrandbits(48), R)
    if isa == "aarch64":
        # fixed-shape class, so that it does not depend on what the random kernels happen to combine
        for k in range(max(3, spec["kernels"] // 8)):
            gen_case(isa, vocab, None, None, arch, None, rng.getrandbits(48), R, shape="mixed-addressing")


def run_shard(spec, R):
    {"corpus": run_corpus, "synth": run_synth, "curated": run_curated, "long": run_long}[spec["kind"]](spec, R)


def replay(case, R):
    if case["kind"] == "corpus":
        isa = isolate.isa_of(case["arch"])
        kernel, parser = corpus.marked_kernel(case["file"], isa)
        check_rotations("corpus", isa, None, None, case["arch"], [k.line for k in kernel], False, R, case)
    elif case.get("gen") == "long":
        from . import c16

        isa = case["isa"]
        mrng = random.Random(case["model_seed"])
        m, isa_db, vocab = D.dep_model(mrng, isa)
        with gen_model.ScratchDir("c14r") as d:
            path, ipath = os.path.join(d, "m.yml"), os.path.join(d, "i.yml")
            open(path, "w").write(gen_model.model_yaml(m))
            open(ipath, "w").write(gen_model.model_yaml(isa_db))
            lines = case["kernel"].split("\n")
            offs = [case["rotation"]] if "rotation" in case else None
            check_rotations("long", isa, path, ipath, None, lines, False, R, case, offsets=offs or list(range(1, len(lines))))
    elif case.get("gen") == "synth":
        isa = case["isa"]
        mrng = random.Random(case["model_seed"])
        m, isa_db, vocab = D.dep_model(mrng, isa)
        with gen_model.ScratchDir("c14r") as d:
            path, ipath = os.path.join(d, "m.yml"), os.path.join(d, "i.yml")
            open(path, "w").write(gen_model.model_yaml(m))
            open(ipath, "w").write(gen_model.model_yaml(isa_db))
            gen_case(isa, vocab, path, ipath, None, case["model_seed"], case["kernel_seed"], R)
    else:
        isa = case["isa"]
        gen_case(isa, D.curated_vocab(isa), None, None, case["arch"], None, case["kernel_seed"], R, shape=case.get("shape"))
