"""C18 Analyses are independent of what was analysed before in the same process.

Events: the reports of a sequence of ``osaca.osaca.run(args)`` calls made in ONE fresh driver process
(``python -m vf.cli``, no instrumentation) and the report of the real command line in one fresh process per element.
Oracle: element-wise equality of (exit status, exception type, report text modulo time stamp and file path).
"""
import os
import random
import re
import shutil

from .. import cli, isolate
from ..common import digest

LEVEL = "exploration"
RULE = (
    "per shard a seeded pool of analysis requests (model x kernel x options: shipped marked kernels of both ISAs and generated "
    "kernels with unknown instructions, memory-operand forms composed from register form + load/store - x86 'op (mem),reg', "
    "read-modify-write 'op reg,(mem)', AArch64 pre/post-indexed loads/stores - and alternative-port forms; options --fixed, -f, "
    "--ignore-unknown, --lines, default arch); random sequences of length 6-20 with repetitions drawn from the pool, each run "
    "in one fresh process and compared element-wise with fresh-process runs; one case = one sequence element; non-trivial = the "
    "element repeats a request made earlier in the sequence with at least one different request in between; distinct = distinct "
    "(request, set of distinct requests made before it)"
)
ASSUMPTIONS = [
    "a request on which a fresh process fails (non-zero exit) is outside the promise 'gives the same report'; it is still run in "
    "sequence and must fail with the same exception type (otherwise violation), counted as both_fail",
    "elements whose report carries the LCD-timeout warning in either run are wall-clock dependent and counted inconclusive",
    "the fresh-process report of one request is computed once per shard and reused (the fresh run is itself repeated for a seeded "
    "tenth of the requests to check that fresh runs are deterministic)",
    "kernel_x86_long_LCD.s and the unmarked 345-line file are excluded (LCD timeout / run time)",
]
SHARD_TIMEOUT = {"quick": 600, "thorough": 3000}

QUICK_ARCHS = {"x86": ["zen1", "zen2", "spr", "icx", "zen3"], "aarch64": ["tx2", "n1", "v2", "a64fx", "a72"]}

X86_LINES = {
    "reg": ["vaddpd %ymm1, %ymm2, %ymm3", "vmulpd %ymm3, %ymm4, %ymm5", "addq $8, %rax", "vfmadd231pd %ymm1, %ymm2, %ymm0",
            "subq $1, %rcx", "vmovapd %ymm3, %ymm6", "addl %eax, %ebx", "incq %rdx", "cmpq %rcx, %rax", "vaddsd %xmm0, %xmm1, %xmm1",
            "imulq %rbx, %rdx", "xorl %eax, %eax"],
    "load": ["vmovapd (%rax), %ymm1", "vmovupd 32(%rbx,%rcx,8), %ymm4", "movq 8(%rsi), %rdx", "vmovsd (%rdi,%rax,8), %xmm0"],
    "store": ["vmovapd %ymm3, (%rdx)", "movq %rax, 16(%rsp)", "vmovupd %ymm5, 64(%rdi,%rcx,8)", "vmovsd %xmm1, (%rsi,%rax,8)"],
    "mem-src": ["vaddpd (%rax), %ymm1, %ymm2", "vmulpd 8(%rbx,%rcx,8), %ymm1, %ymm3", "vfmadd231pd (%rax), %ymm1, %ymm2",
                "addq (%rsi), %rax", "vaddsd 8(%rdi), %xmm0, %xmm0", "vsubpd (%r8,%r9,8), %ymm2, %ymm7", "cmpq (%rdx), %rax"],
    "rmw": ["addq $1, (%rax)", "subq $1, 8(%rcx,%rdx,8)", "addl %eax, (%rdx)", "incq (%rax)", "orq %rax, 8(%rbx)",
            "addq %rcx, (%rdi,%rsi,8)", "xorl %ebx, 4(%rax)"],
    "unknown": ["fancyop %xmm0, %xmm1", "vfoobarpd (%rax), %ymm1, %ymm2", "blorp %rax"],
    # assembler constants: defined in one file, used (undefined) in another
    "setdef": [".set STRIDE, 64", ".equ STEP, 8", ".set STRIDE, 32"],
    "setuse": ["addq $STRIDE, %rax", "addq $STEP, %rcx", "subq $STRIDE, %rdx"],
    "branch": ["jne .L2", "jb .L2"],
}
A64_LINES = {
    "reg": ["fadd v0.2d, v1.2d, v2.2d", "fmul v3.2d, v0.2d, v4.2d", "add x1, x1, #16", "fmla v5.2d, v1.2d, v2.2d",
            "subs x2, x2, #1", "add x3, x4, x5", "fadd d0, d1, d2", "mov x6, x7", "cmp x1, x2", "fmadd d3, d4, d5, d6"],
    "load": ["ldr q1, [x0]", "ldr q2, [x0, #16]", "ldp q3, q4, [x1]", "ldr d5, [x2, x3, lsl #3]", "ldr x9, [x10, #8]"],
    "store": ["str q1, [x5]", "stp q3, q4, [x6]", "str d0, [x7, #8]", "str x9, [x11]"],
    "load-wb": ["ldr q1, [x0, #16]!", "ldr x1, [x0], #8", "ldp q0, q1, [x2, #32]!", "ldr d2, [x3], #8", "ldp x4, x5, [x6], #16",
                "ldr q7, [x8], #16"],
    "store-wb": ["str q1, [x0, #16]!", "str d2, [x3], #8", "stp q0, q1, [x2, #32]!", "str x4, [x5], #8"],
    # write-back addressing on mnemonics the ISA description does not list (operand roles assigned by the default rule)
    "wb-noisa": ["strb w3, [x0], #1", "strh w4, [x1, #2]!", "ld1 {v0.4s}, [x1], #16", "st1 {v0.2d}, [x2], #16",
                 "ldpsw x1, x2, [x3], #8", "ld1r {v1.2d}, [x4], #8", "ldrsw x5, [x6], #4"],
    "altport": ["smlal v0.4s, v1.4h, v2.4h", "smlal2 v3.2d, v4.4s, v5.4s", "smlal v6.2d, v7.2s, v8.2s"],
    "unknown": ["fancyop x1, x2", "blorp v0.2d, v1.2d", "frobnicate d0, d1, d2"],
    "branch": ["b.ne .L2", "bne .L2"],
}
MEMISH = {"x86": ["mem-src", "rmw", "load", "store", "setdef", "setuse"], "aarch64": ["load-wb", "store-wb", "load", "store", "altport", "wb-noisa"]}


# ----------------------------------------------------------------------------------------------------------------


def plan(tier, seed):
    n = 16 if tier == "quick" else 48
    return [{"sequences": 2 if tier == "quick" else 7, "pool": 10 if tier == "quick" else 22} for _ in range(n)]


def floors(tier):
    q = tier == "quick"
    return {
        "evaluations": 150 if q else 2000,
        "distinct_nontrivial": 50 if q else 700,
        "sequences": 16 if q else 160,
        "fresh_runs": 80 if q else 500,
        "isa:x86": 20,
        "isa:aarch64": 20,
        "opt:--fixed": 5,
        "opt:-f": 5,
        "opt:--ignore-unknown": 5,
        "opt:--lines": 3,
        "opt:default-arch": 2,
        "kernel:shipped": 20,
        "kernel:generated": 20,
        "gen:unknown": 3,
        "gen:rmw": 3,
        "gen:mem-src": 3,
        "gen:load-wb": 3,
        "gen:altport": 1,
        "gen:wb-noisa": 3,
        "gen:setdef": 2,
        "gen:setuse": 2,
        "opt:--lcd-timeout": 5,
        "elements_cut_short_at_once": 1,
        "typed_rows_sequences": 12 if q else 40,
        "carry_over_sequences": 12 if q else 40,
        "sp_write_back_sequences": 12 if q else 40,
        "revisit_after_other": 50 if q else 700,
        "fresh_determinism_checked": 5,
        "set:models": 8 if q else 15,
        "set:mixed_isa_sequences": 8 if q else 80,
    }


# ----------------------------------------------------------------------------------------------------------------
# requests


def gen_kernel(rng, isa):
    """A small loop body that contains at least one memory-composed form; returns (text, classes)."""
    lines_of = X86_LINES if isa == "x86" else A64_LINES
    classes = [rng.choice(MEMISH[isa])]
    for _ in range(rng.randint(2, 6)):
        r = rng.random()
        if r < 0.35:
            classes.append("reg")
        elif r < 0.85:
            classes.append(rng.choice(MEMISH[isa]))
        else:
            classes.append("unknown")
    rng.shuffle(classes)
    body = [rng.choice(lines_of[c]) for c in classes]
    if rng.random() < 0.7:
        body.append(rng.choice(lines_of["branch"]))
        body.insert(0, ".L2:")
    text = "\n".join(("\t" + l if not l.endswith(":") else l) for l in body) + "\n"
    return text, sorted(set(classes))


def make_pool(rng, tier, size):
    corp = cli.corpus()
    pool = []
    seen = set()
    # few models per shard, so that requests on the same model object follow each other often (different shards and
    # seeds take different models); generated kernels prefer models where composition from the register form happens
    shard_archs = {}
    for isa in ("x86", "aarch64"):
        allowed = QUICK_ARCHS[isa] if tier == "quick" else isolate.archs_of(isa)
        shard_archs[isa] = rng.sample(allowed, 2 if tier == "quick" else 3)
    while len(pool) < size:
        isa = rng.choice(["x86", "aarch64"])
        archs = shard_archs[isa]
        generated = rng.random() < 0.5
        req = {"isa": isa, "opts": [], "text": None, "classes": []}
        if pool and rng.random() < 0.35:
            # sibling of an earlier request: the same kernel file with another model and/or other options
            o = rng.choice(pool)
            isa = o["isa"]
            req = {"isa": isa, "opts": (o["opts"][o["opts"].index("--lines"):o["opts"].index("--lines") + 2] if "--lines" in o["opts"] else []), "text": o["text"],
                   "classes": list(o["classes"]), "kernel": o["kernel"], "sibling": True}
            req["arch"] = rng.choice(shard_archs[isa] + ([o["arch"]] if o["arch"] else []))
        elif generated:
            req["text"], req["classes"] = gen_kernel(rng, isa)
            req["kernel"] = None
            # the composition path lives in models without explicit memory forms; prefer those for generated kernels
            req["arch"] = rng.choice(archs)
            if "altport" in req["classes"] and rng.random() < 0.8:
                req["arch"] = "a64fx"
        else:
            k = rng.choice([c for c in corp if c["isa"] == isa and c["lines"] <= (140 if tier == "quick" else 700)])
            req["kernel"] = k["path"]
            req["arch"] = rng.choice(archs) if rng.random() > 0.12 else None
            if rng.random() < 0.18:
                mr = cli.marked_range(k["path"])
                if mr and mr[1] - mr[0] >= 3:
                    a = rng.randint(mr[0], mr[1] - 2)
                    b = rng.randint(a + 1, mr[1])
                    req["opts"] += ["--lines", "%d-%d" % (a, b)]
        if rng.random() < 0.3:
            req["opts"].append("--fixed")
        if rng.random() < 0.3:
            req["opts"].append("-f" if rng.random() < 0.5 else "--consider-flag-deps")
        if rng.random() < (0.6 if "unknown" in req["classes"] else 0.2):
            req["opts"].append("--ignore-unknown")
        if req["text"] is not None and not req.get("sibling") and rng.random() < 0.35:
            # a small budget on a kernel whose search takes milliseconds: it must never be used up, however old the process is
            req["opts"] += ["--lcd-timeout", "2"]
        elif req["text"] is not None and not req.get("sibling") and rng.random() < 0.15:
            # a search that is cut short at once (its own report is clock dependent and not judged); what comes after it is
            req["opts"] += ["--lcd-timeout", "0"]
        key = digest([req["arch"], req["kernel"], req["text"], req["opts"]])
        if key in seen:
            continue
        seen.add(key)
        req["key"] = key
        pool.append(req)
    # same model, other kernel/options: make sure every pool has such neighbours (state shared per model object)
    return pool


def make_sequence(rng, pool):
    n = rng.randint(6, 20)
    k = max(3, min(len(pool), n // 2 + 1))
    sub = rng.sample(range(len(pool)), k)
    seq = [rng.choice(sub) for _ in range(n)]
    # guarantee a revisit A .. B .. A
    a, b = rng.sample(sub, 2)
    i = rng.randrange(0, n - 2)
    seq[i], seq[i + 1], seq[i + 2] = a, b, a
    return seq


class Work(object):
    def __init__(self, R):
        self.R = R
        self.dir = os.path.join(isolate.SCRATCH, "c18-%d" % os.getpid())
        shutil.rmtree(self.dir, ignore_errors=True)
        os.makedirs(self.dir)
        self.n = 0
        self.fresh = {}
        self.pair_memo = {}

    def close(self):
        shutil.rmtree(self.dir, ignore_errors=True)

    def materialise(self, req):
        """Kernel path of a request (generated text is written once)."""
        if req.get("text") is None:
            return req["kernel"]
        if not req.get("_path"):
            self.n += 1
            req["_path"] = os.path.join(self.dir, "gen%d.s" % self.n)
            with open(req["_path"], "w") as f:
                f.write(req["text"])
        return req["_path"]

    def argv(self, req):
        a = []
        if req.get("arch"):
            a += ["--arch", req["arch"]]
        return a + list(req["opts"]) + [self.materialise(req)]

    def fresh_report(self, req):
        key = req["key"]
        if key not in self.fresh:
            self.fresh[key] = cli.run_sub(self.argv(req))
            self.R.count("fresh_runs")
        return self.fresh[key]

    def in_sequence(self, reqs, pause_at=None):
        runs = [self.argv(r) for r in reqs]
        if pause_at is not None:
            runs.insert(pause_at, {"action": "sleep", "s": 2.3})
        res = cli.run_driver({"runs": runs}, workdir=self.dir)
        if len(res["reports"]) != len(reqs):
            # the driver process itself died (not an exception of one analysis): report what is there
            res["died"] = True
        return res


def public(req):
    return {k: v for k, v in req.items() if not k.startswith("_")}


def same(a, b):
    return a["rc"] == b["rc"] and a["out"] == b["out"] and (a["rc"] == 0 or a.get("exc") == b.get("exc"))


def lcd_budget(req):
    o = req["opts"]
    return float(o[o.index("--lcd-timeout") + 1]) if "--lcd-timeout" in o else 10.0


def timed_out(r):
    return "LCD analysis timed out" in r["out"]


# ----------------------------------------------------------------------------------------------------------------
# classification of a violation by mechanism: which single earlier request, and which kind of instruction in it


def line_kind(isa, line):
    l = re.split(r"#\s|//|;", line)[0].strip()
    m = re.match(r"^([A-Za-z][\w.]*)\s*(.*)$", l)
    if not m:
        return "no-instruction"
    mn, ops = m.group(1).lower(), m.group(2)
    if isa == "x86":
        if "(" not in ops:
            return "x86-register-only"
        last = re.split(r",(?![^(]*\))", ops)[-1].strip()
        if "(" not in last:
            return "x86-memory-source"
        # AT&T: the destination is written last
        if re.match(r"^v?mov|^push|^set|^v?extract|^v?pextr", mn):
            return "x86-store"
        if re.match(r"^cmp|^test|^v?u?comis|^prefetch", mn):
            return "x86-memory-source"
        return "x86-read-modify-write-memory"
    wb = "!" in ops or re.search(r"\]\s*,", ops) is not None
    if re.match(r"^(ld|ldr|ldp|ldur|ld1|ldnp)", mn):
        return "aarch64-load-writeback" if wb else "aarch64-load"
    if re.match(r"^(st|str|stp|stur|st1|stnp)", mn):
        return "aarch64-store-writeback" if wb else "aarch64-store"
    return "aarch64-register-only"


def kernel_lines(path):
    with open(path) as f:
        lines = f.read().splitlines()
    mr = cli.marked_range(path)
    if mr:
        lines = lines[mr[0] - 1 : mr[1]]
    out = []
    for l in lines:
        s = l.strip()
        if not s or s.startswith((".", "#", "//")) and not s.endswith(":") or s.endswith(":"):
            continue
        out.append(s)
    return out


def pair_fails(W, culprit, victim):
    """Does [culprit, victim] in one fresh process change the victim's report?  (memoised)"""
    key = (culprit["key"], victim["key"])
    if key not in W.pair_memo:
        res = W.in_sequence([culprit, victim])
        ok = len(res["reports"]) == 2 and same(res["reports"][1], W.fresh_report(victim))
        W.pair_memo[key] = not ok
        W.R.count("minimisation_runs")
    return W.pair_memo[key]


def with_text(req, lines):
    text = "\n".join("\t" + l for l in lines) + "\n"
    opts = [o for o in req["opts"]]
    if "--lines" in opts:
        i = opts.index("--lines")
        del opts[i : i + 2]
    r = {"isa": req["isa"], "arch": req["arch"], "opts": opts, "kernel": None, "text": text, "classes": []}
    r["key"] = digest([r["arch"], None, text, opts])
    return r


def minimise(W, seq_reqs, i):
    """-> (key suffix, minimal witness dict) for the failing element i of the sequence."""
    victim = seq_reqs[i]
    culprit = None
    tried = set()
    for j in range(i - 1, -1, -1):
        c = seq_reqs[j]
        if c["key"] == victim["key"] or c["key"] in tried:
            continue
        tried.add(c["key"])
        if pair_fails(W, c, victim):
            culprit = c
            break
    if culprit is None:
        # also the request itself repeated
        if pair_fails(W, victim, victim):
            culprit = victim
        else:
            return "several-earlier-requests", {"prefix": [public(r) for r in seq_reqs[: i + 1]]}
    rel = "same-request" if culprit is victim else (
        "same-model" if (culprit["arch"] or "default") == (victim["arch"] or "default") else (
            "same-isa-other-model" if culprit["isa"] == victim["isa"] else "other-isa"))
    # shrink the culprit's kernel to one line if one line is enough
    lines = kernel_lines(W.materialise(culprit))
    cur = lines
    guard = 0
    while len(cur) > 1 and guard < 12:
        guard += 1
        half = len(cur) // 2
        a, b = cur[:half], cur[half:]
        if pair_fails(W, with_text(culprit, a), victim):
            cur = a
        elif pair_fails(W, with_text(culprit, b), victim):
            cur = b
        else:
            break
    small = with_text(culprit, cur)
    if len(cur) == 1 and (cur is not lines or pair_fails(W, small, victim)):
        kind = line_kind(culprit["isa"], cur[0])
    elif len(cur) < len(lines):
        kind = "several-instructions(" + "+".join(sorted(set(line_kind(culprit["isa"], l) for l in cur))) + ")"
        small = with_text(culprit, cur)
    else:
        kind = "whole-kernel"
        small = culprit
    # are the culprit's options needed?
    if small.get("opts"):
        bare = dict(small, opts=[])
        bare["key"] = digest([bare["arch"], bare.get("kernel"), bare["text"], []])
        if pair_fails(W, bare, victim):
            small = bare
        else:
            kind += "/with" + "".join(sorted(o for o in small["opts"] if o.startswith("-")))
    return "%s/%s" % (kind, rel), {"minimal_pair": [public(small), public(victim)]}


# ----------------------------------------------------------------------------------------------------------------


def check_sequence(W, pool, seq, R, case_extra=None):
    reqs = [pool[i] for i in seq]
    # one pause somewhere in the sequence (the same for every replay of it): the process is older than the small budgets
    pause_at = random.Random(digest(seq)).randrange(1, len(seq))
    res = W.in_sequence(reqs, pause_at)
    R.count("sequences")
    isas = set(r["isa"] for r in reqs)
    if len(isas) == 2:
        R.observe("mixed_isa_sequences", digest(seq))
    before = []
    reported = set()
    for pos, req in enumerate(reqs):
        fresh = W.fresh_report(req)
        prior = set(before)
        revisit = req["key"] in prior and any(k != req["key"] for k in before[before.index(req["key"]):])
        R.case(digest([req["key"], sorted(prior)]), nontrivial=revisit)
        if revisit:
            R.count("revisit_after_other")
        R.count("isa:" + req["isa"])
        R.observe("models", req["arch"] or "default")
        R.count("kernel:generated" if req["text"] is not None else "kernel:shipped")
        for c in req["classes"]:
            R.count("gen:" + c)
        for o in req["opts"]:
            if o.startswith("-"):
                R.count("opt:" + ("-f" if o == "--consider-flag-deps" else o))
        if not req["arch"]:
            R.count("opt:default-arch")
        before.append(req["key"])
        case = {"pool": [public(p) for p in pool], "sequence": seq, "position": pos}
        if pos >= len(res["reports"]):
            R.violation("history/process-died", "the process running the sequence died at element %d: %s"
                        % (pos, res["stderr"].strip().splitlines()[-1][:200] if res["stderr"].strip() else res["rc"]), case)
            break
        got = res["reports"][pos]
        if timed_out(got) or timed_out(fresh):
            budget = lcd_budget(req)
            if budget == 0:
                # cut short by request: what such an analysis reports depends on the clock and is not judged at all
                R.count("elements_cut_short_at_once")
                continue
            if timed_out(got) and not timed_out(fresh) and budget > 0 and got.get("elapsed", 1e9) < 0.8 * budget:
                # the whole analysis took less than the budget, so the search cannot have used it up: the budget was not
                # counted from the start of this analysis
                if "lcd-budget" not in reported:
                    reported.add("lcd-budget")
                    R.violation("history/lcd-timeout-before-budget-used", "element %d (%s %s): in sequence the LCD search is reported as timed out after %.2fs "
                                "of a %ss budget; a fresh process completes it" % (pos, req["arch"], " ".join(req["opts"]), got["elapsed"], budget), case)
                continue
            R.count("lcd_timeout_elements")
            R.inconclusive += 1
            continue
        if fresh["rc"] != 0:
            R.count("both_fail" if got["rc"] != 0 and got.get("exc") == fresh.get("exc") else "fresh_fails")
            R.observe("fresh_failures", "%s on %s" % (fresh.get("exc"), req["arch"]))
            if got["rc"] == 0 or got.get("exc") != fresh.get("exc"):
                R.violation("history/outcome-differs/fresh-process-fails", "fresh process fails with %s, in sequence: rc=%s exc=%s"
                            % (fresh.get("exc"), got["rc"], got.get("exc")), case)
            continue
        if same(got, fresh):
            R.count("equal")
            continue
        if req["key"] in reported:
            R.count("repeat_of_reported_difference")
            continue
        reported.add(req["key"])
        if got["rc"] != 0:
            what = "in sequence the analysis fails with %s (%s); a fresh process succeeds" % (
                got.get("exc"), (got.get("tb") or "").strip().splitlines()[-1][:120] if got.get("tb") else "")
            prefix = "history/exception-after/"
        else:
            what = "report differs from the fresh-process report: " + first_diff(fresh["out"], got["out"])
            prefix = "history/report-differs-after/"
        suffix, mini = minimise(W, reqs, pos)
        R.violation(prefix + suffix, "element %d (%s %s %s): %s" % (pos, req["arch"], os.path.basename(req["kernel"] or "generated"),
                                                                   " ".join(req["opts"]), what), dict(case, **mini))


def first_diff(a, b):
    la, lb = a.splitlines(), b.splitlines()
    for i in range(max(len(la), len(lb))):
        x = la[i] if i < len(la) else "<eof>"
        y = lb[i] if i < len(lb) else "<eof>"
        if x != y:
            if x.strip() == y.strip():
                return "line %d differs in layout only: fresh %r in-sequence %r" % (i + 1, x[:60], y[:60])
            return "line %d fresh %r in-sequence %r" % (i + 1, x.strip()[:110], y.strip()[:110])
    return "(exit status only)"


def run_shard(spec, R):
    rng = random.Random(spec["seed"])
    W = Work(R)
    code = isolate.code_hash()
    try:
        pool = make_pool(rng, spec["tier"], spec["pool"])
        for s in range(spec["sequences"]):
            seq = make_sequence(rng, pool)
            check_sequence(W, pool, seq, R)
            if s == 0 and spec["shard"] < 2:
                R.sample({"sequence_of_requests": [[pool[i]["arch"], os.path.basename(pool[i]["kernel"] or "generated:" + "|".join(pool[i]["classes"])),
                                                    " ".join(pool[i]["opts"])] for i in seq][:8], "length": len(seq)})
        # one fixed-shape sequence per shard: probe kernel (composed loads), a kernel with read-modify-write and store forms composed
        # from register forms, the probe again - all on one model with register-typed load/store table rows (what one composed
        # instruction leaves behind in the model's tables would show in the next)
        arch = ["spr", "zen3", "zen4", "icx", "zen1", "zen2"][spec["shard"] % 6]

        def fixed(text, classes):
            req = {"isa": "x86", "opts": [], "text": text, "classes": classes, "kernel": None, "arch": arch}
            req["key"] = digest([arch, None, text, []])
            return req

        probe_k = "\taddq\t(%rsi,%rcx,8), %rdx\n\tcmpl\t8(%rdi), %r11d\n\tvaddpd\t(%rax), %ymm1, %ymm2\n\tvmovsd\t(%rdi,%rax,8), %xmm0\n\tvmovapd\t%ymm3, (%rdx)\n"
        rmw_k = "\taddq\t$1, (%rax)\n\tincl\t(%rbx)\n\torq\t%rcx, (%rdx,%rsi,8)\n\tvaddpd\t(%rax), %ymm1, %ymm2\n\tvmovupd\t%ymm5, 64(%rdi,%rcx,8)\n\tsubq\t$1, 8(%rcx,%rdx,8)\n"
        fpool = [fixed(probe_k, ["mem-src", "load", "store"]), fixed(rmw_k, ["rmw", "mem-src", "store"])]
        check_sequence(W, fpool, [0, 1, 0, 1, 0], R)
        R.count("typed_rows_sequences")
        # another fixed-shape sequence: what one file defines or carries must not reach the next one - an assembler constant
        # (.set) used but not defined in the other file; region comments of another tool in one file, OSACA comment markers with
        # code around them in the other
        use_k = "\taddq\t$STRIDE, %rax\n\tvaddpd\t%ymm1, %ymm2, %ymm3\n\taddq\t$8, %rcx\n"
        def_k = ".set STRIDE, 64\n\taddq\t$STRIDE, %rax\n\tvmulpd\t%ymm1, %ymm2, %ymm3\n"
        osaca_k = "\tmovq\t%rdi, %r8\n\tvxorpd\t%ymm0, %ymm0, %ymm0\n# OSACA-BEGIN\n.L3:\n\tvaddpd\t(%r8,%rax), %ymm0, %ymm0\n\taddq\t$32, %rax\n\tcmpq\t%rsi, %rax\n\tjne\t.L3\n# OSACA-END\n\tvmovapd\t%ymm0, (%rdx)\n\tret\n"
        mca_k = "# LLVM-MCA-BEGIN inner\n.L4:\n\tvmulpd\t%ymm1, %ymm2, %ymm2\n\tsubq\t$1, %rcx\n\tjne\t.L4\n# LLVM-MCA-END inner\n"
        gpool = [fixed(use_k, ["setuse"]), fixed(def_k, ["setdef"]), fixed(osaca_k, ["load"]), fixed(mca_k, ["reg"])]
        for q_ in gpool:
            q_["opts"] = ["--ignore-unknown"]
            q_["key"] = digest([arch, None, q_["text"], q_["opts"]])
        check_sequence(W, gpool, [0, 1, 0, 2, 3, 2], R)
        R.count("carry_over_sequences")
        # AArch64: a frame set up and torn down with write-back addressing through sp in one file, sp written as a plain register
        # and read afterwards in the other (a72: the index write-back latency differs from the instruction latencies, so an sp
        # that still carries the write-back mark of the other file shows in the CP / LCD columns)
        a_arch = ["a72", "tx2", "n1", "a72"][spec["shard"] % 4]
        frame_k = "\tstp\tx29, x30, [sp, #-16]!\n\tmov\tx29, sp\n\tldr\td0, [x0], #8\n\tfadd\td1, d1, d0\n\tldp\tx29, x30, [sp], #16\n"
        plain_k = "\tsub\tsp, sp, #32\n\tstr\tx0, [sp, #8]\n\tadd\tx2, x2, x3\n\tldr\tx1, [sp, #8]\n\tadd\tx2, x2, x1\n\tadd\tsp, sp, #32\n"
        apool = []
        for text, classes in ((plain_k, ["reg", "load", "store"]), (frame_k, ["load-wb", "store"])):
            req = {"isa": "aarch64", "opts": [], "text": text, "classes": classes, "kernel": None, "arch": a_arch}
            req["key"] = digest([a_arch, None, text, []])
            apool.append(req)
        check_sequence(W, apool, [0, 1, 0, 1, 0], R)
        R.count("sp_write_back_sequences")
        # fresh runs are deterministic themselves (otherwise the comparison means nothing)
        for req in rng.sample(pool, max(1, len(pool) // 10)):
            again = cli.run_sub(W.argv(req))
            R.count("fresh_determinism_checked")
            if not same(again, W.fresh_report(req)) and not timed_out(again):
                R.violation("fresh/nondeterministic", "two fresh processes give different reports: " + first_diff(W.fresh_report(req)["out"], again["out"]),
                            {"pool": [public(req)], "sequence": [0, 0], "position": 1})
    finally:
        W.close()
    tree_unchanged(code, R)


def tree_unchanged(code, R):
    """Reports of one shard are only comparable when they come from one version of the tree under test."""
    if isolate.code_hash() != code:
        R.witnesses[:] = []
        R.witness_counts.clear()
        raise RuntimeError("the tree under test (%s) was modified while the shard was running; nothing can be concluded" % isolate.repo())


def replay(case, R):
    W = Work(R)
    try:
        if "minimal_pair" in case:
            pool = [dict(p) for p in case["minimal_pair"]]
            check_sequence(W, pool, [0, 1], R)
        pool = [dict(p) for p in case["pool"]]
        check_sequence(W, pool, case["sequence"][: case["position"] + 1], R)
    finally:
        W.close()
