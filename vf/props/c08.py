"""C08 Memory-operand forms compose register-form data with load/store data.

Monitor: state of every instruction of a kernel after the real ArchSemantics.add_semantics (micro-ops, pressure, latency,
latency_wo_load, throughput, flags), several memory instructions per kernel in random order, so that what one instruction
leaves behind in the model is seen by the next. Oracle: R-compose (vf/ref_compose.py) on the generated model dict.
"""
import copy
import os
import random

from .. import gen_lookup as G
from .. import gen_model, isolate, ref_compose as RC, ref_match as RM
from ..common import EPS, digest
from ..ref_sched import norm_uops
from .c07 import parsed_as_written

LEVEL = "exploration"
RULE = (
    "synthetic models of both ISAs: register-form entries with numeric data over several register classes, some direct memory "
    "forms, load/store throughput tables per addressing shape and register type (dst/src) with wildcards, defaults, optional "
    "multipliers, load latencies; synthetic ISA databases giving the memory position the role load / store / read-modify-write "
    "(or none: documented default); kernels of 3-8 instructions mixing composed, direct, register-only and unknown instructions "
    "in random order; plus a curated real vocabulary on shipped models. Non-trivial: the instruction is composed (not direct) and "
    "the model offers >= 2 candidate rows for it; distinct by digest of (model, instruction kinds)"
)
ASSUMPTIONS = [
    "R-compose as in DESIGN.md section 2; register forms without numeric throughput/latency and wildcard register classes at the "
    "memory position are outside the statement (don't care)",
    "the role of the memory operand comes from the ISA database entry (register form) or the documented default destination rule",
]
SHARD_TIMEOUT = {"quick": 600, "thorough": 3600}


def floors(tier):
    q = tier == "quick"
    return {"evaluations": 3000 if q else 40000, "distinct_nontrivial": 300 if q else 3000, "composed": 1200 if q else 15000,
            "role:load": 300 if q else 4000, "role:store": 200 if q else 2500, "role:rmw": 150 if q else 2000, "unknown": 150 if q else 2000,
            "direct": 40 if q else 500, "others_unchanged_checked": 120 if q else 2000, "isa:x86": 1, "isa:aarch64": 1,
            "kernels": 500 if q else 6000, "multiplier_models": 10 if q else 100, "suffixed_mnemonics": 400 if q else 5000}


def plan(tier, seed):
    q = tier == "quick"
    specs = []
    for i in range(16 if q else 48):
        specs.append({"kind": "synth", "isa": "x86" if i % 2 == 0 else "aarch64", "models": 6 if q else 25, "kernels": 8})
    for a in (["zen1", "zen2", "spr", "tx2", "v2", "n1"] if q else isolate.arch_models()):
        specs.append({"kind": "curated", "arch": a})
    return specs


# ---------------------------------------------------------------- synthetic model

X86_CLASSES = ["gpr", "xmm", "ymm"]
A64_CLASSES = ["x", "w", "d", "q", "z"]


def rand_table(rng, isa, ports, key, classes):
    rows = []
    n = rng.randint(0, 6)
    for _ in range(n):
        if isa == "x86":
            r = {"base": rng.choice(["gpr", "gpr", "*"]), "index": rng.choice([None, "gpr", "*"]), "offset": rng.choice([None, "imd", "*"]),
                 "scale": rng.choice([1, 8, "*"])}
        else:
            r = {"base": rng.choice(["x", "*"]), "index": rng.choice([None, "x", "*"]), "offset": rng.choice([None, "imd", "*"]),
                 "scale": rng.choice([1, 8, "*"]), "pre_indexed": rng.choice([False, False, True, "*"]), "post_indexed": rng.choice([False, False, True, "*"])}
        if rng.random() < 0.5:
            r[key] = rng.choice(classes)
        r["port_pressure"] = [[c, gen_model.spell(P, rng)] for c, P in gen_model.rand_uops(rng, ports, 2)]
        rows.append(r)
    return rows


def compose_model(rng, isa):
    pool = ["0", "1", "2", "2D", "3", "3D", "4", "ST"]
    ports = sorted(rng.sample(pool, rng.randint(3, 7)), key=pool.index)
    m = gen_model.base_model(isa, ports)
    classes = X86_CLASSES if isa == "x86" else A64_CLASSES
    m["load_latency"] = {c: rng.choice([0, 3, 4, 5, 7]) for c in (classes + (["zmm", "mm"] if isa == "x86" else ["b", "h", "s", "v", "p"]))}
    m["load_throughput"] = rand_table(rng, isa, ports, "dst", classes)
    m["store_throughput"] = rand_table(rng, isa, ports, "src", classes)
    m["load_throughput_default"] = [[c, gen_model.spell(P, rng)] for c, P in gen_model.rand_uops(rng, ports, 2)]
    m["store_throughput_default"] = [[c, gen_model.spell(P, rng)] for c, P in gen_model.rand_uops(rng, ports, 2)]
    if rng.random() < 0.3:
        m["load_throughput_multiplier"] = {c: rng.choice([1.0, 1.0, 2.0]) for c in m["load_latency"]}
        m["store_throughput_multiplier"] = {c: rng.choice([1.0, 2.0]) for c in m["load_latency"]}
    forms = []
    isa_forms = []
    names = []
    for i in range(rng.randint(4, 8)):
        name = "cm%da" % i
        names.append(name)
        n = rng.choice([1, 2, 2, 3])
        for v in range(rng.randint(1, 2)):
            if isa == "x86":
                ops = [{"class": "register", "name": rng.choice(classes)} for _ in range(n)]
                if rng.random() < 0.2 and n >= 2:
                    ops[0] = {"class": "immediate", "imd": "int"}
            else:
                ops = []
                for k in range(n):
                    c = rng.choice(classes)
                    o = {"class": "register", "prefix": c}
                    if c == "z":
                        o["shape"] = rng.choice(["d", "s"])
                    ops.append(o)
            uops = gen_model.rand_uops(rng, ports, 3)
            forms.append({"name": name, "operands": ops, "throughput": rng.choice([0.25, 0.5, 1.0, 2.0]), "latency": rng.choice([0, 1, 2, 3, 5]),
                          "port_pressure": [[c, gen_model.spell(P, rng)] for c, P in uops]})
        # some mnemonics also have a direct memory form
        if rng.random() < 0.2:
            f0 = copy.deepcopy(forms[-1])
            pos = len(f0["operands"]) - 1
            if isa == "x86":
                f0["operands"][pos] = {"class": "memory", "base": "gpr", "offset": rng.choice([None, "imd", "*"]), "index": None, "scale": 1}
            else:
                f0["operands"][pos] = {"class": "memory", "base": "x", "offset": rng.choice([None, "imd"]), "index": None, "scale": 1,
                                        "pre_indexed": False, "post_indexed": False}
            f0["latency"] = 9
            forms.append(f0)
        # ISA database: roles
        if rng.random() < 0.65:
            iops = []
            for k in range(n):
                if isa == "x86":
                    o = {"class": "register", "name": "*"}
                else:
                    o = {"class": "register", "prefix": "*"}
                r = rng.random()
                o["source"] = r < 0.7
                o["destination"] = r > 0.45
                iops.append(o)
            isa_forms.append({"name": name, "operands": iops})
    m["instruction_forms"] = forms
    isa_db = {"osaca_version": "0.5.0", "isa": isa, "instruction_forms": isa_forms}
    return m, isa_db, names


def rand_mem(isa, rng):
    if isa == "x86":
        e = {"class": "memory", "base": rng.choice(["gpr", "gpr", "gpr", None]), "offset": rng.choice([None, "imd"]),
             "index": rng.choice([None, "gpr"]), "scale": rng.choice([1, 8])}
        if e["index"] is None:
            e["scale"] = 1
            e["base"] = "gpr"
        return G.x86_concretize(e, rng, 1)
    kind = rng.choice(["plain", "off", "idx", "pre", "post"])
    e = {"class": "memory", "base": "x", "offset": None, "index": None, "scale": 1, "pre_indexed": False, "post_indexed": False}
    if kind == "off":
        e["offset"] = "imd"
    elif kind == "idx":
        e["index"] = "x"
        e["scale"] = rng.choice([1, 8])
    elif kind == "pre":
        e["offset"] = "imd"
        e["pre_indexed"] = True
    elif kind == "post":
        e["post_indexed"] = True
    return G.a64_concretize(e, rng, 1)


def make_instruction(isa, rng, m, names):
    """(mnemonic, AST operands, tag) ; tag in mem / reg / unknown."""
    r = rng.random()
    forms = [f for f in m["instruction_forms"] if all(o["class"] != "memory" for o in f["operands"])]
    f = rng.choice(forms)
    ops = G.concretize(isa, f["operands"], rng)
    if ops is None:
        return None
    if r < 0.12:
        return f["name"], ops, "reg"
    if r < 0.22:
        # neither form: unknown mnemonic, or known mnemonic with operand kinds no entry has
        if rng.random() < 0.5:
            name = "zz%da" % rng.randint(0, 3)
        else:
            name = f["name"]
            ops = ops + [dict(o) for o in ops] + [dict(ops[0])]
            ops = ops[:5]
        regpos = [i for i, o in enumerate(ops) if o["k"] == "reg"]
        if regpos and rng.random() < 0.7:
            p = regpos[-1] if isa == "aarch64" else rng.choice(regpos)
            if isa == "x86" or p == len(ops) - 1:
                ops = ops[:p] + [rand_mem(isa, rng)] + ops[p + 1:]
        return name, ops, "unknown?"
    regpos = [i for i, o in enumerate(ops) if o["k"] == "reg"]
    if not regpos:
        return f["name"], ops, "reg"
    if isa == "aarch64":
        if ops[-1]["k"] != "reg":
            return f["name"], ops, "reg"
        p = len(ops) - 1
    else:
        p = rng.choice(regpos)
    ops = ops[:p] + [rand_mem(isa, rng)] + ops[p + 1:]
    return f["name"], ops, "mem"


def close(a, b):
    return abs(float(a) - float(b)) <= 1e-9


def judge_instruction(isa, m, groups, isa_groups, name, ops, form, R, case):
    kinds = [G.ast_kind(o) for o in ops]
    nmem = sum(1 for k in kinds if k["k"] == "mem")
    ports = m["ports"]
    flags = set(form.flags)
    if nmem == 0:
        e, decided = RC.direct_status(isa, groups, name, kinds)
        if not decided:
            R.count("dontcare")
            return None
        if e is None:
            return judge_unknown(form, ports, R, case)
        R.count("register_form")
        return "reg"
    exp = RC.compose(isa, m, groups, isa_groups, name, kinds)
    if exp is None:
        R.count("dontcare")
        return None
    if exp["kind"] == "direct":
        R.count("direct")
        if "tp_unknown" in flags:
            R.violation("direct/flagged-unknown", "%s has a direct entry but is flagged unknown" % form.line.strip(), case)
        elif not close(form.latency, exp["entry"]["latency"]):
            R.violation("direct/wrong-entry", "%s: latency %s, direct entry has %s" % (form.line.strip(), form.latency, exp["entry"]["latency"]), case)
        return "direct"
    if exp["kind"] == "unknown":
        return judge_unknown(form, ports, R, case)
    R.count("composed")
    R.count("role:" + exp["role"])
    bad = []
    if "tp_unknown" in flags or "lt_unknown" in flags:
        bad.append(("flagged-unknown", "flagged unknown although the register form has an entry"))
    got_uops = None
    try:
        got_uops = norm_uops(form.port_uops)
    except Exception:  # noqa
        bad.append(("uops", "port_uops %r" % (form.port_uops,)))
    if got_uops is not None and got_uops != exp["uops"]:
        bad.append(("uops", "micro-ops %r, expected %r" % (got_uops, exp["uops"])))
    pp = form.port_pressure
    if pp is None or len(pp) != len(ports) or max(abs(a - b) for a, b in zip(pp, exp["pressure"])) > 1e-9:
        bad.append(("pressure", "pressure %r, expected %r" % ([round(v, 4) for v in pp] if pp else pp, [round(v, 4) for v in exp["pressure"]])))
    if not close(form.latency, exp["latency"]):
        bad.append(("latency", "latency %s, expected %s (register form %s + load latency)" % (form.latency, exp["latency"], exp["latency_wo_load"])))
    if form.latency_wo_load is None or not close(form.latency_wo_load, exp["latency_wo_load"]):
        bad.append(("latency_wo_load", "latency_wo_load %s, expected %s" % (form.latency_wo_load, exp["latency_wo_load"])))
    if not close(form.throughput, exp["throughput"]):
        bad.append(("throughput", "throughput %s, expected %s" % (form.throughput, exp["throughput"])))
    if exp["loads"] != ("performs_load" in flags):
        bad.append(("flag-load", "performs_load flag %s, role %s" % ("performs_load" in flags, exp["role"])))
    if exp["stores"] != ("performs_store" in flags):
        bad.append(("flag-store", "performs_store flag %s, role %s" % ("performs_store" in flags, exp["role"])))
    if bad:
        key = "composed/%s/%s/%s" % (isa, exp["role"], "+".join(sorted(set(b[0] for b in bad))))
        R.violation(key, "%s (%s, reg type %s): %s" % (form.line.strip(), exp["role"], exp["reg_type"], "; ".join(b[1] for b in bad)), case)
    cands = len([r for r in (m.get("load_throughput") or []) if RC.row_matches(isa, r, kinds[[k["k"] for k in kinds].index("mem")]) == RM.MUST]) + \
        len([r for r in (m.get("store_throughput") or []) if RC.row_matches(isa, r, kinds[[k["k"] for k in kinds].index("mem")]) == RM.MUST])
    return "composed2" if cands >= 2 else "composed"


def judge_unknown(form, ports, R, case):
    R.count("unknown")
    flags = set(form.flags)
    bad = []
    if not ("tp_unknown" in flags and "lt_unknown" in flags):
        bad.append("not flagged tp_unknown+lt_unknown (flags %s)" % sorted(flags))
    if form.port_pressure is None or any(abs(v) > 0 for v in form.port_pressure):
        bad.append("pressure %r not zero" % (form.port_pressure,))
    if form.latency != 0 or form.throughput != 0:
        bad.append("latency %s / throughput %s not zero" % (form.latency, form.throughput))
    if bad:
        R.violation("unknown/" + ("not-flagged" if "not flagged" in bad[0] else "nonzero-data"), "%s has neither form: %s" % (form.line.strip(), "; ".join(bad)), case)
    return "unknown"


def state_of(form):
    return (repr(form.port_uops), repr(form.port_pressure), form.latency, form.latency_wo_load, form.throughput, tuple(sorted(form.flags)))


def run_synth(spec, R):
    from osaca.parser import get_parser
    from osaca.semantics import ArchSemantics, MachineModel

    rng = random.Random(spec["seed"])
    isa = spec["isa"]
    parser = get_parser(isa)
    R.count("isa:" + isa)
    with gen_model.ScratchDir("c08") as d:
        for mi in range(spec["models"]):
            mseed = rng.getrandbits(48)
            mrng = random.Random(mseed)
            m, isa_db, names = compose_model(mrng, isa)
            if "load_throughput_multiplier" in m:
                R.count("multiplier_models")
            path = os.path.join(d, "m%d.yml" % mi)
            ipath = os.path.join(d, "i%d.yml" % mi)
            open(path, "w").write(gen_model.model_yaml(m))
            open(ipath, "w").write(gen_model.model_yaml(isa_db))
            groups = RC.entry_groups(m["instruction_forms"])
            isa_groups = RC.entry_groups(isa_db["instruction_forms"])
            for k in range(spec["kernels"]):
                kseed = mrng.getrandbits(48)
                run_kernel(isa, parser, m, isa_db, groups, isa_groups, names, path, ipath, mseed, kseed, R)
            MachineModel._runtime_cache.pop(path, None)
            MachineModel._runtime_cache.pop(ipath, None)
            for fn in os.listdir(d):
                os.unlink(os.path.join(d, fn))


def run_kernel(isa, parser, m, isa_db, groups, isa_groups, names, path, ipath, mseed, kseed, R, sample=True):
    from osaca.semantics import ArchSemantics, MachineModel

    krng = random.Random(kseed)
    instrs = []
    for _ in range(krng.randint(3, 8)):
        ins = make_instruction(isa, krng, m, names)
        if ins and all(o is not None for o in ins[1]):
            instrs.append(ins)
    # mnemonics are also written with an AT&T size suffix / an AArch64 '.xx' suffix the model and ISA database do not list:
    # the documented fall-back has to find the same entries (role of the memory operand included)
    suffixed = []
    for nm, ops, tag in instrs:
        if krng.random() < 0.3 and not nm.startswith("zz"):
            nm = nm + (krng.choice("lqwb") if isa == "x86" else krng.choice([".ne", ".4s"]))
            R.count("suffixed_mnemonics")
        suffixed.append((nm, ops, tag))
    instrs = suffixed
    lines = [G.render(isa, nm, ops, krng) for nm, ops, tag in instrs]
    text = "\n".join(lines) + "\n"
    case = {"kind": "synth", "isa": isa, "model_seed": mseed, "kernel_seed": kseed, "kernel": text}
    try:
        kernel = parser.parse_file(text)
    except Exception:  # noqa
        R.count("unparseable_kernel")
        return
    if len(kernel) != len(instrs) or not all(parsed_as_written(f, ops) for f, (nm, ops, tag) in zip(kernel, instrs)):
        R.count("parsed_differently")
        return
    # a fresh model object per kernel: what an instruction leaves behind in the model must be seen by later ones only
    MachineModel._runtime_cache.pop(path, None)
    MachineModel._runtime_cache.pop(ipath, None)
    try:
        mm = MachineModel(path_to_yaml=path)
        sem = ArchSemantics(mm, path_to_yaml=ipath)
        sem.add_semantics(kernel)
    except Exception as e:  # noqa
        R.exception(e, case)
        R.case()
        return
    R.count("kernels")
    verdicts = []
    for idx, (form, (nm, ops, tag)) in enumerate(zip(kernel, instrs)):
        c = dict(case, instr=idx, line=form.line)
        v = judge_instruction(isa, m, groups, isa_groups, nm, ops, form, R, c)
        verdicts.append(v)
        kinds = [G.ast_kind(o) for o in ops]
        R.case(digest([mseed, nm, kinds]), nontrivial=(v == "composed2"))
    # unknown instructions do not change the numbers of any other instruction: re-analyse the kernel without them
    if "unknown" in verdicts and any(v != "unknown" for v in verdicts):
        keep = [i for i, v in enumerate(verdicts) if v != "unknown"]
        text2 = "\n".join(lines[i] for i in keep) + "\n"
        MachineModel._runtime_cache.pop(path, None)
        mm2 = MachineModel(path_to_yaml=path)
        sem2 = ArchSemantics(mm2, path_to_yaml=ipath)
        k2 = parser.parse_file(text2)
        try:
            sem2.add_semantics(k2)
        except Exception as e:  # noqa
            R.exception(e, dict(case, kernel=text2))
            return
        R.count("others_unchanged_checked")
        for j, i in enumerate(keep):
            if state_of(k2[j]) != state_of(kernel[i]):
                R.violation("unknown/changes-other-instruction", "line %r analysed differently when unknown instructions are present: %r vs %r"
                            % (lines[i].strip(), state_of(kernel[i]), state_of(k2[j])), case)
                break
    if sample:
        R.sample({"isa": isa, "kernel": [l.strip() for l in lines], "verdicts": verdicts,
                  "load_rows": len(m["load_throughput"]), "store_rows": len(m["store_throughput"])}, limit=2)


# ---------------------------------------------------------------- curated vocabulary on shipped models

CURATED = {
    "x86": [
        ("vaddpd", ["mem", "ymm", "ymm"]), ("vmulpd", ["mem", "ymm", "ymm"]), ("vaddpd", ["mem", "xmm", "xmm"]),
        ("addq", ["imm", "mem"]), ("addq", ["gpr", "mem"]), ("addq", ["mem", "gpr"]), ("vfmadd231pd", ["mem", "ymm", "ymm"]),
        ("vmovapd", ["mem", "ymm"]), ("vmovapd", ["ymm", "mem"]), ("movq", ["mem", "gpr"]), ("movq", ["gpr", "mem"]),
        ("vaddsd", ["mem", "xmm", "xmm"]), ("subl", ["mem", "gpr32"]), ("imulq", ["mem", "gpr"]),
    ],
    "aarch64": [
        ("ldr", ["x", "mem"]), ("ldr", ["q", "mem"]), ("ldr", ["d", "mem"]), ("str", ["x", "mem"]), ("str", ["q", "mem"]),
        ("ldp", ["q", "q", "mem"]), ("stp", ["q", "q", "mem"]), ("ldur", ["d", "mem"]), ("stur", ["d", "mem"]), ("ldr", ["w", "mem"]),
    ],
}


def run_curated(spec, R):
    """Real instructions on shipped models: generic consistency of what the statement says without knowing the entry
    (pressure = uniform split of the reported micro-ops scaled by a documented multiplier, unknown => zero data), and
    independence from kernel position / repetition (a composed instruction analysed first, last, and after a
    read-modify-write instruction gets the same numbers)."""
    from osaca.parser import get_parser
    from osaca.semantics import ArchSemantics, MachineModel
    from .. import sched_workload as W
    from ..ref_sched import uniform_split

    arch = spec["arch"]
    rng = random.Random(spec["seed"])
    isa = isolate.isa_of(arch)
    R.count("isa:" + isa)
    parser = get_parser(isa)
    lines = []
    for name, pat in CURATED[isa]:
        for rep in range(3):
            ops = []
            for p in pat:
                if p == "mem":
                    ops.append(rand_mem(isa, rng))
                elif p == "imm":
                    ops.append({"k": "imm", "text": "$%d" % rng.randint(1, 9)})
                elif p == "gpr32":
                    ops.append({"k": "reg", "name": rng.choice(["eax", "ebx", "ecx", "r8d"])})
                elif isa == "x86":
                    ops.append({"k": "reg", "name": G.x86_reg_of_class(p, rng) if p != "gpr" else rng.choice(G.GPR64)})
                else:
                    ops.append(G.a64_reg(p, None, rng))
            if isa == "aarch64" and name in ("ldp", "stp") and ops[-1]["index"]:
                continue
            lines.append(G.render(isa, name, ops))
    for rep in range(6 if spec.get("tier") == "quick" else 30):
        pick = [rng.choice(lines) for _ in range(rng.randint(4, 9))]
        base = {}
        for order in range(3):
            seq = list(pick)
            if order == 1:
                seq.reverse()
            elif order == 2:
                rng.shuffle(seq)
                seq = seq + seq
            text = "\n".join(seq) + "\n"
            case = {"kind": "curated", "arch": arch, "kernel": text}
            MachineModel._runtime_cache.clear()
            mm = MachineModel(arch=arch)
            sem = ArchSemantics(mm)
            tables = W.model_tables(mm)
            try:
                kernel = parser.parse_file(text)
                sem.add_semantics(kernel)
            except Exception as e:  # noqa
                R.exception(e, case)
                R.case()
                continue
            R.count("kernels")
            ports = list(mm.get_ports())
            for f in kernel:
                st = state_of(f)
                key = f.line.strip()
                if key in base and base[key] != st:
                    R.violation("history/same-instruction-analysed-differently-within-process",
                                "%s on %s: %r vs %r depending on what was analysed before it" % (key, arch, base[key], st), case)
                base.setdefault(key, st)
                flags = set(f.flags)
                if "tp_unknown" in flags and "lt_unknown" in flags:
                    judge_unknown(f, ports, R, case)
                elif ("performs_load" in flags or "performs_store" in flags) and "is_load_instruction" not in flags and f.port_uops and not isinstance(f.port_uops, dict):
                    R.count("composed")
                    try:
                        uops = norm_uops(f.port_uops)
                    except Exception:  # noqa
                        R.count("dontcare")
                        continue
                    ok = False
                    for cand in W.scaled_candidates(uops, tables):
                        try:
                            u = uniform_split(ports, cand)
                        except ValueError:
                            continue
                        if max(abs(a - b) for a, b in zip(u, f.port_pressure)) <= 1e-9:
                            ok = True
                            break
                    if not ok:
                        R.violation("composed/curated/pressure-not-split-of-reported-uops", "%s on %s: pressure %r is not the uniform split of micro-ops %r"
                                    % (key, arch, f.port_pressure, uops), case)
                R.case(digest([arch, key]), nontrivial=("performs_load" in flags or "performs_store" in flags))


def run_shard(spec, R):
    if spec["kind"] == "synth":
        run_synth(spec, R)
    else:
        run_curated(spec, R)


def replay(case, R):
    from osaca.parser import get_parser

    if case["kind"] == "synth":
        isa = case["isa"]
        mrng = random.Random(case["model_seed"])
        m, isa_db, names = compose_model(mrng, isa)
        with gen_model.ScratchDir("c08r") as d:
            path, ipath = os.path.join(d, "m.yml"), os.path.join(d, "i.yml")
            open(path, "w").write(gen_model.model_yaml(m))
            open(ipath, "w").write(gen_model.model_yaml(isa_db))
            run_kernel(isa, get_parser(isa), m, isa_db, RC.entry_groups(m["instruction_forms"]), RC.entry_groups(isa_db["instruction_forms"]),
                       names, path, ipath, case["model_seed"], case["kernel_seed"], R, sample=False)
    else:
        R.count("replay_curated_not_supported")
