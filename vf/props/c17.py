"""C17 Model caches are transparent, also after interrupted or racing writes.

Events: normalised reports (time stamp / path stripped) of driver processes (``python -m vf.cli``: the real
``osaca.osaca.run`` with recording wrappers on ``MachineModel._get_cached/_write_in_cache`` and on ``hw_model.pickle``)
under private throw-away HOMEs, plus the cache events of every process (side file).
Oracle: every report of a history equals the cold report (no cache anywhere) for the model content in force.
Nothing here touches the shared warm HOME of the framework (only its byte-code directory is shared).
"""
import os
import pickle
import random
import re
import shutil
import time

from .. import cli, isolate
from ..common import digest

LEVEL = "fault_enumeration"
RULE = (
    "per (model, history group): 3 seeded kernels of the model's ISA from the shipped corpus; one *case* = one report of one "
    "kernel produced by a driver process at one step of a cache history (cold / no-cache / warm companion / warm home cache / "
    "second load in one process / stale internal_version / model edited, reverted, edited in-process / model changed in memory only by a cold-loading process / header-only (lazy) load as the first access of a cold home / a cache file left behind by an earlier installation (fixtures/c17) / ISA description edited between runs and in-process / model given by path under user-chosen (dotted) file names through the library entry points: cold, warm, edited, reverted / same name other "
    "content in a shared home cache / package-directory cache / cache file cut at 0, 10 bytes, seeded middle, last byte / "
    "writer killed after k bytes (k seeded, four offset classes) / 8 racing cold starts, released together or staggered with "
    "a pre-empted writer, then one more run / 8 racing cold starts on two different models of one directory held at a barrier in "
    "front of their first cache write, then one more run per model); non-trivial = every case except the first cold run of a history; distinct = "
    "distinct (model, history, step, variant, kernel)"
)
ASSUMPTIONS = [
    "the cold report (fresh HOME, no cache file anywhere, data directory writable or not) is the reference for a model content; "
    "two independent cold runs and a run that is not allowed to write any cache are compared with each other first",
    "a 'warm' step whose process reports no cache hit is counted inconclusive, not passed",
    "os.access is patched inside the driver to emulate a read-only data directory (the sandbox runs as root)",
    "a killed writer is emulated by a pickle.dump proxy that writes a prefix of the stream to the file object it was given and "
    "os._exit(1)s; a pre-empted writer by the same proxy writing the stream in pieces with pauses",
    "the model edit bumps latency and the first port-pressure cycle count of every entry of one mnemonic used by the kernel; "
    "the edit is accepted only if the cold report of the edited content differs from the original cold report",
    "writes below the tree under test are always denied (the check never changes /repo); the package-directory history "
    "therefore only reads the shipped pickles",
]
SHARD_TIMEOUT = {"quick": 600, "thorough": 3000}

GROUPS = ["basic", "content", "trunc", "kill", "race-together", "race-staggered"]
QUICK_MODELS = ["tx2", "n1", "zen1"]
NPROC = 8
BIG_MODELS = ("icl", "ivb", "snb", "icx", "hsw", "zen2")  # cold load 5-20 s

_home_n = [0]


# ----------------------------------------------------------------------------------------------------------------
# plan / floors


def plan(tier, seed):
    models = QUICK_MODELS if tier == "quick" else isolate.arch_models()
    specs = []
    # long ones first
    cost = {"icl": 9, "ivb": 8, "snb": 5, "icx": 5, "hsw": 5, "zen2": 4}
    for m in sorted(models, key=lambda a: -cost.get(a, 1)):
        for g in GROUPS:
            specs.append({"model": m, "group": g})
    specs.append({"model": "zen3", "group": "fixture"})
    return specs


def floors(tier):
    n = 3 if tier == "quick" else 17
    t = tier == "thorough"
    return {
        "evaluations": (170 if t else 120) * n,
        "distinct_nontrivial": (150 if t else 110) * n,
        "history:cold": n,
        "history:nocache": n,
        "history:warm-companion": n,
        "history:warm-home": n,
        "history:inproc-second": n,
        "history:stale-version": 2 * n,
        "history:edited": n,
        "history:tail-edit": max(1, n // 2),
        "history:reverted": 2 * n,
        "history:inproc-edit": 2 * n,
        "history:inproc-edit-same-size-and-mtime": 2 * n,
        "same_size_and_mtime_confirmed": 2 * n,
        "history:same-name-home": n,
        "history:package": n,
        "history:lib-path": 3 * max(1, n - 3),
        "history:in-memory-change": 2 * max(1, n - 3),
        "history:cache-from-earlier-installation": 2,
        "history:header-only-load-first": 2 * max(1, n - 3),
        "in_memory_change_applied": 2 * max(1, n - 3),
        "history:isa-edited": max(1, n - 2),
        "history:isa-inproc-edit": 2 * max(1, n - 2),
        "lib_warm_hit_confirmed": 2 * max(1, n - 3),
        "set:lib_path_names": 3,
        "history:truncated": (6 if t else 5) * n,
        "history:killed": (5 if t else 2) * n,
        "history:race": n,
        "history:race-cross": 2 * n,
        "cross_race_writers_overlapped": n,
        "race_processes": 16 * n,
        "events:hit": 200 * n,
        "events:miss": 40 * n,
        "events:dump": 40 * n,
        "events:killed": (5 if t else 2) * n,
        "events:access-denied": 10 * n,
        "home_cache_written": n,
        "edit_found": n,
        "warm_hit_confirmed": 3 * n,
        "set:crash_points": 30 if t else 10,
        "set:race_outcomes": 2,
        "set:stale_variants": 2,
    }


# ----------------------------------------------------------------------------------------------------------------
# helpers


class Ctx(object):
    def __init__(self, model, group, kernels, seed, R, only=None):
        self.model = model
        self.isa = isolate.isa_of(model)
        self.group = group
        self.kernels = kernels
        self.seed = seed
        self.rng = random.Random(seed)
        self.R = R
        self.only = only
        self.base = os.path.join(isolate.SCRATCH, "c17-%d-%s-%s" % (os.getpid(), model, group))
        self.repo_data = os.path.join(isolate.repo(), "osaca", "data")
        mf = dict(isolate.model_files())
        self.files = [(model, mf[model]), ("isa/" + self.isa, mf["isa/" + self.isa])]
        self.argvs = [["--arch", model, k] for k in kernels]
        self.cold = None
        self.cold_time = 2.0
        self.group_tier = "quick"

    def case_id(self, history):
        return {"model": self.model, "group": self.group, "kernels": self.kernels, "seed": self.seed, "history": history,
                "tier": self.group_tier}

    def new_home(self, copies=False, files=None):
        _home_n[0] += 1
        h = os.path.join(self.base, "h%d" % _home_n[0])
        # never isolate.make_home(files=[]): an empty list means "all models" there
        os.makedirs(os.path.join(h, ".osaca", "data", "isa"))
        files = self.files if files is None else files
        if copies:
            # the arch model as a private copy (it will be edited), the ISA DB as a link
            for a, p in files:
                dst = os.path.join(h, ".osaca", "data", a + ".yml")
                if a.startswith("isa/"):
                    os.symlink(p, dst)
                else:
                    shutil.copyfile(p, dst)
        elif files:
            isolate.make_home(h, files=files)
        return h

    def data_dir(self, home):
        return os.path.join(home, ".osaca", "data")

    def cache_dir(self, home):
        return os.path.join(home, ".osaca", "cache")

    def run(self, home, runs=None, deny=(), **kw):
        """One driver process -> result with reports and events."""
        _home_n[0] += 1
        ev = os.path.join(self.base, "ev%d" % _home_n[0])
        spec = dict(runs=self.argvs if runs is None else runs, events=ev, deny=[self.repo_data] + list(deny))
        spec.update(kw)
        res = cli.run_driver(spec, home=home, workdir=self.base)
        self.count_events(res["events"])
        return res

    def count_events(self, events):
        R = self.R
        for e in events:
            if e["ev"] == "get":
                R.count("events:" + e["result"])
            elif e["ev"] in ("dump", "killed", "access-denied", "write"):
                R.count("events:" + e["ev"])
            elif e["ev"] == "load" and not e.get("ok"):
                R.count("events:load-failed")

    def pickles(self, home, where="data"):
        """{'arch': path, 'isa': path} of existing cache files."""
        out = {}
        if where == "data":
            cands = [(self.data_dir(home), "." + self.model + "_", "arch"), (os.path.join(self.data_dir(home), "isa"), "." + self.isa + "_", "isa")]
        else:
            cands = [(self.cache_dir(home), self.model + "_", "arch"), (self.cache_dir(home), self.isa + "_", "isa")]
        for d, pre, kind in cands:
            if os.path.isdir(d):
                for f in sorted(os.listdir(d)):
                    if f.startswith(pre) and f.endswith(".pickle"):
                        out[kind] = os.path.join(d, f)
        return out


def write_private(path, text):
    """Write a model file inside a private HOME; never through a link into the tree under test."""
    if os.path.islink(path):
        os.unlink(path)
    if not os.path.realpath(path).startswith(os.path.realpath(isolate.SCRATCH) + os.sep):
        raise RuntimeError("refusing to write outside the scratch directory: " + path)
    with open(path, "w") as f:
        f.write(text)


def hits(res):
    return sum(1 for e in res["events"] if e["ev"] == "get" and e["result"] == "hit")


def misses(res):
    return sum(1 for e in res["events"] if e["ev"] == "get" and e["result"] == "miss")


def judge(cx, res, expected, history, step, variant="", crash_key="cache/run-crash", diff_key=None, first_cold=False, offset=0):
    """Compare the reports of one driver process with the expected (cold) reports; one case per kernel."""
    R = cx.R
    ok = True
    reps = res["reports"]
    n = len(expected)
    for i in range(n):
        kern = os.path.basename(cx.kernels[(i + offset) % len(cx.kernels)])
        dig = digest([cx.model, history, step, variant, kern])
        R.case(dig, nontrivial=not first_cold)
        exp = expected[i]
        got = reps[i] if i < len(reps) else None
        case = dict(cx.case_id(history), step=step, variant=variant, kernel=kern)
        if got is None:
            # the driver process died before this report
            ok = False
            exc = cli._exc_name(res["stderr"]) if res["stderr"].strip() else "exit-%s" % res["rc"]
            R.violation("%s/%s" % (crash_key, exc), "%s %s/%s: process died (%s) instead of reporting; stderr: %s"
                        % (cx.model, history, step, exc, res["stderr"].strip().splitlines()[-1][:160] if res["stderr"].strip() else ""), case)
            continue
        if got["rc"] != 0 and exp["rc"] == 0:
            ok = False
            R.violation("%s/%s" % (crash_key, got["exc"]), "%s %s/%s: analysis failed with %s, the cold run succeeded: %s"
                        % (cx.model, history, step, got["exc"], (got.get("tb") or "").strip().splitlines()[-1][:160] if got.get("tb") else ""),
                        dict(case, traceback=got.get("tb", "")[-1200:]))
            continue
        if got["out"] != exp["out"] or got["rc"] != exp["rc"]:
            ok = False
            R.violation(diff_key or "cache/report-differs/%s" % history, "%s %s/%s kernel %s: report differs from the cold report of the content in force: %s"
                        % (cx.model, history, step, kern, first_diff(exp["out"], got["out"])), case)
    return ok


def first_diff(a, b):
    la, lb = a.splitlines(), b.splitlines()
    for i in range(max(len(la), len(lb))):
        x = la[i] if i < len(la) else "<eof>"
        y = lb[i] if i < len(lb) else "<eof>"
        if x != y:
            return "line %d expected %r got %r" % (i + 1, x.strip()[:110], y.strip()[:110])
    return "(no line difference)"


def want_warm(cx, res, n_files=2):
    """A step that is meant to be served from a cache must report hits; otherwise it proves nothing."""
    if hits(res) >= n_files and misses(res) == 0:
        cx.R.count("warm_hit_confirmed")
        return True
    cx.R.count("warm_without_hit")
    cx.R.inconclusive += 1
    return False


def cold_reference(cx):
    """Cold run in a fresh HOME; returns reports. Harness error if the cold run itself is not clean."""
    h = cx.new_home()
    t0 = time.time()
    res = cx.run(h)
    cx.cold_time = max(0.5, time.time() - t0 - 0.8)
    if len(res["reports"]) != len(cx.argvs):
        raise RuntimeError("cold reference run died: rc=%s %s" % (res["rc"], res["stderr"][-600:]))
    first = []
    for e in res["events"]:
        if e["ev"] == "report":
            break
        first.append(e)
    # cold = the first two look-ups (arch model, ISA description) miss; when the cache is written and what is looked up afterwards is
    # the implementation's business
    gets = [e for e in first if e["ev"] == "get"]
    if len(gets) < 2 or any(e["result"] != "miss" for e in gets[:2]):
        raise RuntimeError("cold reference run was not cold: %s" % first)
    return h, res


# ----------------------------------------------------------------------------------------------------------------
# model editing (text level, keeps the YAML valid)


def kernel_mnemonics(path):
    rng = cli.marked_range(path)
    with open(path) as f:
        lines = f.read().splitlines()
    if rng:
        lines = lines[rng[0] - 1 : rng[1]]
    out = []
    for l in lines:
        l = re.split(r"#|//|;", l)[0].strip()
        if not l or l.startswith(".") or l.endswith(":"):
            continue
        m = re.match(r"^(?:[\w.$]+:\s*)?([A-Za-z][\w.]*)", l)
        if m and m.group(1).lower() not in out:
            out.append(m.group(1).lower())
    return out


def edit_model_text(text, mnemonic):
    """Bump latency (+3) and the first port-pressure cycle count (+2) of every entry named ``mnemonic``; returns (text, n)."""
    head, sep, body = text.partition("\ninstruction_forms:\n")
    if not sep:
        return text, 0
    entries = re.split(r"(?m)^(?=- name:)", body)
    n = 0
    for i, e in enumerate(entries):
        m = re.match(r"- name:\s*(.*)", e)
        if not m:
            continue
        names = [x.strip().strip("'\"").lower() for x in m.group(1).split("#")[0].strip().strip("[]").split(",")]
        if mnemonic not in names:
            continue
        e2 = re.sub(r"(?m)^(\s+latency:\s*)(\d+(?:\.\d+)?)", lambda mm: mm.group(1) + repr(float(mm.group(2)) + 3.0), e, count=1)
        e2 = re.sub(r"(?m)^(\s+port_pressure:\s*\[\[)(\d+(?:\.\d+)?)", lambda mm: mm.group(1) + repr(float(mm.group(2)) + 2.0), e2, count=1)
        if e2 != e:
            entries[i] = e2
            n += 1
    return head + sep + "".join(entries), n


def tail_variants(orig, edited):
    """(orig', edited'): both texts with the first entry that differs moved to the very end of the file, behind comment padding
    that makes the preceding text a multiple of 4096 bytes minus a few; they differ only inside the last partial 4 KiB block."""
    ho, sep, bo = orig.partition("\ninstruction_forms:\n")
    he, _, be = edited.partition("\ninstruction_forms:\n")
    if not sep or ho != he:
        return None
    eo = re.split(r"(?m)^(?=- name:)", bo)
    ee = re.split(r"(?m)^(?=- name:)", be)
    if len(eo) != len(ee):
        return None
    diff = [i for i, (a, b) in enumerate(zip(eo, ee)) if a != b]
    if not diff:
        return None
    moved, size = [], 0
    for i in diff:
        sz = max(len(eo[i].encode()), len(ee[i].encode())) + 1
        if size + sz > 3600:
            break
        moved.append(i)
        size += sz
    if not moved:
        return None
    # entries that differ but do not fit stay edited in both variants, so that only the moved ones differ
    keep = [ee[j] for j in range(len(eo)) if j not in moved]
    prefix = ho + sep + "".join(keep)
    if not prefix.endswith("\n"):
        prefix += "\n"
    n = len(prefix.encode())
    pad = (4096 - (n % 4096)) % 4096
    if pad < 8:
        pad += 4096
    prefix += "#" + "p" * (pad - 2) + "\n"
    nl = lambda t: t if t.endswith("\n") else t + "\n"  # noqa
    return prefix + "".join(nl(eo[i]) for i in moved), prefix + "".join(nl(ee[i]) for i in moved)


def find_edit(cx, cold):
    """An edited model text whose cold reports differ from the original cold reports: (text, reports) or None."""
    with open(cx.files[0][1]) as f:
        orig = f.read()
    cands = []
    for k in cx.kernels:
        for mn in kernel_mnemonics(k):
            for v in (mn, mn[:-1] if cx.isa == "x86" and len(mn) > 2 else None, mn.split(".")[0] if "." in mn else None):
                if v and v not in cands:
                    cands.append(v)
    cx.rng.shuffle(cands)
    tries = 0
    for mn in cands:
        text, n = edit_model_text(orig, mn)
        if not n:
            continue
        tries += 1
        if tries > 4:
            break
        h = cx.new_home(copies=True)
        write_private(os.path.join(cx.data_dir(h), cx.model + ".yml"), text)
        res = cx.run(h)
        if len(res["reports"]) != len(cx.argvs) or any(r["rc"] != 0 for r in res["reports"]):
            continue
        if any(a["out"] != b["out"] for a, b in zip(res["reports"], cold)):
            cx.R.count("edit_found")
            return orig, text, mn, res["reports"]
    return None


def edit_isa_text(text, mnemonic):
    """Every operand of the entries named ``mnemonic`` stops being a destination (a pointer bump then carries no dependency)."""
    parts = re.split(r"(?m)^(?=\s*-\s*name:)", text)
    n = 0
    for i, e in enumerate(parts):
        m = re.match(r"\s*-\s*name:\s*(.*)", e)
        if not m:
            continue
        names = [x.strip().strip("'\"").lower() for x in m.group(1).split("#")[0].strip().strip("[]").split(",")]
        if mnemonic in names and "destination: true" in e:
            parts[i] = e.replace("destination: true", "destination: false")
            n += 1
    return "".join(parts), n


def find_isa_edit(cx, cold):
    """An edited ISA description whose cold reports differ from the original ones: (orig, edited, mnemonic, reports) or None."""
    with open(cx.files[1][1]) as f:
        orig = f.read()
    cands = []
    for k in cx.kernels:
        for mn in kernel_mnemonics(k):
            for v in (mn, mn[:-1] if cx.isa == "x86" and len(mn) > 2 else None, mn.split(".")[0] if "." in mn else None):
                if v and v not in cands:
                    cands.append(v)
    cx.rng.shuffle(cands)
    cands.sort(key=lambda v: 0 if v in ("add", "adds", "sub", "subs", "inc", "dec", "lea") else 1)  # loop counters show in the LCD list
    tries = 0
    for mn in cands:
        text, n = edit_isa_text(orig, mn)
        if not n:
            continue
        tries += 1
        if tries > 6:
            break
        h = cx.new_home(copies=True)
        write_private(os.path.join(cx.data_dir(h), cx.files[1][0] + ".yml"), text)
        res = cx.run(h)
        if len(res["reports"]) != len(cx.argvs) or any(r["rc"] != 0 for r in res["reports"]):
            continue
        if any(a["out"] != b["out"] for a, b in zip(res["reports"], cold)):
            cx.R.count("isa_edit_found")
            return orig, text, mn, res["reports"]
    return None


def isa_edit_histories(cx, cold):
    """The ISA description is a model file like any other: edited between runs and while a process is alive."""
    R = cx.R
    found = find_isa_edit(cx, cold)
    if not found:
        R.count("isa_edit_not_found")
        return
    orig, edited, mn, cold_e = found
    R.observe("edited_isa_mnemonics", "%s/%s" % (cx.isa, mn))
    rel = cx.files[1][0] + ".yml"
    # separate processes
    h = cx.new_home(copies=True)
    yml = os.path.join(cx.data_dir(h), rel)
    write_private(yml, orig)
    res = cx.run(h)
    judge(cx, res, cold, "isa-edited", "before-edit")
    write_private(yml, edited)
    res = cx.run(h)
    R.count("history:isa-edited")
    judge(cx, res, cold_e, "isa-edited", "after-edit", diff_key="cache/stale-after-edit/isa-description")
    write_private(yml, orig)
    res = cx.run(h)
    judge(cx, res, cold, "isa-edited", "after-revert", diff_key="cache/stale-after-edit/isa-description-revert")
    # one process, edited between two rounds
    for start in ("cold", "warm"):
        h = cx.new_home(copies=True)
        yml = os.path.join(cx.data_dir(h), rel)
        write_private(yml, orig)
        ed = os.path.join(cx.base, "edited-isa.yml")
        write_private(ed, edited)
        if start == "warm":
            cx.run(h)
        res = cx.run(h, runs=cx.argvs + [{"action": "copy", "src": ed, "dst": yml}] + cx.argvs)
        R.count("history:isa-inproc-edit")
        judge(cx, res, cold + cold_e, "isa-inproc-edit", "edit-between-rounds", variant=start, diff_key="cache/stale-after-edit/isa-description-in-process")


# ----------------------------------------------------------------------------------------------------------------
# history groups


def g_basic(cx):
    R = cx.R
    hA, resA = cold_reference(cx)
    cold = resA["reports"]
    cx.cold = cold
    R.count("history:cold")
    judge(cx, resA, cold, "cold", "reference", first_cold=True)
    R.sample({"model": cx.model, "kernel": os.path.basename(cx.kernels[0]), "cold_events": [(e["ev"], e.get("result")) for e in resA["events"]][:8],
              "report_bytes": len(cold[0]["out"])})
    # a second independent cold run
    hB = cx.new_home()
    res = cx.run(hB)
    judge(cx, res, cold, "cold", "second-home")
    # no cache may be written at all
    hN = cx.new_home()
    res = cx.run(hN, deny=[hN])
    R.count("history:nocache")
    if any(e["ev"] == "dump" for e in res["events"]):
        R.count("nocache_run_wrote")
    judge(cx, res, cold, "nocache", "run")
    if os.path.isdir(cx.cache_dir(hN)) and os.listdir(cx.cache_dir(hN)) or cx.pickles(hN):
        R.count("nocache_run_left_files")
    # warm companion
    res = cx.run(hA)
    R.count("history:warm-companion")
    want_warm(cx, res)
    judge(cx, res, cold, "warm-companion", "second-process")
    # two loads in one process (cold home: first round writes, second round is served from the caches)
    hC = cx.new_home()
    res = cx.run(hC, runs=cx.argvs + cx.argvs)
    R.count("history:inproc-second")
    second = [e for e in res["events"]]
    # events after the len(argvs)-th report belong to the second round
    idx = [i for i, e in enumerate(second) if e["ev"] == "report"]
    if len(idx) >= len(cx.argvs) and any(e["ev"] == "get" and e["result"] == "hit" for e in second[idx[len(cx.argvs) - 1]:]):
        R.count("warm_hit_confirmed")
    else:
        R.count("warm_without_hit")
        R.inconclusive += 1
    judge(cx, res, cold + cold, "inproc-second", "both-rounds")
    # warm process, two rounds
    res = cx.run(hA, runs=cx.argvs + cx.argvs)
    want_warm(cx, res, n_files=4)
    judge(cx, res, cold + cold, "inproc-second", "warm-both-rounds")
    # home cache: data directory read-only
    hH = cx.new_home()
    res = cx.run(hH, deny=[cx.data_dir(hH)])
    R.count("history:warm-home")
    judge(cx, res, cold, "warm-home", "cold-write")
    in_home = cx.pickles(hH, "cache")
    if len(in_home) == 2 and not cx.pickles(hH):
        R.count("home_cache_written")
    else:
        R.count("home_cache_not_written")
    res = cx.run(hH, deny=[cx.data_dir(hH)])
    warm = want_warm(cx, res)
    if warm and not all(cx.cache_dir(hH) in e["file"] for e in res["events"] if e["ev"] == "load"):
        R.count("home_hit_from_elsewhere")
    judge(cx, res, cold, "warm-home", "served")
    # companion wins over home cache when both exist: make data dir writable again -> companion gets written or home is used
    res = cx.run(hH)
    judge(cx, res, cold, "warm-home", "data-dir-writable-again")


def poison(path, version_action):
    """Rewrite a cache file with another internal_version and with content that would change every report."""
    with open(path, "rb") as f:
        data = pickle.load(f)
    if version_action == "drop":
        data.pop("internal_version", None)
    else:
        data["internal_version"] = data.get("internal_version", 1) + version_action
    data["instruction_forms_dict"].clear()
    data["instruction_forms"] = []
    with open(path, "wb") as f:
        pickle.dump(data, f)


def g_content(cx):
    import osaca  # noqa - classes needed to unpickle

    R = cx.R
    hA, resA = cold_reference(cx)
    cold = resA["reports"]
    # ---- stale internal_version (content poisoned so that using the entry would show)
    for where in ("data", "cache"):
        if where == "data":
            h, deny = hA, []
        else:
            h = cx.new_home()
            deny = [cx.data_dir(h)]
            cx.run(h, deny=deny)
        pk = cx.pickles(h, where)
        if len(pk) != 2:
            R.count("stale_setup_failed")
            continue
        target = cx.rng.choice(["arch", "isa"])
        action = cx.rng.choice([1, -1, 7, "drop"])
        poison(pk[target], action)
        res = cx.run(h, deny=deny)
        R.count("history:stale-version")
        R.observe("stale_variants", "%s/%s/%s" % (where, target, action))
        if not any(e["ev"] == "load" and e.get("ok") for e in res["events"]):
            R.count("stale_not_even_read")
        judge(cx, res, cold, "stale-version", "after-tamper", variant="%s/%s/%s" % (where, target, action))
        res = cx.run(h, deny=deny)
        judge(cx, res, cold, "stale-version", "next-run", variant="%s/%s/%s" % (where, target, action))
    # ---- package directory cache (no user data directory at all)
    hP = cx.new_home(files=[])
    res = cx.run(hP)
    R.count("history:package")
    R.count("package_cache_hit" if hits(res) else "package_cache_absent")
    judge(cx, res, cold, "package", "shipped-pickles")
    res = cx.run(hP)
    judge(cx, res, cold, "package", "again")
    # ---- model edited after caching
    found = find_edit(cx, cold)
    if not found:
        R.count("edit_not_found")
        R.inconclusive += 1
        return
    orig, edited, mn, cold_e = found
    R.observe("edited_mnemonics", "%s/%s" % (cx.model, mn))
    R.sample({"model": cx.model, "edited_mnemonic": mn, "kernel": os.path.basename(cx.kernels[0]),
              "diff": first_diff(cold[0]["out"], cold_e[0]["out"])})
    for where in ("data", "cache"):
        h = cx.new_home(copies=True)
        deny = [] if where == "data" else [cx.data_dir(h)]
        hist_e = "edited" if where == "data" else "same-name-home"
        yml = os.path.join(cx.data_dir(h), cx.model + ".yml")
        res = cx.run(h, deny=deny)
        judge(cx, res, cold, hist_e, "before-edit", variant=where)
        write_private(yml, edited)
        res = cx.run(h, deny=deny)
        R.count("history:" + hist_e)
        judge(cx, res, cold_e, hist_e, "after-edit", variant=where, diff_key="cache/stale-after-edit/%s" % where)
        write_private(yml, orig)
        res = cx.run(h, deny=deny)
        R.count("history:reverted")
        if hits(res) >= 2:
            R.count("revert_served_from_old_entry")
        judge(cx, res, cold, "reverted", "after-revert", variant=where, diff_key="cache/stale-after-edit/%s-revert" % where)
        write_private(yml, edited)
        res = cx.run(h, deny=deny)
        judge(cx, res, cold_e, hist_e, "edited-again", variant=where, diff_key="cache/stale-after-edit/%s" % where)
        # same size, same mtime: content is the only difference
        st = os.stat(yml)
        write_private(yml, orig)
        os.utime(yml, (st.st_atime, st.st_mtime))
        res = cx.run(h, deny=deny)
        judge(cx, res, cold, "reverted", "mtime-preserved", variant=where, diff_key="cache/stale-after-edit/%s-revert" % where)
    # ---- the same edit confined to the last bytes of the file: the edited entry is moved to the end of the file in both versions,
    #      behind padding that lets it start right after a 4 KiB boundary (a cache key that does not cover the whole content,
    #      e.g. a block-wise hash that drops the final partial block, serves the stale entry)
    tail = tail_variants(orig, edited)
    if tail is None:
        R.count("tail_edit_not_constructible")
    else:
        orig_t, edited_t = tail
        hA, hB = cx.new_home(copies=True), cx.new_home(copies=True)
        write_private(os.path.join(cx.data_dir(hA), cx.model + ".yml"), orig_t)
        write_private(os.path.join(cx.data_dir(hB), cx.model + ".yml"), edited_t)
        cold_ot, cold_et = cx.run(hA)["reports"], cx.run(hB)["reports"]
        ok = len(cold_ot) == len(cx.argvs) == len(cold_et) and all(r["rc"] == 0 for r in cold_ot + cold_et)
        if not ok or all(a["out"] == b["out"] for a, b in zip(cold_ot, cold_et)):
            R.count("tail_edit_without_effect")
        else:
            R.count("history:tail-edit")
            for where in ("data", "cache"):
                h = cx.new_home(copies=True)
                deny = [] if where == "data" else [cx.data_dir(h)]
                yml = os.path.join(cx.data_dir(h), cx.model + ".yml")
                write_private(yml, orig_t)
                cx.run(h, deny=deny)
                res = cx.run(h, deny=deny)
                judge(cx, res, cold_ot, "tail-edit", "before-edit", variant=where)
                write_private(yml, edited_t)
                res = cx.run(h, deny=deny)
                judge(cx, res, cold_et, "tail-edit", "after-edit", variant=where, diff_key="cache/stale-after-edit/tail-block-%s" % where)
                write_private(yml, orig_t)
                res = cx.run(h, deny=deny)
                judge(cx, res, cold_ot, "tail-edit", "after-revert", variant=where, diff_key="cache/stale-after-edit/tail-block-%s-revert" % where)
    # ---- edit while one process is alive (in-process cache must not serve the old content)
    for start in ("cold", "warm"):
        h = cx.new_home(copies=True)
        yml = os.path.join(cx.data_dir(h), cx.model + ".yml")
        ed = os.path.join(cx.base, "edited.yml")
        write_private(ed, edited)
        if start == "warm":
            cx.run(h)
        res = cx.run(h, runs=cx.argvs + [{"action": "copy", "src": ed, "dst": yml}] + cx.argvs)
        R.count("history:inproc-edit")
        judge(cx, res, cold + cold_e, "inproc-edit", "edit-between-rounds", variant=start, diff_key="cache/stale-after-edit/in-process")
    # ---- the same while size and modification time of the file stay what they were (a variant deployed over the file with
    #      rsync -t / cp -p; both texts padded with a trailing comment to one length): the content is the only difference
    L = max(len(orig.encode()), len(edited.encode())) + 2
    same = [t + "\n#" + "p" * (L - len(t.encode()) - 2) for t in (orig, edited)]
    for start in ("cold", "warm"):
        h = cx.new_home(copies=True)
        yml = os.path.join(cx.data_dir(h), cx.model + ".yml")
        write_private(yml, same[0])
        ed = os.path.join(cx.base, "edited-same-size.yml")
        write_private(ed, same[1])
        if start == "warm":
            cx.run(h)
        res = cx.run(h, runs=cx.argvs + [{"action": "copy", "src": ed, "dst": yml, "preserve": True}] + cx.argvs)
        R.count("history:inproc-edit-same-size-and-mtime")
        if any(e["ev"] == "action" and e.get("what") == "copy" and e.get("preserved") and e.get("same_size") for e in res["events"]):
            R.count("same_size_and_mtime_confirmed")
        judge(cx, res, cold + cold_e, "inproc-edit-same-size-and-mtime", "edit-between-rounds", variant=start,
              diff_key="cache/stale-after-edit/in-process-same-size-and-mtime")
    # ---- a process that loads the model cold and changes it in memory only (what-if script), then later runs
    for where in ("data", "cache"):
        h = cx.new_home()
        deny = [] if where == "data" else [cx.data_dir(h)]
        res = cx.run(h, runs=[{"action": "whatif", "arch": cx.model}], deny=deny)
        R.count("history:in-memory-change")
        if any(e["ev"] == "action" and e.get("what") == "whatif" and e.get("changed") for e in res["events"]):
            R.count("in_memory_change_applied")
        res = cx.run(h, deny=deny)
        judge(cx, res, cold, "in-memory-change", "next-run", variant=where, diff_key="cache/in-memory-change-persisted")
        res = cx.run(h, runs=cx.argvs + [{"action": "whatif", "arch": cx.model}], deny=deny)
        judge(cx, res, cold, "in-memory-change", "analyses-then-change", variant=where, diff_key="cache/in-memory-change-persisted")
        res = cx.run(h, deny=deny)
        judge(cx, res, cold, "in-memory-change", "run-after", variant=where, diff_key="cache/in-memory-change-persisted")
    # ---- the first thing that touches the model in a cold home is a header-only load (a library user creating the front end first)
    for where in ("data", "cache"):
        h = cx.new_home()
        deny = [] if where == "data" else [cx.data_dir(h)]
        res = cx.run(h, runs=[{"action": "frontend_first", "arch": cx.model}] + cx.argvs, deny=deny)
        R.count("history:header-only-load-first")
        judge(cx, res, cold, "header-only-load-first", "same-process", variant=where, diff_key="cache/poisoned-by-header-only-load")
        res = cx.run(h, deny=deny)
        judge(cx, res, cold, "header-only-load-first", "next-run", variant=where, diff_key="cache/poisoned-by-header-only-load")
    # ---- the ISA description edited
    isa_edit_histories(cx, cold)
    # ---- a model given by path (library entry points, as tools embedding OSACA use them), file names a user may choose
    for fname, where in ((cx.model + ".user.yml", "data"), ("my-" + cx.model + ".v2.yml", "cache"), (cx.model + "_custom.yml", "data")):
        lib_path_history(cx, fname, where, orig, edited)
    # ---- package model shadowed by a user file of the same name with other content, one shared home cache
    hS = cx.new_home(files=[cx.files[1]])
    res = cx.run(hS, deny=[cx.data_dir(hS)])
    judge(cx, res, cold, "same-name-home", "package-model", variant="shadow")
    write_private(os.path.join(cx.data_dir(hS), cx.model + ".yml"), edited)
    res = cx.run(hS, deny=[cx.data_dir(hS)])
    judge(cx, res, cold_e, "same-name-home", "user-model-shadows", variant="shadow", diff_key="cache/stale-after-edit/shadow")
    res = cx.run(hS, deny=[cx.data_dir(hS)])
    judge(cx, res, cold_e, "same-name-home", "user-model-shadows-again", variant="shadow", diff_key="cache/stale-after-edit/shadow")
    os.unlink(os.path.join(cx.data_dir(hS), cx.model + ".yml"))
    res = cx.run(hS, deny=[cx.data_dir(hS)])
    judge(cx, res, cold, "same-name-home", "shadow-removed", variant="shadow", diff_key="cache/stale-after-edit/shadow")


def lib_path_history(cx, fname, where, orig, edited):
    """cold -> warm -> edited -> reverted for a model file loaded by path; reference = the same content loaded cold elsewhere."""
    R = cx.R

    def lib_runs(path):
        return [{"action": "lib", "model": path, "kernel": k} for k in cx.kernels]

    def fresh(text, tag):
        h = cx.new_home()
        d = os.path.join(h, "models-" + tag)
        os.makedirs(d)
        pth = os.path.join(d, "reference.yml")
        write_private(pth, text)
        return cx.run(h, runs=lib_runs(pth))["reports"]

    ref_o, ref_e = fresh(orig, "o"), fresh(edited, "e")
    if len(ref_o) != len(cx.kernels) or len(ref_e) != len(cx.kernels) or any(r["rc"] for r in ref_o + ref_e):
        R.count("lib_reference_failed")
        R.inconclusive += 1
        return
    if all(a["out"] == b["out"] for a, b in zip(ref_o, ref_e)):
        R.count("lib_edit_without_effect")
        R.inconclusive += 1
        return
    h = cx.new_home()
    d = os.path.join(h, "models")
    os.makedirs(d)
    pth = os.path.join(d, fname)
    deny = [d] if where == "cache" else []
    hist = "lib-path"
    variant = "%s/%s" % ("dotted" if fname.count(".") > 1 else "plain", where)
    write_private(pth, orig)
    R.count("history:lib-path")
    R.observe("lib_path_names", variant)
    res = cx.run(h, runs=lib_runs(pth), deny=deny)
    judge(cx, res, ref_o, hist, "cold", variant=variant)
    res = cx.run(h, runs=lib_runs(pth), deny=deny)
    if hits(res) >= 1:
        R.count("lib_warm_hit_confirmed")
    judge(cx, res, ref_o, hist, "warm", variant=variant)
    write_private(pth, edited)
    res = cx.run(h, runs=lib_runs(pth), deny=deny)
    judge(cx, res, ref_e, hist, "after-edit", variant=variant, diff_key="cache/stale-after-edit/model-by-path")
    write_private(pth, orig)
    res = cx.run(h, runs=lib_runs(pth), deny=deny)
    judge(cx, res, ref_o, hist, "after-revert", variant=variant, diff_key="cache/stale-after-edit/model-by-path-revert")


CUTS = ["zero", "header", "middle", "last-byte"]


def cut_size(cut, size, frac):
    if cut == "zero":
        return 0
    if cut == "header":
        return min(10, size - 1)
    if cut == "last-byte":
        return size - 1
    return max(17, min(size - 2, int(size * frac)))


def offset_class(n, size):
    if n == 0:
        return "zero"
    if n <= 16:
        return "header"
    if n == size - 1:
        return "last-byte"
    return "mid-%d0%%" % int(10.0 * n / size)


def g_trunc(cx):
    R = cx.R
    hA, resA = cold_reference(cx)
    cold = resA["reports"]
    hH = cx.new_home()
    denyH = [cx.data_dir(hH)]
    cx.run(hH, deny=denyH)
    combos = [("data", t, c) for t in ("arch", "isa") for c in CUTS]
    combos += [("cache", cx.rng.choice(["arch", "isa"]), c) for c in cx.rng.sample(CUTS, 2)]
    if cx.group_tier == "thorough":
        combos += [("data", t, "middle2") for t in ("arch", "isa")]
    fracs = [round(cx.rng.uniform(0.02, 0.98), 4) for _ in combos]
    backups = {}
    for where, h in (("data", hA), ("cache", hH)):
        pk = cx.pickles(h, where)
        if len(pk) != 2:
            raise RuntimeError("trunc: caches not written in %s: %s" % (where, pk))
        for k, p in pk.items():
            b = os.path.join(cx.base, "bak-%s-%s" % (where, k))
            shutil.copyfile(p, b)
            backups[(where, k)] = (p, b)
    for (where, target, cut), frac in zip(combos, fracs):
        if cx.only and cx.only != "truncated:%s/%s/%s" % (where, target, cut):
            continue
        h, deny = (hA, []) if where == "data" else (hH, denyH)
        for (w, k), (p, b) in backups.items():
            if w == where:
                shutil.copyfile(b, p)
        p = backups[(where, target)][0]
        size = os.path.getsize(p)
        n = cut_size(cut, size, frac)
        with open(p, "r+b") as f:
            f.truncate(n)
        variant = "%s/%s/%s" % (where, target, cut)
        R.observe("crash_points", "truncate/%s/%s/%s" % (where, target, offset_class(n, size)))
        R.count("history:truncated")
        res = cx.run(h, deny=deny)
        if any(e["ev"] == "load" and not e.get("ok") for e in res["events"]):
            R.count("truncated_file_was_read")
        judge(cx, res, cold, "truncated:" + variant, "first-run", variant=cut,
              crash_key="cache/truncated-read-crash", diff_key="cache/report-differs/after-truncation")
        res = cx.run(h, deny=deny)
        if hits(res) >= 2 and misses(res) == 0 and len(res["reports"]) == len(cx.argvs) and all(r["rc"] == 0 for r in res["reports"]):
            R.count("recovered_cache_serves")
        judge(cx, res, cold, "truncated:" + variant, "second-run", variant=cut,
              crash_key="cache/truncated-read-crash", diff_key="cache/report-differs/after-truncation")


def g_kill(cx):
    R = cx.R
    hA, resA = cold_reference(cx)
    cold = resA["reports"]
    thorough = cx.group_tier == "thorough"
    # (target, where, kill spec)
    plan_ = []
    for target in ("arch", "isa"):
        plan_.append((target, "data", {"frac": round(cx.rng.uniform(0.02, 0.98), 4)}))
    specials = [{"bytes": 0}, {"bytes": 10}, {"tail": 1}, {"frac": round(cx.rng.uniform(0.02, 0.98), 4)}]
    cx.rng.shuffle(specials)
    for i, s in enumerate(specials if thorough else specials[:2]):
        plan_.append((("isa", "arch")[i % 2] if thorough else "isa", "cache" if i % 2 else "data", s))
    if thorough:
        for s in ({"bytes": 0}, {"tail": 1}, {"frac": round(cx.rng.uniform(0.02, 0.98), 4)}):
            plan_.append(("isa", "data", s))
    stem = {"arch": cx.model + "_", "isa": cx.isa + "_"}
    source = {"arch": cx.model + ".yml", "isa": cx.isa + ".yml"}
    for target, where, ks in plan_:
        variant = "%s/%s/%s=%s" % ((where, target) + sorted(ks.items())[0])
        if cx.only and cx.only != "killed:" + variant:
            continue
        h = cx.new_home()
        deny = [cx.data_dir(h)] if where == "cache" else []
        if target == "isa":
            # arch cache present (the complete file written by the cold reference run), ISA cache absent:
            # the process then reaches the ISA cache write without parsing the arch model again
            src = cx.pickles(hA)["arch"]
            name = os.path.basename(src)
            if where == "data":
                shutil.copyfile(src, os.path.join(cx.data_dir(h), name))
            else:
                os.makedirs(cx.cache_dir(h), exist_ok=True)
                shutil.copyfile(src, os.path.join(cx.cache_dir(h), name.lstrip(".")))
        res = cx.run(h, deny=deny, kill=dict(ks, source=source[target]))
        killed = [e for e in res["events"] if e["ev"] == "killed"]
        if not killed or res["rc"] != 1:
            R.count("kill_not_reached")
            R.inconclusive += 1
            continue
        k = killed[0]
        R.count("history:killed")
        R.observe("crash_points", "kill/%s/%s/%s" % (where, target, offset_class(k["written"], k["size"])))
        on_disk = os.path.getsize(k["file"]) if os.path.exists(k["file"]) else -1
        final_name = os.path.basename(k["file"]).lstrip(".").startswith(stem[target]) and k["file"].endswith(".pickle")
        if on_disk != k["written"]:
            state = "partial-file-gone"
        elif final_name:
            state = "partial-on-final-name"
        else:
            state = "partial-on-temporary-name-left-behind"
            R.count("stale_temporary_file_present_for_later_runs")
        R.observe("killed_file_state", state)
        res = cx.run(h, deny=deny)
        judge(cx, res, cold, "killed:" + variant, "next-run", crash_key="cache/killed-write-crash", diff_key="cache/report-differs/after-kill")
        res = cx.run(h, deny=deny)
        if hits(res) >= 2 and misses(res) == 0 and len(res["reports"]) == len(cx.argvs) and all(r["rc"] == 0 for r in res["reports"]):
            R.count("recovered_cache_serves")
        judge(cx, res, cold, "killed:" + variant, "run-after-next", crash_key="cache/killed-write-crash", diff_key="cache/report-differs/after-kill")
        shutil.rmtree(h, ignore_errors=True)


def g_race(cx, staggered):
    R = cx.R
    hA, resA = cold_reference(cx)
    cold = resA["reports"]
    # thorough: the home-cache location is raced as well (released-together schedule only, to bound CPU time)
    # (only for models whose cold load is short, see BIG_MODELS: 8 more cold loads of icl/ivb cost minutes of CPU and add no new schedule class)
    rounds = 2 if cx.group_tier == "thorough" and not staggered and cx.model not in BIG_MODELS else 1
    for rnd in range(rounds):
        where = "data" if (rnd == 0) else "cache"
        h = cx.new_home()
        deny = [cx.data_dir(h)] if where == "cache" else []
        go = os.path.join(cx.base, "go-%d" % rnd)
        procs = []
        sched = []
        for i in range(NPROC):
            _home_n[0] += 1
            ev = os.path.join(cx.base, "ev%d" % _home_n[0])
            ready = os.path.join(cx.base, "ready-%d-%d" % (rnd, i))
            spec = dict(runs=cx.argvs, events=ev, deny=[cx.repo_data] + deny, ready=ready, go=go)
            if staggered:
                spec["delay"] = round(cx.rng.uniform(0, 1.3 * cx.cold_time), 3) if i else 0.0
                spec["slow"] = {"chunks": cx.rng.randint(3, 8), "sleep": round(cx.rng.uniform(0.02, 0.2), 3)}
                sched.append((spec["delay"], spec["slow"]["chunks"], spec["slow"]["sleep"]))
            p, path = cli.start_driver(spec, home=h, workdir=cx.base)
            procs.append((p, path, ev, ready))
        t0 = time.time()
        while not all(os.path.exists(r) or p.poll() is not None for p, _, _, r in procs):
            if time.time() - t0 > 300:
                break
            time.sleep(0.01)
        open(go, "w").close()
        results = []
        for p, path, ev, ready in procs:
            res = cli.finish_driver(p, path, timeout=1200)
            res["events"] = cli.read_events(ev)
            cx.count_events(res["events"])
            results.append(res)
        R.count("history:race")
        variant = "%s/%s" % ("staggered" if staggered else "together", where)
        crashed = 0
        for i, res in enumerate(results):
            okay = judge(cx, res, cold, "race:" + variant, "racer-%d" % i, crash_key="cache/race-crash", diff_key="cache/report-differs/race")
            crashed += 0 if okay else 1
        sig = "%s: arch+isa lookups miss=%d hit=%d read-failed=%d; racers failed=%d of %d" % (
            variant, sum(misses(r) for r in results), sum(hits(r) for r in results),
            sum(1 for r in results for e in r["events"] if e["ev"] == "load" and not e.get("ok")), crashed, NPROC)
        R.observe("race_outcomes", sig)
        R.count("race_processes", NPROC)
        if rnd == 0 and not staggered:
            R.sample({"model": cx.model, "race": sig})
        res = cx.run(h, deny=deny)
        if hits(res) >= 2:
            R.count("warm_hit_confirmed")
        judge(cx, res, cold, "race:" + variant, "one-more-run", crash_key="cache/race-crash", diff_key="cache/report-differs/race")
        shutil.rmtree(h, ignore_errors=True)
    g_race_cross(cx, staggered, cold)


FIXTURE_KERNEL = """.L2:
\tvmovapd\t(%rsi,%rax), %ymm0
\tvaddpd\t(%rdx,%rax), %ymm0, %ymm1
\tvmovapd\t%ymm1, (%rdi,%rax)
\tvextractf128\t$1, %ymm1, 32(%rdi,%rax)
\taddq\t%rcx, (%r8)
\tmovq\t%r9, 8(%r8)
\taddq\t$32, %rax
\tcmpq\t%rbx, %rax
\tjne\t.L2
"""


def g_fixture(cx):
    """A cache file that an earlier installation left behind (fixtures/c17: model file + the cache the reference tree wrote for it,
    see tools/make_cache_fixture.py): the tree under test either serves the same reports from it as without any cache, or does
    not use it (changed INTERNAL_VERSION)."""
    R = cx.R
    fx = os.path.join(isolate.VERIF, "fixtures", "c17")
    meta = os.path.join(fx, "meta.json")
    if not os.path.exists(meta):
        R.count("fixture_absent")
        return
    import json as _json

    info = _json.load(open(meta))
    kfile = os.path.join(cx.base, "fixture-kernel.s")
    with open(kfile, "w") as f:
        f.write(FIXTURE_KERNEL)
    cx.kernels = [kfile] + cx.kernels[:2]
    cx.argvs = [["--arch", cx.model, k] for k in cx.kernels]
    cx.files = [(cx.model, os.path.join(fx, "zen3.yml")), cx.files[1]]
    hA, resA = cold_reference(cx)
    cold = resA["reports"]
    for where in ("data", "cache"):
        h = cx.new_home(copies=True)
        deny = [] if where == "data" else [cx.data_dir(h)]
        if where == "data":
            shutil.copyfile(os.path.join(fx, info["pickle"]), os.path.join(cx.data_dir(h), info["pickle"]))
        else:
            os.makedirs(cx.cache_dir(h), exist_ok=True)
            shutil.copyfile(os.path.join(fx, info["pickle"]), os.path.join(cx.cache_dir(h), info["pickle"].lstrip(".")))
        res = cx.run(h, deny=deny)
        R.count("history:cache-from-earlier-installation")
        served = any(e["ev"] == "get" and e["result"] == "hit" and os.path.basename(e["file"]).startswith(cx.model) for e in res["events"])
        R.count("earlier_cache_served" if served else "earlier_cache_not_used")
        judge(cx, res, cold, "cache-from-earlier-installation", "first-run", variant=where, diff_key="cache/report-differs/cache-written-by-earlier-code")
        res = cx.run(h, deny=deny)
        judge(cx, res, cold, "cache-from-earlier-installation", "second-run", variant=where, diff_key="cache/report-differs/cache-written-by-earlier-code")


def partner_of(model):
    isa = isolate.isa_of(model)
    if isa == "aarch64":
        return "tx2" if model == "n1" else "n1"
    return "zen4" if model == "zen1" else "zen1"


def g_race_cross(cx, staggered, cold):
    """Cold starts of two *different* models whose files (and cache files) live in one directory, writing at the same time."""
    R = cx.R
    cxB = Ctx(partner_of(cx.model), cx.group, cx.kernels, cx.seed, R, cx.only)
    cxB.base, cxB.group_tier = cx.base, cx.group_tier
    hB, resB = cold_reference(cxB)
    coldB = resB["reports"]
    where = "data" if (staggered or cx.rng.random() < 0.5) else "cache"
    h = cx.new_home(files=cx.files + cxB.files[:1])
    deny = [cx.data_dir(h)] if where == "cache" else []
    go = os.path.join(cx.base, "go-cross")
    bdir = os.path.join(cx.base, "barrier-cross")
    os.makedirs(bdir)
    procs = []
    for i in range(NPROC):
        _home_n[0] += 1
        who = cx if i % 2 == 0 else cxB
        ev = os.path.join(cx.base, "ev%d" % _home_n[0])
        ready = os.path.join(cx.base, "ready-cross-%d" % i)
        spec = dict(runs=who.argvs, events=ev, deny=[cx.repo_data] + deny, ready=ready, go=go,
                    barrier={"dir": bdir, "n": NPROC, "timeout": 180})
        if staggered:
            spec["slow"] = {"chunks": cx.rng.randint(2, 6), "sleep": round(cx.rng.uniform(0.01, 0.15), 3),
                            "hold": round(cx.rng.uniform(0.0, 0.8), 3)}
        p, path = cli.start_driver(spec, home=h, workdir=cx.base)
        procs.append((p, path, ev, ready, who))
    t0 = time.time()
    while not all(os.path.exists(r) or p.poll() is not None for p, _, _, r, _ in procs):
        if time.time() - t0 > 300:
            break
        time.sleep(0.01)
    open(go, "w").close()
    results = []
    for p, path, ev, ready, who in procs:
        res = cli.finish_driver(p, path, timeout=1200)
        res["events"] = cli.read_events(ev)
        cx.count_events(res["events"])
        results.append((res, who))
    R.count("history:race-cross")
    variant = "cross-%s/%s" % ("staggered" if staggered else "together", where)
    crashed = 0
    for i, (res, who) in enumerate(results):
        okay = judge(who, res, cold if who is cx else coldB, "race:" + variant, "racer-%d" % i, crash_key="cache/race-crash",
                     diff_key="cache/report-differs/race-two-models")
        crashed += 0 if okay else 1
    arrived = max([e.get("arrived", 0) for res, _ in results for e in res["events"] if e["ev"] == "barrier"] or [0])
    if arrived >= NPROC:
        R.count("cross_race_writers_overlapped")
    sig = "%s: models %s+%s; writers at the barrier %d of %d; racers failed=%d" % (variant, cx.model, cxB.model, arrived, NPROC, crashed)
    R.observe("race_outcomes", sig.replace(cx.model + "+" + cxB.model, "A+B"))
    R.count("race_processes", NPROC)
    for who, exp in ((cx, cold), (cxB, coldB)):
        res = who.run(h, deny=deny)
        if hits(res) >= 2:
            R.count("warm_hit_confirmed")
        judge(who, res, exp, "race:" + variant, "one-more-run-" + ("A" if who is cx else "B"), crash_key="cache/race-crash",
              diff_key="cache/report-differs/race-two-models")
    shutil.rmtree(h, ignore_errors=True)


# ----------------------------------------------------------------------------------------------------------------
# driver-level action support: the in-process edit uses an action element in "runs"; cli._driver treats dict elements
# as file actions (see vf/cli.py)


def pick_kernels(model, rng, tier):
    isa = isolate.isa_of(model)
    pool = [k for k in cli.corpus() if k["isa"] == isa and k["lines"] <= (48 if tier == "quick" else 140)]
    return [k["path"] for k in rng.sample(pool, 3)]


def _run(model, group, kernels, seed, tier, R, only=None):
    cx = Ctx(model, group, kernels, seed, R, only)
    cx.group_tier = tier
    shutil.rmtree(cx.base, ignore_errors=True)
    os.makedirs(cx.base)
    try:
        R.count("group:" + group)
        R.count("model:" + model)
        if group == "basic":
            g_basic(cx)
        elif group == "content":
            g_content(cx)
        elif group == "trunc":
            g_trunc(cx)
        elif group == "kill":
            g_kill(cx)
        elif group == "race-together":
            g_race(cx, False)
        elif group == "race-staggered":
            g_race(cx, True)
        elif group == "fixture":
            g_fixture(cx)
        else:
            raise ValueError(group)
    finally:
        shutil.rmtree(cx.base, ignore_errors=True)


def run_shard(spec, R):
    rng = random.Random(spec["seed"])
    kernels = pick_kernels(spec["model"], rng, spec["tier"])
    code = isolate.code_hash()
    _run(spec["model"], spec["group"], kernels, spec["seed"], spec["tier"], R)
    if isolate.code_hash() != code:
        # reports of one history are only comparable when they come from one version of the tree under test
        R.witnesses[:] = []
        R.witness_counts.clear()
        raise RuntimeError("the tree under test (%s) was modified while the shard was running; nothing can be concluded" % isolate.repo())


def replay(case, R):
    hist = case.get("history", "")
    only = hist if hist.startswith(("truncated:", "killed:")) else None
    _run(case["model"], case["group"], case["kernels"], case["seed"], case.get("tier", "quick"), R, only=only)
