"""C10 AArch64 parser recovers every line and operand exactly as written.

Monitor: the results of the real ``ParserAArch64().parse_line`` / ``parse_file``.  Oracle: the AST every line was rendered
from (``vf/asmgen.py``): one result per non-blank line, 1-based file line number, verbatim text, exactly one of
comment / label / directive / instruction, mnemonic (incl. '.cond') and operands field by field, trailing comment.
"""
from .. import asmgen

ISA = "aarch64"
LEVEL = "exploration"
NEEDS_MODELS = False
RULE = (
    "random instruction ASTs in AArch64 operand order (0-4 written operands; memory operand, condition code or label only as "
    "last operand; immediates never first): scalar x/w/b/h/s/d/q registers, xzr/wzr, sp, vector registers with arrangement "
    "(v1.2d), element (v1.d[1]), SVE z registers (with/without shape), predicate registers (p0, p1/m, p2/z, p3.b), register "
    "lists and ranges of 1-4 consecutive v/z registers (also with element index), integer immediates with/without '#' in "
    "decimal/hex/negative/64 bit, floating-point immediates (mantissa, optional signed exponent, optional f suffix), condition "
    "codes, labels, memory references [base|sp], [base,#imm], [base,xN], [base,(x|w)N,lsl|sxtw|uxtw|sxtx #n], [base,wN,sxtw|uxtw], "
    "pre-index '!' and post-index immediate; register names / shift operators in lower or upper case; rendered with random "
    "layout (leading blanks/tabs, separator spacing, blanks inside brackets/braces, trailing blanks, trailing '//' comment), "
    "parsed by parse_line; files of 3-40 such lines interleaved with empty and whitespace-only lines, '//' comment lines, labels, "
    "directives, parsed by parse_file. Non-trivial line: >= 2 operands incl. a memory operand or a hexadecimal or floating-point "
    "immediate; distinct = distinct (operand-tag tuple x layout class). Non-trivial file: has a blank line before a later "
    "line and a non-trivial instruction; distinct by its line-kind sequence."
)
ASSUMPTIONS = [
    "register lists hold 1-4 consecutive registers without wrap-around; ranges are written first - last",
    "floating-point immediates are written digits.digits[e(+|-)digits][f]; an f suffix means imd_type 'float', otherwise 'double'; "
    "the value is read from the parser's representation (mantissa string, or mantissa/e_sign/exponent dict) and compared numerically",
    "hexadecimal numbers are written with a lower-case '0x' prefix; immediates and offsets keep their case when registers are upper-cased",
    "labels/identifiers use [A-Za-z_.][A-Za-z0-9_.]* and never spell a register, condition code or shift operator completely "
    "(names that merely start like one - less_than, spill_3, ne.4 - are generated); no numeric local labels, no relocations, "
    "no shifted-register / shifted-immediate operands, no prefetch operations, no wsp",
    "sp and zr names are compared case-insensitively; a memory base is expected with prefix 'x' (sp included)",
    "register element indices are compared as integers (the parser reports str for registers and int for list members)",
    "a comment is recovered as its blank-separated words joined by single blanks; an empty comment may be reported as '' or None",
    "directive lines: only classification and directive name are judged; parameters and trailing comments are don't-care",
]
SHARD_TIMEOUT = {"quick": 900, "thorough": 5400}
SIZES = {"quick": (32000, 320), "thorough": (500000, 5008)}
NSHARDS = {"quick": 16, "thorough": 64}

REQUIRED = (
    ["ops:%d" % i for i in range(6)]
    + ["mnemonic:.cond"]
    + ["reg:" + c for c in ("gpr", "fp", "vec", "vec-elem", "sve", "sve-bare", "pred-bare", "pred/m", "pred/z", "pred.shape", "zr", "sp", "upper-case")]
    + ["list:list", "list:range", "list:list+index", "list:range+index", "list-of:vec", "list-of:vec-elem", "list-of:sve"]
    + ["imm:%s/%s" % (c, h) for c in ("dec+", "dec-", "dec64", "hex+", "hex-", "hex64") for h in ("#", "bare")]
    + ["fimm:%s/%s" % (c, h) for c in ("plain", "plain+f", "exp", "exp+f") for h in ("#", "bare")]
    + ["cc", "id"]
    + ["mem:" + c for c in ("base", "off", "pre", "post", "idx", "idx-ext", "idx-ext-noamount", "base-sp")]
    + ["ext:" + c for c in ("lsl#n", "sxtw#n", "uxtw#n", "sxtx#n", "sxtw", "uxtw")]
    + ["shift:%d" % i for i in range(5)]
    + ["memimm:" + c for c in ("dec+/#", "dec-/#", "hex+/#", "hex-/#", "dec+/bare", "dec-/bare")]
    + ["lead:none", "lead:space", "lead:tab", "tail:none", "tail:ws", "tail:cmt//", "tail:cmt-tight//", "inner-ws:in1"]
    + ["sep:" + s for s in ("tight", "after", "before", "both", "wide", "tab")]
    + ["line:comment///", "line:label/symbol", "line:directive", "line:label+trailing-comment", "line:directive+trailing-comment",
       "line:directive+trailing-comment-with-comma"]
    + ["file/line:blank-empty", "file/line:blank-whitespace", "file/line:comment///", "file/line:label/symbol", "file/line:directive",
       "file/final-newline", "file/starts-with-blank", "file/line:blank-other-whitespace", "mem:base-vector", "file/mem:idx-ext", "file/tail:cmt//", "file/cc", "file/list:range"]
)


def plan(tier, seed):
    lines, files = SIZES[tier]
    n = NSHARDS[tier]
    return [{"lines": lines // n, "files": files // n} for _ in range(n)]


def floors(tier):
    lines, files = SIZES[tier]
    f = {
        "evaluations": (lines + files) // 2,
        "distinct_nontrivial": {"quick": 4500, "thorough": 65000}[tier],
        "monitor:parse_line": lines // 2,
        "monitor:parse_file": files // 2,
        "file-lines-judged": files * 6,
        "file-lines-judged-after-blank": files * 3,
        "set:operand-tags": 60,
    }
    for c in REQUIRED:
        f[c] = 1
    return f


# ----------------------------------------------------------------------------------------------------------------------
# oracle for instruction lines
# ----------------------------------------------------------------------------------------------------------------------
WANT = {"reg": "RegisterOperand", "imm": "ImmediateOperand", "fimm": "ImmediateOperand", "cc": "ConditionOperand",
        "id": "IdentifierOperand", "mem": "MemoryOperand"}


def _is_int(v):
    return isinstance(v, int) and not isinstance(v, bool)


def _as_int(v):
    """element index: the parser reports '1' for v1.d[1] and 1 for {v0.d, v1.d}[1]"""
    if _is_int(v):
        return v
    if isinstance(v, str) and v.strip().lstrip("-").isdigit():
        return int(v)
    return v


def float_of(rep):
    """Numeric value of the parser's representation of a floating-point immediate (None if it has none)."""
    try:
        if isinstance(rep, dict):
            e = int(str(rep["exponent"]), 10) if rep.get("exponent") is not None else 0
            if rep.get("e_sign") == "-":
                e = -e
            return float(rep["mantissa"]) * 10.0 ** e
        if isinstance(rep, bool):
            return None
        if isinstance(rep, (int, float, str)):
            return float(rep)
    except (KeyError, ValueError, TypeError, OverflowError):
        return None
    return None


def expected_float(e):
    x = int(e["exp"]) if e["exp"] is not None else 0
    if e["esign"] == "-":
        x = -x
    return float(e["mantissa"]) * 10.0 ** x


def flatten(ops, follow):
    """Written operands -> expected parser operands (register lists / ranges expanded to their members)."""
    out = []
    for o, f in zip(ops, follow):
        if o["k"] == "list":
            for m in o["members"]:
                out.append((dict(m, k="reg", _list=asmgen.a64_optag(o)), f))
        else:
            out.append((o, f))
    return out


def cmp_register(ctx, e, o, V, keyctx):
    """prefix / name / lanes / shape / index / predication of one register."""
    if o.prefix != e["prefix"]:
        V.bad("aarch64/reg.prefix/" + keyctx, "%s: prefix %r, written %s" % (ctx, o.prefix, asmgen.a64_reg_text(e)))
    if str(o.name).lower() != e["name"]:
        V.bad("aarch64/reg.name/" + keyctx, "%s: name %r, written %s" % (ctx, o.name, asmgen.a64_reg_text(e)))
    if o.lanes != e.get("lanes"):
        V.bad("aarch64/reg.lanes/" + keyctx, "%s: lanes %r, written %s" % (ctx, o.lanes, asmgen.a64_reg_text(e)))
    if o.shape != e.get("shape"):
        V.bad("aarch64/reg.shape/" + keyctx, "%s: shape %r, written %s" % (ctx, o.shape, asmgen.a64_reg_text(e)))
    if _as_int(o.index) != e.get("index"):
        V.bad("aarch64/reg.index/" + keyctx, "%s: element index %r, written %r" % (ctx, o.index, e.get("index")))
    if o.predication != e.get("predication"):
        V.bad("aarch64/reg.predication/" + keyctx, "%s: predication %r, written %s" % (ctx, o.predication, asmgen.a64_reg_text(e)))


def _int_imm(ctx, field, e, got, V):
    """e = {"value","txt","cls"}; got = ImmediateOperand expected to carry the int value."""
    if type(got).__name__ != "ImmediateOperand" or not _is_int(got.value) or got.value != e["value"]:
        V.bad("aarch64/%s/%s" % (field, e["cls"]), "%s: %s %s, written %s = %d" % (ctx, field, asmgen.show(got), e["txt"], e["value"]))


def cmp_operand(pos, e, o, follow, text, V):
    k = e["k"]
    tn = type(o).__name__
    tag = e.get("_list") or asmgen.a64_optag(e)
    ctx = "result operand %d of %r" % (pos + 1, text)
    if tn != WANT[k]:
        V.bad("aarch64/operand-kind/%s->%s/before-%s" % (k, tn, follow), "%s: %s, written as %s" % (ctx, asmgen.show(o), tag))
        return
    if k == "reg":
        cmp_register(ctx, e, o, V, ("list-member/" if "_list" in e else "") + e["cls"])
    elif k == "imm":
        if not _is_int(o.value):
            V.bad("aarch64/imm.type/" + e["cls"], "%s: value %r (%s) is not an int, written %s" % (ctx, o.value, type(o.value).__name__, e["txt"]))
        elif o.value != e["value"]:
            V.bad("aarch64/imm.value/" + e["cls"], "%s: value %r, written %s = %d" % (ctx, o.value, e["txt"], e["value"]))
        if o.imd_type not in ("int", None):
            V.bad("aarch64/imm.imd_type/" + e["cls"], "%s: imd_type %r for integer %s" % (ctx, o.imd_type, e["txt"]))
    elif k == "fimm":
        want_t = "float" if e["suffix"] else "double"
        if o.imd_type != want_t:
            V.bad("aarch64/fimm.imd_type/" + e["cls"], "%s: imd_type %r, written %s (%s)" % (ctx, o.imd_type, e["txt"], want_t))
        got = float_of(o.value)
        want = expected_float(e)
        if got is None or abs(got - want) > 1e-12 * max(1.0, abs(want)):
            V.bad("aarch64/fimm.value/" + e["cls"], "%s: value %r = %r, written %s = %r" % (ctx, o.value, got, e["txt"], want))
    elif k == "cc":
        if str(o.ccode).upper() != e["code"].upper():
            V.bad("aarch64/cc.code", "%s: condition %r, written %s" % (ctx, o.ccode, e["txt"]))
    elif k == "id":
        if o.name != e["name"]:
            V.bad("aarch64/id.name", "%s: identifier %r, written %r" % (ctx, o.name, e["name"]))
    else:
        form = tag[4:]
        b = o.base
        want_name = "sp" if e["base"] == "sp" else e["base"][1:].split(".")[0]
        want_prefix = "z" if e["base"].startswith("z") else "x"
        if type(b).__name__ != "RegisterOperand" or b.prefix != want_prefix or str(b.name).lower() != want_name:
            V.bad("aarch64/mem.base/" + ("sp" if e["base"] == "sp" else want_prefix + "N"), "%s: base %s, written %s" % (ctx, asmgen.show(b), e["base"]))
        if e["offset"] is None:
            if o.offset is not None:
                V.bad("aarch64/mem.offset/spurious/" + e["form"], "%s: offset %s, none written" % (ctx, asmgen.show(o.offset)))
        else:
            _int_imm(ctx, "mem.offset", e["offset"], o.offset, V)
        if e["index"] is None:
            if o.index is not None:
                V.bad("aarch64/mem.index/spurious/" + e["form"], "%s: index %s, none written" % (ctx, asmgen.show(o.index)))
        else:
            i = o.index
            if type(i).__name__ != "RegisterOperand" or i.prefix != e["index"][0] or str(i.name).lower() != e["index"][1]:
                V.bad("aarch64/mem.index/" + e["form"], "%s: index %s, written %s%s" % (ctx, asmgen.show(i), e["index"][0], e["index"][1]))
        ext = e["ext"]
        want_scale = 2 ** ext[1] if ext and ext[1] is not None else 1
        if not _is_int(o.scale) or o.scale != want_scale:
            how = "no-extend" if not ext else ext[0] + ("/no-amount" if ext[1] is None else "")
            V.bad("aarch64/mem.scale/" + how, "%s: scale %r, expected %d (%s)" % (ctx, o.scale, want_scale, form))
        if bool(o.pre_indexed) != e["pre"]:
            V.bad("aarch64/mem.pre_indexed/" + e["form"], "%s: pre_indexed %r, written %s" % (ctx, o.pre_indexed, "'!'" if e["pre"] else "no '!'"))
        p = o.post_indexed
        if e["post"] is None:
            if p:
                V.bad("aarch64/mem.post_indexed/spurious/" + e["form"], "%s: post_indexed %r, none written" % (ctx, p))
        else:
            v = p.get("value") if isinstance(p, dict) else getattr(p, "value", p)
            if isinstance(v, str):
                try:
                    v = int(v, 0)
                except ValueError:
                    pass
            if not _is_int(v) or v != e["post"]["value"]:
                V.bad("aarch64/mem.post_indexed/" + e["post"]["cls"], "%s: post_indexed %r, written %s = %d" % (ctx, p, e["post"]["txt"], e["post"]["value"]))


def cmp_instr(form, item, V):
    ast = item["ast"]
    text = item["text"]
    if form.mnemonic != ast["mnemonic"]:
        V.bad("aarch64/mnemonic" + ("/.cond" if "." in ast["mnemonic"] else ""), "%r: mnemonic %r, written %r" % (text, form.mnemonic, ast["mnemonic"]))
    ops = list(form.operands)
    want = flatten(ast["operands"], item["follow"])
    if len(ops) != len(want):
        has_list = any(o["k"] == "list" for o in ast["operands"])
        V.bad("aarch64/operand-count/%s%s" % ("fewer" if len(ops) < len(want) else "more", "/with-register-list" if has_list else ""),
              "%r: %d operands %s, expected %d %s" % (text, len(ops), asmgen.show(ops), len(want), [asmgen.a64_optag(o) for o in ast["operands"]]))
        return
    for i, ((e, f), o) in enumerate(zip(want, ops)):
        cmp_operand(i, e, o, f, text, V)


def run_shard(spec, R):
    from osaca.parser import ParserAArch64

    asmgen.run_roundtrip(ISA, ParserAArch64(), spec, R, cmp_instr)


def replay(case, R):
    from osaca.parser import ParserAArch64

    asmgen.replay_roundtrip(ISA, ParserAArch64(), case, R, cmp_instr)
