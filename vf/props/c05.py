"""C05 Loop-carried dependencies are exactly the cross-iteration dependency cycles.

Monitor: the dictionary returned by the real KernelDG.get_loopcarried_dependencies() (keys, root, member instructions with
per-edge latencies, latency) and the LCD figure of the machine-readable summary. Oracle: own enumeration (R-graph) of
winding-number-1 cycles over the dependency relation of two explicitly concatenated iterations - (1) the relation the real
create_DG yields for the concatenated text (independent of the offset / path search / de-duplication / mapping logic under
test) and (2) the pure reference relation R-deps on the generator's AST.
"""
import os
import random

from .. import depgen as D
from .. import corpus, gen_model, isolate, ref_graph as RG
from ..common import EPS, CaseTimeout, digest, time_limit

LEVEL = "exploration"
RULE = (
    "kernels of 1-12 instructions (synthetic ISA databases / latency models and the curated vocabulary on shipped models) dense in "
    "register reuse so that self-loops, cycles sharing nodes, several cycles through one instruction, cycles through memory "
    "(store->load) and write-back registers occur, with and without flag dependencies, placed at file line offsets 0, 500, 998 and "
    "5000 (files longer than 1000 lines are ordinary compiler output); enumeration is exhaustive at this size; summary figure, "
    "per-line dict values and the LCD column of the text report (zero-latency members show 0.0, non-members nothing) are compared "
    "with the cycles. Non-trivial: >= 2 "
    "cycles or a cycle with >= 3 members; distinct by digest of (kernel text, flags, line offset)"
)
ASSUMPTIONS = [
    "reference (1) uses the real create_DG on an explicitly concatenated kernel - the edge relation itself is judged by C03/C06 and, "
    "here, by reference (2) (R-deps) whose disagreements are attributed to C03/C06 and only counted",
]
SHARD_TIMEOUT = {"quick": 900, "thorough": 5400}
STARTS = [0, 0, 500, 998, 5000]


def floors(tier):
    q = tier == "quick"
    return {"evaluations": 800 if q else 12000, "distinct_nontrivial": 250 if q else 4000, "kind:synth": 500 if q else 8000,
            "kind:curated": 200 if q else 3000, "cycles_checked": 1000 if q else 20000, "no_cycle": 40 if q else 600,
            "start:998": 80 if q else 1200, "start:5000": 80 if q else 1200, "self_loops": 100 if q else 1500, "mem_cycles": 10 if q else 150,
            "flags_on": 150 if q else 2500, "summary_checked": 700 if q else 10000, "lcd_column_checked": 400 if q else 6000, "report_lcd_column_checked": 400 if q else 6000, "report_lcd_list_checked": 300 if q else 5000, "member_latencies_checked": 1500 if q else 25000, "kernels_with_line_number_gaps": 150 if q else 2500, "kernels_of_50_or_more_lines": 15 if q else 300, "maximum_cycle_with_zero_latency_member": 20 if q else 300, "refdeps_compared": 400 if q else 6000}


def plan(tier, seed):
    q = tier == "quick"
    specs = []
    for i in range(12 if q else 40):
        specs.append({"kind": "synth", "isa": "x86" if i % 2 == 0 else "aarch64", "models": 6 if q else 25, "kernels": 14})
    for a in (["zen2", "spr", "zen1", "tx2", "v2", "n1"] if q else isolate.arch_models()):
        specs.append({"kind": "curated", "arch": a, "kernels": 45 if q else 250})
    return specs


def observed_lcds(forms, dg):
    idx = {f.line_number: i for i, f in enumerate(forms)}
    return dg.get_loopcarried_dependencies(), idx


def judge(isa, kernel_ast, forms, dg, mm, sem, parser, text, flags, start, R, case, frontend_path=None, arch=None):
    n = len(forms)
    lcd = dg.get_loopcarried_dependencies()
    idx = {f.line_number: i for i, f in enumerate(forms)}
    obs = {}
    for key, v in lcd.items():
        deps = v["dependencies"]
        lines = [d[0].line_number for d in deps]
        if key != "-".join(str(l) for l in lines):
            R.violation("entry/key-does-not-name-the-members", "key %r, members %s" % (key, lines), case)
        if not deps or v["root"] is not deps[0][0]:
            R.violation("entry/root-is-not-first-member", "key %r" % key, case)
        if any(l not in idx for l in lines):
            R.violation("entry/member-not-a-kernel-line", "key %r members %s, kernel lines %s..%s" % (key, lines, forms[0].line_number, forms[-1].line_number), case)
            continue
        # "the latencies along it": each member passes its result on with its latency without a separately modelled load stage
        # (+ forwarding latency through memory) or with the index write-back latency
        fwd = float((mm.get("store_to_load_forward_latency", 0) if mm is not None else 0) or 0)
        pidx = float(mm.get("p_index_latency", 1) if mm is not None else 1)
        for d in deps:
            F = d[0]
            wo = float(F.latency_wo_load if F.latency_wo_load is not None else F.latency)
            R.count("member_latencies_checked")
            if not any(abs(float(d[1]) - a) <= 1e-6 for a in (wo, wo + fwd, pidx)):
                R.violation("entry/member-latency-is-not-a-producer-latency", "key %r: line %d passes its result on with %s; its latency without load stage is %s "
                            "(forwarding %s, index write-back %s)" % (key, F.line_number, d[1], wo, fwd, pidx), case)
                break
        if abs(sum(float(d[1]) for d in deps) - float(v["latency"])) > 1e-6:
            R.violation("entry/latency-is-not-the-sum-along-the-cycle", "key %r latency %s, per-edge %s" % (key, v["latency"], [d[1] for d in deps]), case)
        canon = tuple(sorted((idx[d[0].line_number], round(float(d[1]), 6)) for d in deps))
        if canon in obs:
            R.violation("entry/cycle-reported-twice", "cycle %s reported under two keys" % (canon,), case)
        obs[canon] = float(v["latency"])
    # reference (1): real create_DG on the explicitly concatenated kernel, own enumeration
    k2 = parser.parse_file(text + text)
    sem.add_semantics(k2)
    g2 = dg.create_DG(k2, flags)
    pos = {f.line_number: i for i, f in enumerate(k2)}  # by position: line numbers may have gaps (blank lines)
    e2 = {}
    for u, v, d in g2.edges(data=True):
        if int(u) == u and int(v) == v:
            e2[(pos[int(u)], pos[int(v)])] = round(float(d["latency"]), 6)
    try:
        ref = RG.cycles_winding_one(n, e2)
    except OverflowError:
        R.inconclusive += 1
        return False
    R.count("cycles_checked", len(ref))
    missing = [c for c in ref if c not in obs]
    extra = [c for c in obs if c not in ref]
    for c in missing[:1]:
        R.violation("missing-cycle/" + cycle_tag(c, n), "cycle over instructions %s with latency %.3f is not reported (%d reported, %d exist; first line %d)"
                    % ([m[0] + 1 for m in c], ref[c], len(obs), len(ref), forms[0].line_number), case)
    for c in extra[:1]:
        R.violation("spurious-cycle/" + cycle_tag(c, n), "reported cycle over instructions %s (latency %.3f) is not a cross-iteration cycle"
                    % ([m[0] + 1 for m in c], obs[c]), case)
    for c in ref:
        if c in obs and abs(obs[c] - ref[c]) > 1e-6:
            R.violation("cycle-latency", "cycle %s reported with latency %.3f, sum along it %.3f" % ([m[0] + 1 for m in c], obs[c], ref[c]), case)
    if not ref:
        R.count("no_cycle")
    if any(len(c) == 1 for c in ref):
        R.count("self_loops")
    # reference (2): pure R-deps relation
    if kernel_ast is not None:
        k2a = kernel_ast + kernel_ast
        re = set(D.ref_edges(k2a, flags))
        stl, dc = D.ref_store_load(k2a, isa)
        if not dc:
            R.count("refdeps_compared")
            refrel = re | stl
            got = set(e2)
            if refrel != got:
                R.count("edges_differ_from_reference(C03/C06)")
            else:
                members = set(tuple(m[0] for m in c) for c in RG.cycles_winding_one(n, {e: 1.0 for e in refrel}))
                if members != set(tuple(m[0] for m in c) for c in obs):
                    R.violation("refdeps/cycle-members-differ", "cycles over the reference relation %s, reported %s"
                                % (sorted(members)[:6], sorted(set(tuple(m[0] for m in c) for c in obs))[:6]), case)
            if stl and any(any(((m[0], mm2[0]) in stl) or ((m[0], mm2[0] + n) in stl) for m in c for mm2 in c) for c in ref):
                R.count("mem_cycles")
    # summary figure
    try:
        from osaca.frontend import Frontend

        fe = Frontend(arch=arch) if arch else Frontend(path_to_yaml=frontend_path)
        d = fe.full_analysis_dict(forms, dg)
        R.count("summary_checked")
        want = max(obs.values()) if obs else 0.0
        if abs(float(d["Summary"]["LCD"]) - want) > 1e-6:
            R.violation("summary/not-the-maximum", "summary LCD %s, maximum over the reported cycles %s" % (d["Summary"]["LCD"], want), case)
        # the per-line LCD values (LCD column) mark the members of one cycle attaining the maximum, with its per-edge latencies
        marked = tuple(sorted((i, round(float(row["LatencyLCD"]), 6)) for i, row in enumerate(d["Kernel"]) if float(row["LatencyLCD"]) != 0.0))
        maxima = [c for c, l in obs.items() if abs(l - want) <= 1e-6]
        if obs:
            R.count("lcd_column_checked")
            nz = [tuple((i, w) for i, w in c if w != 0.0) for c in maxima]
            if marked not in nz:
                R.violation("column/does-not-mark-a-maximum-cycle", "per-line LCD values mark %s, cycles attaining the maximum %.3f: %s"
                            % (list(marked), want, [list(c) for c in maxima][:3]), case)
        elif marked:
            R.violation("column/marks-lines-without-any-cycle", "per-line LCD values %s although no loop-carried dependency is reported" % (list(marked),), case)
        # the LCD column of the text report: a filled cell on exactly the members of one maximum cycle (a member whose edge weighs
        # 0 shows 0.0, a non-member an empty cell)
        from .. import report_parse

        rep = report_parse.parse_report(fe.full_analysis(forms, dg, ignore_unknown=True))
        if rep["problems"] or any(r["problems"] for r in rep["rows"]):
            R.count("report_not_parsed")
        else:
            R.count("report_lcd_column_checked")
            by_ln = {f.line_number: i for i, f in enumerate(forms)}
            cells = tuple(sorted(by_ln[r["line_number"]] for r in rep["rows"] if r["lcd"] != "" and r["line_number"] in by_ln))
            member_sets = [tuple(sorted(i for i, w in c)) for c in maxima]
            if any(any(w == 0.0 for i, w in c) for c in maxima):
                R.count("maximum_cycle_with_zero_latency_member")
            if obs and cells not in member_sets:
                R.violation("column/report-cells-are-not-the-members-of-a-maximum-cycle", "LCD column of the report is filled on lines %s, members of the cycles attaining the maximum: %s"
                            % ([i + 1 for i in cells], [[i + 1 for i in m] for m in member_sets][:3]), case)
            elif not obs and cells:
                R.violation("column/marks-lines-without-any-cycle", "LCD column of the report is filled on lines %s although no loop-carried dependency is reported" % ([i + 1 for i in cells],), case)
            # the list under the table shows every reported cycle once, with its members and latency
            if rep["has_lcd_section"] or obs:
                R.count("report_lcd_list_checked")
                shown = sorted((tuple(sorted(by_ln.get(m, -1) for m in e["members"])), round(float(e["latency"]), 1)) for e in rep["lcd_list"])
                want_l = sorted((tuple(sorted(i for i, w in c)), round(l, 1)) for c, l in obs.items())
                if shown != want_l:
                    lost = [x for x in want_l if x not in shown]
                    extra = [x for x in shown if x not in want_l]
                    R.violation("list/%s" % ("cycle-not-shown" if lost and not extra else "shows-other-cycles" if extra and not lost else "differs"),
                                "LCD list of the report shows %d entries for %d cycles; not shown %s, shown but not reported %s" % (len(shown), len(want_l), lost[:3], extra[:3]), case)
    except Exception as e:  # noqa
        R.exception(e, case, prefix="summary/")
    return len(ref) >= 2 or any(len(c) >= 3 for c in ref)


def cycle_tag(c, n):
    return "self-loop" if len(c) == 1 else ("%d-members" % len(c) if len(c) <= 3 else "long")


def analyse_case(isa, path, ipath, arch, text, flags, start):
    from osaca.parser import get_parser
    from osaca.semantics import ArchSemantics, KernelDG, MachineModel

    parser = get_parser(isa)
    forms = parser.parse_file(text, start)
    mm = MachineModel(arch=arch) if arch else MachineModel(path_to_yaml=path)
    sem = ArchSemantics(mm, path_to_yaml=ipath) if ipath else ArchSemantics(mm)
    sem.add_semantics(forms)
    dg = KernelDG(forms, parser, mm, sem, -1, flags)
    return forms, dg, mm, sem, parser


def dense_kernel(krng, isa, vocab, curated):
    n = krng.choice([1, 2, 3, 4, 5, 6, 7, 8, 10, 12])
    pool = D.Pool(krng, isa, ng=krng.randint(2, 4), nv=krng.randint(2, 3))
    if curated:
        return [D.instantiate_curated(krng, isa, krng.choice(vocab), pool) for _ in range(n)]
    return D.rand_kernel(krng, isa, vocab, n, pool=pool)


def one_case(kind, isa, vocab, path, ipath, arch, mseed, kseed, R, sample=True):
    krng = random.Random(kseed)
    kernel_ast = dense_kernel(krng, isa, vocab, kind == "curated")
    flags = krng.random() < 0.35 and kind == "synth"
    start = krng.choice(STARTS)
    if kind == "synth" and krng.random() < 0.05:
        # at and above the 50-line threshold (multi-process search): the dense core spread over independent lines, a line of
        # the core last; lengths that are and are not multiples of the usual worker counts
        filler = [v for v in vocab if v["name"] == "fw0a"][0]
        fpool = D.Pool(krng, isa)
        total = krng.choice([50, 51, 53, 57, 63, 64])
        last = kernel_ast[-1:]
        body = kernel_ast[:-1]
        while len(body) + len(last) < total:
            body.insert(krng.randint(0, len(body)), D.instantiate(krng, isa, filler, fpool))
        kernel_ast = body + last
        flags = False
        R.count("kernels_of_50_or_more_lines")
    if krng.random() < 0.25:
        # blank lines inside the kernel: line numbers with gaps (as after --lines with several ranges)
        out = []
        for i in kernel_ast:
            while krng.random() < 0.3:
                out.append("")
            out.append(i["text"])
        text = "\n".join(out) + "\n"
        R.count("kernels_with_line_number_gaps")
    else:
        text = "\n".join(i["text"] for i in kernel_ast) + "\n"
    case = {"kind": kind, "isa": isa, "arch": arch, "model_seed": mseed, "kernel_seed": kseed, "kernel": text, "flags": flags, "start_line": start}
    try:
        with time_limit(90):
            forms, dg, mm, sem, parser = analyse_case(isa, path, ipath, arch, text, flags, start)
            if len(forms) != len(kernel_ast):
                R.count("gate:line-count")
                R.case()
                return
            nt = judge(isa, kernel_ast, forms, dg, mm, sem, parser, text, flags, start, R, case, frontend_path=path, arch=arch)
    except CaseTimeout:
        R.inconclusive += 1
        R.case()
        return
    except Exception as e:  # noqa
        R.exception(e, case)
        R.case()
        return
    R.case(digest((arch or "") + text + str(flags) + str(start)), nontrivial=nt)
    R.count("kind:" + kind)
    R.count("start:%d" % start)
    if flags:
        R.count("flags_on")
    if sample and nt:
        R.sample({"kind": kind, "arch": arch, "isa": isa, "first_line": start + 1, "kernel": text.strip().split("\n"),
                  "reported": {k: v["latency"] for k, v in dg.get_loopcarried_dependencies().items()}}, limit=2)


def run_synth(spec, R):
    from osaca.semantics import MachineModel

    rng = random.Random(spec["seed"])
    isa = spec["isa"]
    with gen_model.ScratchDir("c05") as d:
        for mi in range(spec["models"]):
            mseed = rng.getrandbits(48)
            mrng = random.Random(mseed)
            m, isa_db, vocab = D.dep_model(mrng, isa)
            path, ipath = os.path.join(d, "m%d.yml" % mi), os.path.join(d, "i%d.yml" % mi)
            open(path, "w").write(gen_model.model_yaml(m))
            open(ipath, "w").write(gen_model.model_yaml(isa_db))
            for k in range(spec["kernels"]):
                one_case("synth", isa, vocab, path, ipath, None, mseed, mrng.getrandbits(48), R)
            MachineModel._runtime_cache.pop(path, None)
            MachineModel._runtime_cache.pop(ipath, None)
            for fn in os.listdir(d):
                os.unlink(os.path.join(d, fn))


def run_curated(spec, R):
    arch = spec["arch"]
    isa = isolate.isa_of(arch)
    rng = random.Random(spec["seed"])
    vocab = D.curated_vocab(isa)
    for k in range(spec["kernels"]):
        one_case("curated", isa, vocab, None, None, arch, None, rng.getrandbits(48), R, sample=(k < 3))


def run_shard(spec, R):
    {"synth": run_synth, "curated": run_curated}[spec["kind"]](spec, R)


def replay(case, R):
    isa = case["isa"]
    if case["kind"] == "synth":
        mrng = random.Random(case["model_seed"])
        m, isa_db, vocab = D.dep_model(mrng, isa)
        with gen_model.ScratchDir("c05r") as d:
            path, ipath = os.path.join(d, "m.yml"), os.path.join(d, "i.yml")
            open(path, "w").write(gen_model.model_yaml(m))
            open(ipath, "w").write(gen_model.model_yaml(isa_db))
            one_case("synth", isa, vocab, path, ipath, None, case["model_seed"], case["kernel_seed"], R, sample=False)
    else:
        one_case("curated", isa, D.curated_vocab(isa), None, None, case["arch"], None, case["kernel_seed"], R, sample=False)
