"""C04 Critical path is the longest latency-weighted dependency chain.

Monitor: the result of the real KernelDG.get_critical_path() (marked lines, per-line latency_cp) together with the graph it was
computed on; oracle: R-graph (own longest-path DP over the observed DAG incl. separately modelled load stages).
"""
import os
import random

from .. import depgen as D
from .. import corpus, gen_model, isolate, ref_graph as RG
from ..common import EPS, CaseTimeout, digest, time_limit
from . import c03

LEVEL = "exploration"
RULE = (
    "kernels of C03 (synthetic latency models incl. zero latencies, composed loads that get a separate load node, chains ending in "
    "the most expensive instruction, ties, kernels without any dependency; curated real vocabulary on shipped models) plus every "
    "shipped example and test kernel on the models of its ISA; a fifth of the synthetic kernels are C06's store/load kernels. Non-trivial: the longest chain has >= 2 instructions and differs "
    "from the path that maximises the sum of edge weights alone, or it starts at a load node; distinct by digest of the kernel text"
)
ASSUMPTIONS = [
    "which instructions are linked is taken as observed (C03/C06's business); the weight of every edge is checked: producer's latency "
    "without its separately modelled load stage (+ store_to_load_forward_latency on a store->load edge), or the model's index "
    "write-back latency; load-stage edge = latency - latency without load",
    "the statement leaves open whether the independent load of the chain's last instruction counts: CP_B <= reported <= CP_A (DESIGN.md R-graph)",
]
SHARD_TIMEOUT = {"quick": 600, "thorough": 3600}


def floors(tier):
    q = tier == "quick"
    return {"evaluations": 1500 if q else 20000, "distinct_nontrivial": 150 if q else 2500, "kind:synth": 900 if q else 12000,
            "kind:curated": 300 if q else 5000, "kind:corpus": 40 if q else 200, "with_load_node": 300 if q else 4000,
            "no_dependency": 20 if q else 300, "chain_ge_3": 300 if q else 4000, "leading_load": 30 if q else 400,
            "last_is_most_expensive": 100 if q else 1500, "monitor:get_critical_path": 4000 if q else 55000, "line_number_gaps": 300 if q else 4000,
            "report_cp_column_checked": 1200 if q else 18000, "store_load_kernels": 80 if q else 1000, "dict_first_checked": 1200 if q else 18000, "flag_graph_compared": 150 if q else 2500,
            "edge_weights_checked": 8000 if q else 100000,
            "second_graphs": 800 if q else 10000, "asked_again_after_another_graph": 800 if q else 10000, "hidden_load_models": 20 if q else 300, "hidden_load_chains": 40 if q else 600, "hidden_composed_loads": 40 if q else 600}


def plan(tier, seed):
    q = tier == "quick"
    specs = []
    for i in range(12 if q else 40):
        specs.append({"kind": "synth", "isa": "x86" if i % 2 == 0 else "aarch64", "models": 8 if q else 30, "kernels": 14})
    archs = ["zen2", "spr", "zen1", "hsw", "tx2", "v2", "n1", "a64fx"] if q else isolate.arch_models()
    for a in archs:
        specs.append({"kind": "curated", "arch": a, "kernels": 60 if q else 350})
    for a in (["zen2", "spr", "zen1", "tx2", "v2", "n1"] if q else isolate.arch_models()):
        specs.append({"kind": "corpus", "arch": a})
    return specs


def gappy(rng, lines):
    """Kernel text; in a third of the cases with empty lines in front of / inside the kernel, so that line numbers have gaps
    (parse_file skips empty lines but keeps counting)."""
    if rng.random() < 0.35:
        out = []
        for l in lines:
            while rng.random() < 0.3:
                out.append("")
            out.append(l)
        return "\n".join(out) + "\n"
    return "\n".join(lines) + "\n"


def report_cp_marks(forms, dg, frontend):
    """CP column of the combined view of the text report: {line number: value} of the marked lines."""
    from .. import report_parse

    text = frontend.full_analysis(forms, dg, ignore_unknown=True)
    rep = report_parse.parse_report(text)
    if rep["problems"] or any(r["problems"] for r in rep["rows"]):
        return None
    return {r["line_number"]: float(r["cp"]) for r in rep["rows"] if r["cp"] != ""}


def graph_data(forms, dg):
    nodes = list(dg.dg.nodes)
    edges = {(u, v): float(d["latency"]) for u, v, d in dg.dg.edges(data=True)}
    lat, wo = {}, {}
    for f in forms:
        lat[f.line_number] = float(f.latency)
        wo[f.line_number] = float(f.latency_wo_load if f.latency_wo_load is not None else f.latency)
    return nodes, edges, lat, wo


def judge(forms, dg, R, case, frontend=None):
    first_dict = None
    if frontend is not None:
        # the machine-readable report asked for first, from the fresh graph (nothing has asked for the critical path yet)
        try:
            first_dict = frontend.full_analysis_dict(forms, dg)
        except Exception as e:  # noqa
            R.exception(e, case, prefix="dict-first/")
    nt = judge_calls(forms, dg, R, case)
    nt = second_graph(forms, dg, R, case) or nt
    if case.get("flags"):
        # flag dependencies were requested: the graph the critical path is taken from must be the one built with them
        try:
            g2 = dg.create_DG(list(forms), True)
            R.count("flag_graph_compared")
            if set(g2.edges) != set(dg.dg.edges):
                miss = sorted(set(g2.edges) - set(dg.dg.edges))[:4]
                R.violation("graph/not-built-with-the-requested-flag-dependencies", "the critical-path graph lacks %d edge(s) that create_DG yields with flag "
                            "dependencies, e.g. %s" % (len(set(g2.edges) - set(dg.dg.edges)), miss), case)
        except Exception as e:  # noqa
            R.exception(e, case, prefix="flag-graph/")
    if first_dict is not None:
        R.count("dict_first_checked")
        cp = dg.get_critical_path()
        want = {x.line_number: float(x.latency_cp) for x in cp}
        got = {int(row["LineNumber"]): float(row["LatencyCP"]) for row in first_dict["Kernel"]}
        tot = float(first_dict["Summary"]["CriticalPath"])
        if abs(sum(got.values()) - tot) > 1e-6:
            R.violation("dict/per-line-values-do-not-add-up-to-the-total", "dict asked for first: per-line LatencyCP add up to %s, Summary.CriticalPath %s"
                        % (sum(got.values()), tot), case)
        elif any(abs(got.get(l, 0.0) - v) > 1e-6 for l, v in want.items()) or any(v != 0.0 and l not in want for l, v in got.items()):
            R.violation("dict/per-line-values-are-not-the-critical-path", "dict asked for first: LatencyCP %s, critical path %s"
                        % ({l: v for l, v in got.items() if v}, want), case)
    if frontend is not None:
        try:
            marks = report_cp_marks(forms, dg, frontend)
        except Exception as e:  # noqa
            R.exception(e, case, prefix="report/")
            return nt
        if marks is None:
            R.count("report_not_parsed")
            return nt
        R.count("report_cp_column_checked")
        cp = dg.get_critical_path()
        want = {x.line_number: float(x.latency_cp) for x in cp}
        if set(marks) != set(want):
            R.violation("report/marked-lines-are-not-the-critical-path", "CP column marks lines %s, critical path is %s (zero-latency members %s)"
                        % (sorted(marks), sorted(want), sorted(l for l, v in want.items() if v == 0)), case)
        elif any(abs(marks[l] - want[l]) > 0.05 + 1e-9 for l in want):
            R.violation("report/cp-cell-value", "CP column %s, critical path latencies %s" % (marks, want), case)
    return nt


def _rekey(R, before, prefix):
    n = sum(R.witness_counts.values()) - before
    for w in (R.witnesses[-n:] if n > 0 else []):
        if not w["key"].startswith(prefix):
            R.witness_counts[w["key"]] -= 1
            if R.witness_counts[w["key"]] <= 0:
                del R.witness_counts[w["key"]]
            w["key"] = prefix + w["key"]
            R.witness_counts[w["key"]] += 1
    return n > 0


def second_graph(forms, dg, R, case):
    """A library user (or --lines after a whole-file analysis) builds another graph over the same instruction forms - here the
    second half of the kernel: its critical path is judged, and the first graph's once more when it is asked again afterwards."""
    if len(forms) < 3 or sum(R.witness_counts.values()) or case.get("kind") == "corpus":
        return False
    from osaca.semantics import KernelDG

    k = len(forms) // 2
    sub = list(forms[k:])
    try:
        dg2 = KernelDG(sub, dg.parser, dg.model, dg.arch_sem, 0 if len(sub) > 8 else -1, bool(case.get("flags")))
    except Exception as e:  # noqa
        R.exception(e, case, prefix="second-graph/")
        return False
    R.count("second_graphs")
    before = sum(R.witness_counts.values())
    nt = judge_once(sub, dg2, R, case)
    if _rekey(R, before, "second-graph/"):
        return nt
    before = sum(R.witness_counts.values())
    judge_once(forms, dg, R, case)
    _rekey(R, before, "asked-again-after-another-graph/")
    R.count("asked_again_after_another_graph")
    return nt


def judge_calls(forms, dg, R, case):
    """The critical path is asked for several times, as the real front end does (text report, then dict / YAML, then graph
    export): every answer is judged, not only the first one."""
    nt = False
    for rep in range(3):
        before = sum(R.witness_counts.values())
        nt = judge_once(forms, dg, R, case) or nt
        if rep > 0 and sum(R.witness_counts.values()) > before:
            # the first call was fine, a later one is not: re-key the new witnesses
            for w in R.witnesses[-(sum(R.witness_counts.values()) - before):]:
                if not w["key"].startswith("repeated-call/"):
                    R.witness_counts[w["key"]] -= 1
                    if R.witness_counts[w["key"]] <= 0:
                        del R.witness_counts[w["key"]]
                    w["key"] = "repeated-call/" + w["key"]
                    R.witness_counts[w["key"]] += 1
            break
        if sum(R.witness_counts.values()) > before:
            break
    return nt


def _regkey(r):
    return ((getattr(r, "prefix", None) or "").lower(), str(getattr(r, "name", "")).lower())


def reads_written_back_base(prod, cons):
    """Does ``cons`` mention (as operand, or as base/index of a memory operand) the base register of a pre-/post-indexed memory
    operand of ``prod``? Plain look at the parsed operands; same register = same number in the general-purpose file."""
    if prod is None or cons is None:
        return True
    bases = []
    for o in prod.operands or []:
        if type(o).__name__ == "MemoryOperand" and (o.pre_indexed or o.post_indexed) and o.base is not None:
            bases.append(_regkey(o.base))
    if not bases:
        return False
    seen = []
    sem = cons.semantic_operands or {}
    # what the consumer reads according to the analysis itself (explicit and implicit operands), plus every address register
    for o in list(sem.get("source", [])) + list(sem.get("src_dst", [])) + list(sem.get("destination", [])) + list(cons.operands or []):
        n = type(o).__name__
        if n == "RegisterOperand":
            seen.append(_regkey(o))
        elif n == "MemoryOperand":
            for r in (o.base, o.index):
                if r is not None:
                    seen.append(_regkey(r))
    gp = lambda k: k[0] in ("x", "w", "")  # noqa
    return any(gp(b) and gp(k) and b[1] == k[1] for b in bases for k in seen)


def judge_once(forms, dg, R, case):
    nodes, edges, lat, wo = graph_data(forms, dg)
    try:
        cp = dg.get_critical_path()
    except Exception as e:  # noqa
        R.exception(e, case)
        return False
    R.count("monitor:get_critical_path")
    # "producer-to-consumer latency": every edge out of an instruction weighs that instruction's latency without its separately
    # modelled load stage (plus the model's forwarding latency on a store->load edge), or the model's index write-back latency;
    # the edge from a load stage to its instruction weighs the load part
    by_line = {f.line_number: f for f in forms}
    model = getattr(dg, "model", None)
    fwd = float((model.get("store_to_load_forward_latency", 0) if model is not None else 0) or 0)
    pidx = float(model.get("p_index_latency", 1) if model is not None else 1)
    for (u, v), w in edges.items():
        if int(u) != u:
            adm = {lat[int(u)] - wo[int(u)]}
        else:
            adm = {wo[u], wo[u] + fwd, pidx}
        R.count("edge_weights_checked")
        if int(u) == u and abs(w - pidx) <= 1e-6 and not any(abs(w - a) <= 1e-6 for a in (wo[u], wo[u] + fwd)):
            # the index write-back latency is only right on an edge to a reader of the written-back base register
            if not reads_written_back_base(by_line.get(u), by_line.get(v)):
                R.violation("edge-weight/write-back-latency-on-another-edge", "edge %s->%s weighs the index write-back latency %s although the consumer does not read a "
                            "written-back base register of the producer (producer latency without load stage %s)" % (u, v, w, wo[u]), case)
                break
            R.count("write_back_edges_checked")
        if not any(abs(w - a) <= 1e-6 for a in adm):
            R.violation("edge-weight/not-the-producer-latency", "edge %s->%s weighs %s; latency of the producer %s (without load stage %s), forwarding %s, index write-back %s"
                        % (u, v, w, lat[int(u)], wo[int(u)], fwd, pidx), case)
            break
    total = sum(float(x.latency_cp) for x in cp)
    chain = [x.line_number for x in cp]
    # the reference chain lengths are taken on the observed graph completed with the memory-load stage of every instruction whose
    # load is modelled separately (latency > latency without load), so a stage the graph builder left out is still counted once
    obs_nodes, obs_edges = nodes, edges
    from osaca.semantics import INSTR_FLAGS as _F

    missing_stage = []
    for f in forms:
        ln = f.line_number
        if _F.HAS_LD in f.flags and _F.LD not in f.flags and lat[ln] - wo[ln] > EPS and (ln + 0.1) not in obs_nodes:
            missing_stage.append(ln)
    if missing_stage:
        nodes = list(obs_nodes) + [ln + 0.1 for ln in missing_stage]
        edges = dict(obs_edges)
        for ln in missing_stage:
            edges[(ln + 0.1, ln)] = lat[ln] - wo[ln]
    cpb, cpa = RG.critical_path_bounds(nodes, edges, lat, wo)
    info = "reported %.3f over lines %s; longest chain %.3f (%.3f if the last instruction's own load counts)" % (total, chain, cpb, cpa)
    maxlat = max(lat.values()) if lat else 0.0
    if total < maxlat - EPS:
        R.violation("below-single-instruction-latency", "%s; the instruction with latency %.3f alone takes longer" % (info, maxlat), case)
    elif total < cpb - EPS:
        L, pred = RG.longest_to(nodes, edges)
        best = max((v for v in nodes if int(v) == v), key=lambda v: L[v] + wo[v])
        path = [best]
        while pred[path[-1]] is not None:
            path.append(pred[path[-1]])
        path.reverse()
        starts_at_load = int(path[0]) != path[0]
        if starts_at_load:
            key = "too-short/leading-load-stage-not-counted"
        elif abs(RG.max_edge_sum(nodes, edges) + 0 - (L[best])) > EPS:
            key = "too-short/last-instruction-latency-not-in-path-choice"
        else:
            key = "too-short/other"
        R.violation(key, "%s; e.g. chain %s" % (info, path), case)
    elif total > cpa + EPS:
        R.violation("too-long", info, case)
    nodes, edges = obs_nodes, obs_edges
    # the marked lines form a chain of that length
    if chain != sorted(chain) or len(set(chain)) != len(chain):
        R.violation("marked/not-in-program-order", "marked lines %s" % chain, case)
    else:
        adm = RG.chain_lengths(chain, edges, lat, wo)
        if adm is None:
            R.violation("marked/consecutive-lines-not-linked", "marked lines %s are not pairwise linked by a dependency" % chain, case)
        elif not any(abs(total - a) <= 1e-6 for a in adm):
            R.violation("marked/per-line-values-do-not-add-up-to-the-chain", "marked chain %s has length %s, per-line CP latencies add up to %.3f"
                        % (chain, sorted(adm), total), case)
        else:
            # per-line values: edge weight to the next marked line (+ leading load stage on the first line), last: its latency
            per = [float(x.latency_cp) for x in cp]
            ok = True
            for i, (u, v) in enumerate(zip(chain, chain[1:])):
                w = edges[(u, v)]
                lead = edges.get((u + 0.1, u)) if i == 0 else None
                if not (abs(per[i] - w) <= 1e-6 or (lead is not None and abs(per[i] - w - lead) <= 1e-6)):
                    ok = False
            last = chain[-1]
            lastadm = {lat[last], wo[last]}
            if len(chain) == 1 and (last + 0.1, last) in edges:
                lastadm.add(lat[last])
            if not any(abs(per[-1] - a) <= 1e-6 for a in lastadm):
                ok = False
            if not ok:
                R.violation("marked/per-line-value-is-not-the-edge-weight", "chain %s per-line CP latencies %s" % (chain, per), case)
    # classification of the case for coverage
    if any(int(n) != n for n in nodes):
        R.count("with_load_node")
    if not [e for e in edges if int(e[0]) == e[0]]:
        R.count("no_dependency")
    L, pred = RG.longest_to(nodes, edges)
    instr = [v for v in nodes if int(v) == v]
    best = max(instr, key=lambda v: L[v] + wo[v])
    path = [best]
    while pred[path[-1]] is not None:
        path.append(pred[path[-1]])
    if len([p for p in path if int(p) == p]) >= 3:
        R.count("chain_ge_3")
    lead = int(path[-1]) != path[-1]
    if lead:
        R.count("leading_load")
    if lat and lat[best] == maxlat and len(path) >= 2:
        R.count("last_is_most_expensive")
    edge_best = RG.max_edge_sum(nodes, edges)
    return (len([p for p in path if int(p) == p]) >= 2 and abs(L[best] - edge_best) > EPS) or lead


def run_synth(spec, R):
    from osaca.semantics import MachineModel

    rng = random.Random(spec["seed"])
    isa = spec["isa"]
    with gen_model.ScratchDir("c04") as d:
        for mi in range(spec["models"]):
            mseed = rng.getrandbits(48)
            m, isa_db, vocab, mrng = synth_model(mseed, isa)
            path, ipath = os.path.join(d, "m%d.yml" % mi), os.path.join(d, "i%d.yml" % mi)
            open(path, "w").write(gen_model.model_yaml(m))
            open(ipath, "w").write(gen_model.model_yaml(isa_db))
            for k in range(spec["kernels"]):
                synth_case(isa, vocab, path, ipath, mseed, mrng.getrandbits(48), R)
            if m["hidden_loads"]:
                # models that hide loads behind stores (throughput only): one fixed-shape chain per model that starts at a hidden,
                # composed load, so that this class does not depend on what the random kernels happen to contain
                R.count("hidden_load_models")
                for k in range(2):
                    synth_case(isa, vocab, path, ipath, mseed, mrng.getrandbits(48), R, shape="hidden-load-chain")
            MachineModel._runtime_cache.pop(path, None)
            MachineModel._runtime_cache.pop(ipath, None)
            for fn in os.listdir(d):
                os.unlink(os.path.join(d, fn))


def synth_model(mseed, isa):
    """Synthetic model of a seed; every other one sets hidden_loads (a user-model option no shipped model uses: it hides the
    port pressure of loads behind stores and must leave every latency, hence the critical path, alone)."""
    mrng = random.Random(mseed)
    m, isa_db, vocab = D.dep_model(mrng, isa)
    m["hidden_loads"] = bool((mseed >> 7) & 1)
    return m, isa_db, vocab, mrng


def hidden_load_chain(krng, isa, vocab):
    """composed load (register form + separate load node) -> register consumer -> store of the result"""
    i = krng.choice([0, 1])
    byname = {v["name"]: v for v in vocab}
    lc, st = byname.get("lc%da" % i), byname.get("st%da" % i)
    if lc is None or st is None:
        return None
    cls = [o for o in lc["ops"] if o["kind"] == "reg"][0]
    pool = D.Pool(krng, isa, ng=3, nv=2)
    r = pool.reg(krng, cls["cls"], False, cls.get("cls_pat"))
    cons = [v for v in vocab if v["ops"] and all(o["kind"] == "reg" and o["cls"] == cls["cls"] and not o.get("wide") for o in v["ops"])
            and any("s" in o["role"] for o in v["ops"]) and not v["zero"] and not v.get("bump")]
    out = [D.instantiate(krng, isa, lc, pool, regs=[r])]
    if cons:
        c = krng.choice(cons)
        out.append(D.instantiate(krng, isa, c, pool, regs=[r] * len(c["ops"])))
    out.append(D.instantiate(krng, isa, st, pool, regs=[r]))
    return out


def synth_case(isa, vocab, path, ipath, mseed, kseed, R, sample=True, shape=None):
    krng = random.Random(kseed)
    n = krng.choice([1, 2, 3, 4, 5, 6, 8, 10, 12])
    kernel_ast = hidden_load_chain(krng, isa, vocab) if shape == "hidden-load-chain" else None
    if kernel_ast is not None:
        R.count("hidden_load_chains")
    elif krng.random() < 0.15:
        # kernels without any dependency: every instruction on registers of its own
        pool = D.Pool(krng, isa, ng=6, nv=4)
        kernel_ast = []
        for i in range(min(n, 4)):
            f = krng.choice([v for v in vocab if not any(o["kind"] == "mem" for o in v["ops"]) and not v["hidden"]])
            p1 = D.Pool(krng, isa, ng=1, nv=1)
            p1.g, p1.v = [pool.g[i % len(pool.g)]], [pool.v[i % len(pool.v)]]
            kernel_ast.append(D.instantiate(krng, isa, f, p1))
    elif krng.random() < 0.2 and any(v["name"].startswith("st") for v in vocab):
        # chains through memory: a store and the loads that read it back (forwarding latency on those edges)
        from . import c06

        kernel_ast, _, _ = c06.stl_kernel(krng, isa, vocab, curated=False)
        R.count("store_load_kernels")
    else:
        kernel_ast = D.rand_kernel(krng, isa, vocab, n)
    flags = krng.random() < 0.3
    text = gappy(krng, [i["text"] for i in kernel_ast])
    case = {"kind": "synth", "isa": isa, "model_seed": mseed, "kernel_seed": kseed, "kernel": text, "flags": flags}
    if shape:
        case["shape"] = shape
    try:
        with time_limit(60):
            forms, dg, mm = D.analyse(isa, path, ipath, text, flags=flags, timeout=0 if len(kernel_ast) > 8 else -1)
    except CaseTimeout:
        R.inconclusive += 1
        R.case()
        return
    except Exception as e:  # noqa
        R.exception(e, case)
        R.case()
        return
    from osaca.frontend import Frontend
    from osaca.semantics.hw_model import MachineModel  # noqa
    from osaca.semantics import INSTR_FLAGS

    nh = sum(1 for f in forms if INSTR_FLAGS.HIDDEN_LD in f.flags and INSTR_FLAGS.HAS_LD in f.flags and INSTR_FLAGS.LD not in f.flags)
    if nh:
        R.count("hidden_composed_loads", nh)
    nt = judge(forms, dg, R, case, frontend=Frontend(path_to_yaml=path))
    if any(b.line_number - a.line_number > 1 for a, b in zip(forms, forms[1:])) or forms[0].line_number > 1:
        R.count("line_number_gaps")
    R.case(digest(text + str(flags)), nontrivial=nt)
    R.count("kind:synth")
    if sample and nt:
        R.sample({"isa": isa, "kernel": text.strip().split("\n"), "cp_lines": [x.line_number for x in dg.get_critical_path()],
                  "cp": sum(float(x.latency_cp) for x in dg.get_critical_path())}, limit=2)


def run_curated(spec, R):
    arch = spec["arch"]
    isa = isolate.isa_of(arch)
    rng = random.Random(spec["seed"])
    vocab = D.curated_vocab(isa)
    for k in range(spec["kernels"]):
        curated_case(arch, isa, vocab, rng.getrandbits(48), R)


def curated_case(arch, isa, vocab, kseed, R):
    krng = random.Random(kseed)
    pool = D.Pool(krng, isa)
    kernel_ast = [D.instantiate_curated(krng, isa, krng.choice(vocab), pool) for _ in range(krng.choice([1, 2, 3, 4, 6, 8, 10]))]
    text = gappy(krng, [i["text"] for i in kernel_ast])
    case = {"kind": "curated", "arch": arch, "kernel_seed": kseed, "kernel": text}
    try:
        with time_limit(60):
            forms, dg, mm = D.analyse(isa, None, None, text, flags=False, timeout=-1, arch=arch)
    except CaseTimeout:
        R.inconclusive += 1
        R.case()
        return
    except Exception as e:  # noqa
        R.exception(e, case)
        R.case()
        return
    from osaca.frontend import Frontend

    nt = judge(forms, dg, R, case, frontend=Frontend(arch=arch))
    if any(b.line_number - a.line_number > 1 for a, b in zip(forms, forms[1:])) or forms[0].line_number > 1:
        R.count("line_number_gaps")
    R.case(digest(arch + text), nontrivial=nt)
    R.count("kind:curated")


def run_corpus(spec, R):
    from osaca.semantics import ArchSemantics, KernelDG, MachineModel

    arch = spec["arch"]
    isa = isolate.isa_of(arch)
    mm = MachineModel(arch=arch)
    sem = ArchSemantics(mm)
    for f in corpus.corpus(isa):
        case = {"kind": "corpus", "arch": arch, "file": f}
        try:
            kernel, parser = corpus.marked_kernel(f, isa)
            if len(kernel) > 60:
                R.count("corpus_skipped_long")
                continue
            with time_limit(120):
                sem.add_semantics(kernel)
                dg = KernelDG(kernel, parser, mm, sem, 0, False)
        except CaseTimeout:
            R.inconclusive += 1
            R.case()
            continue
        except Exception as e:  # noqa
            R.exception(e, case)
            R.case()
            continue
        from osaca.frontend import Frontend

        nt = judge(kernel, dg, R, case, frontend=Frontend(arch=arch))
        R.case(digest(arch + os.path.basename(f)), nontrivial=nt)
        R.count("kind:corpus")
        R.sample({"arch": arch, "file": os.path.basename(f), "cp": sum(float(x.latency_cp) for x in dg.get_critical_path())}, limit=3)


def run_shard(spec, R):
    {"synth": run_synth, "curated": run_curated, "corpus": run_corpus}[spec["kind"]](spec, R)


def replay(case, R):
    if case["kind"] == "synth":
        isa = case["isa"]
        m, isa_db, vocab, mrng = synth_model(case["model_seed"], isa)
        with gen_model.ScratchDir("c04r") as d:
            path, ipath = os.path.join(d, "m.yml"), os.path.join(d, "i.yml")
            open(path, "w").write(gen_model.model_yaml(m))
            open(ipath, "w").write(gen_model.model_yaml(isa_db))
            synth_case(isa, vocab, path, ipath, case["model_seed"], case["kernel_seed"], R, sample=False, shape=case.get("shape"))
    elif case["kind"] == "curated":
        isa = isolate.isa_of(case["arch"])
        curated_case(case["arch"], isa, D.curated_vocab(isa), case["kernel_seed"], R)
    else:
        run_corpus({"arch": case["arch"]}, R)
