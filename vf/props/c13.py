"""C13 Text report, machine-readable output and totals agree.

Monitor: the real CLI path ``osaca.osaca.run(args)`` (in-process; a sample as true ``python -m osaca`` subprocesses)
is run with ``--yaml-out``.  Observed events: the text written to the output stream, the dict returned by
``Frontend.full_analysis_dict`` (wrapper on the class), the kernel / dependency graph handed to
``Frontend.full_analysis`` (wrapper), and - in a sample - the YAML file loaded back with ruamel's unsafe loader.
Oracle: ``vf.report_parse`` slices the text by the header's column spans; every shown cell is compared with the dict
at the cell's own precision, as are totals row, LCD list, X marks, the warnings and the header architecture.
"""
import io
import os
import random
import re
import subprocess

from .. import isolate, report_parse as rp
from ..common import CaseTimeout, digest, time_limit

LEVEL = "exploration"
RULE = (
    "one case = (kernel file, model or none, --fixed?, --ignore-unknown?, --lines?) run through the real CLI path; files: "
    "shipped examples/test kernels of the model's ISA and generated kernels (random mixes of corpus instruction lines, "
    "made-up mnemonics, zero-pressure instructions, repeated divide/sqrt for port sums >=10/>=100, 99/100/101/150-line "
    "unmarked files of independent instructions, marked >100-line files, --lines runs, no --arch runs, long unmarked file without --arch; on a private model zen1 + synthetic forms: partial-data forms and thirds next to 12/120-cycle cells); a case is "
    "non-trivial when its report has >=1 non-blank pressure cell or an X mark; distinct = digest(file text, options)"
)
ASSUMPTIONS = [
    "the text row i and dict Kernel[i] describe the same line (checked: equal line number and text)",
    "'equals at the shown precision' = |cell - value| <= half a unit of the cell's last shown digit + 1e-9; a blank "
    "pressure cell must hide |value| < 0.005",
    "per-port totals are compared with the dict's Summary.PortPressure and with the column sums of the dict's Kernel "
    "rows (tolerance: half a unit of the shown digit + 0.005 for the two-decimal rounding of the total); rows whose "
    "dict Throughput is 0.0 are left out of the column sum because OSACA documents that it does not total them "
    "(counted as dontcare:zero_throughput_line_with_pressure_not_in_total)",
    "the loop-carried dependency list is compared with the dependency dict of the KernelDG object that inspect() "
    "handed to the frontend (the YAML/dict output has no dependency list); in true-CLI runs only text-vs-YAML is judged",
    "X marks are judged only in the branch the statement describes (data missing and no --ignore-unknown)",
    "default-architecture header is judged only for files whose register names are unambiguous for one ISA "
    "(own regex scan); for other files only presence/absence of the warning is judged",
    "LCD search that exceeds the per-case watchdog (120 s) is an inconclusive case",
    "the in-process driver closes args.file / args.yaml_out itself; reports are read from the stream passed to run()",
]
SHARD_TIMEOUT = {"quick": 420, "thorough": 2400}

PY = isolate.PY
DEFAULTS = {"x86": "SPR", "aarch64": "V2"}
CLASSES = [
    "corpus", "mix", "unknown", "zero", "heavy10", "heavy100", "len99", "len100", "len101", "len150",
    "len_marked", "len_lines", "len_noarch", "len_marked_intonly", "noarch", "corpus_noarch", "corpus_lines", "mix_marked", "allunknown",
]

LEN_CLASSES = ["len99", "len100", "len101", "len150", "len_marked", "len_lines", "len_noarch", "len_marked_intonly"]
BASE_CLASSES = [c for c in CLASSES if c not in LEN_CLASSES]

HEAVY = {
    "x86": ["vdivpd %ymm1, %ymm2, %ymm3", "vdivsd %xmm1, %xmm2, %xmm3", "sqrtsd %xmm1, %xmm3",
            "vsqrtpd %ymm1, %ymm3", "divsd %xmm1, %xmm3", "vdivps %ymm1, %ymm2, %ymm3"],
    "aarch64": ["fdiv d0, d1, d2", "fdiv v0.2d, v1.2d, v2.2d", "fsqrt d0, d1", "fsqrt v0.2d, v1.2d",
                "sdiv x9, x2, x3", "fdiv s0, s1, s2"],
}
UNKNOWN = {
    "x86": ["vfoobarpd %xmm1, %xmm2, %xmm3", "qwertzq %rax, %rbx", "vblorpps (%rax), %ymm1, %ymm2", "xyzzy"],
    "aarch64": ["fooadd x1, x2, x3", "zzmul v1.2d, v2.2d, v3.2d", "qldr d0, [x1, 8]", "xyzzy"],
}
# instructions whose model entry has a latency but no throughput / port data (X-marked, counted as missing) or a throughput but
# no latency: zen1 ships three of the first kind; the synthetic 'csx' model (zen1 + three forms) provides all kinds
PARTIAL = {
    "zen1": ["rcpss %xmm0, %xmm1", "sqrtsd %xmm0, %xmm1", "sqrtss %xmm2, %xmm1", "pop %rax"],
    "csx": ["ptla %xmm1, %xmm2", "ptlb %xmm3, %xmm4", "ptlc %xmm5, %xmm6", "rcpss %xmm0, %xmm1"],
}
SYNTH_FORMS = """
- name: ptla
  operands:
  - class: register
    name: xmm
  - class: register
    name: xmm
  throughput: ~
  latency: 4.0
  port_pressure: []
  uops: 1
- name: ptlb
  operands:
  - class: register
    name: xmm
  - class: register
    name: xmm
  throughput: ~
  latency: 2.0
  port_pressure: []
- name: ptlc
  operands:
  - class: register
    name: xmm
  - class: register
    name: xmm
  throughput: 1.0
  latency: ~
  port_pressure: [[1, '0']]
- name: hvya
  operands:
  - class: register
    name: xmm
  - class: register
    name: xmm
  throughput: 12.0
  latency: 20.0
  port_pressure: [[12, '0']]
- name: hvyb
  operands:
  - class: register
    name: xmm
  - class: register
    name: xmm
  throughput: 120.0
  latency: 130.0
  port_pressure: [[120, '1'], [1, '012']]
- name: thra
  operands:
  - class: register
    name: xmm
  - class: register
    name: xmm
  throughput: 0.3333
  latency: 1.0
  port_pressure: [[1, '012']]
- name: latonea
  operands:
  - class: register
    name: xmm
  - class: register
    name: xmm
  throughput: 1.0
  latency: 1.0
  port_pressure: [[1, '1']]
- name: latthreea
  operands:
  - class: register
    name: xmm
  - class: register
    name: xmm
  throughput: 1.0
  latency: 3.0
  port_pressure: [[1, '0']]
- name: thrb
  operands:
  - class: register
    name: xmm
  - class: register
    name: xmm
  throughput: 0.6667
  latency: 2.0
  port_pressure: [[2, '012'], [1, '45']]
"""
# a port column is as wide as its largest cell: next to a >= 10 (>= 100) cycle cell, thirds are shown with three (four) decimals
WIDECOL = ["hvya %xmm1, %xmm2", "hvyb %xmm3, %xmm4", "thra %xmm5, %xmm6", "thrb %xmm7, %xmm8", "thra %xmm9, %xmm10"]
ZERO = {
    "x86": ["jne .L77", "jmp .L77", "nop", "je .L77", "jb .L77"],
    "aarch64": ["bne .L77", "b.ne .L77", "nop", "b .L77", "b.lt .L77"],
}


# ------------------------------------------------------------------------------------------------ workload
def corpus(isa):
    repo = isolate.repo()
    out = []
    for d in sorted(os.listdir(os.path.join(repo, "examples"))):
        p = os.path.join(repo, "examples", d)
        if os.path.isdir(p):
            for f in sorted(os.listdir(p)):
                if f.endswith(".s"):
                    a64 = ".tx2." in f
                    if (isa == "aarch64") == a64:
                        out.append(os.path.join(p, f))
    tf = os.path.join(repo, "tests", "test_files")
    names = {
        "x86": ["kernel_x86.s", "kernel_x86_memdep.s", "triad_x86_iaca.s", "triad_x86_unmarked.s"],
        "aarch64": ["kernel_aarch64.s", "kernel_aarch64_deps.s", "kernel_aarch64_memdep.s", "kernel_aarch64_sve.s",
                    "triad_arm_iaca.s"],
    }[isa]
    out += [os.path.join(tf, n) for n in names if os.path.exists(os.path.join(tf, n))]
    return out


def has_markers(text):
    return bool(
        re.search(r"OSACA-BEGIN|OSACA-END", text)
        or re.search(r"mov[l]?\s+\$(111|222)\s*,\s*%ebx", text)
        or re.search(r"mov\s+x1\s*,\s*#?(111|222)\b", text)
    )


def nonblank(text):
    return sum(1 for l in text.split("\n") if l.strip())


def unambiguous_isa(text):
    """Own, deliberately conservative scan of the register names; None = don't care."""
    x86 = len(re.findall(r"%[xyz]mm\d|%[re][abcd]x|%r\d+|%[re][sd]i", text))
    a64 = len(re.findall(r"(?<![\w%.$])[xwvqdsz]\d+\b", text))
    if x86 and not a64 and not re.search(r"[wx][0-9]", text):
        return "x86"
    if a64 and "%" not in text:
        return "aarch64"
    return None


def instr_pool(isa):
    pool = []
    for f in corpus(isa):
        if "unmarked" in f or "iaca" in f:
            continue
        with open(f) as fh:
            for l in fh.read().split("\n"):
                s = l.strip()
                if not s or s.endswith(":") or s[0] in ".#/" or "OSACA" in s or "IACA" in s or ".byte" in s:
                    continue
                if re.match(r"^mov[l]?\s+\$(111|222)", s) or re.match(r"^mov\s+x1\s*,\s*#(111|222)", s):
                    continue
                s = re.split(r"\s//", s)[0].rstrip() if isa == "aarch64" else re.split(r"\s#\s", s)[0].rstrip()
                pool.append(re.sub(r"\s+", " ", s))
    return sorted(set(pool))


def indep_line(isa, r, k):
    if isa == "x86":
        op = r.choice(["vaddpd", "vmulpd", "vsubpd", "vaddps", "vmulps"])
        reg = r.choice(["xmm", "ymm"])
        return "%s %%%s%d, %%%s%d, %%%s%d" % (op, reg, r.randrange(8), reg, r.randrange(8), reg, 8 + r.randrange(8))
    op = r.choice(["fadd", "fmul", "fsub"])
    if r.random() < 0.3:
        return "add x%d, x%d, x%d" % (9 + r.randrange(7), 1 + r.randrange(8), 1 + r.randrange(8))
    return "%s v%d.2d, v%d.2d, v%d.2d" % (op, 16 + r.randrange(16), r.randrange(16), r.randrange(16))


def mark(isa, lines, r):
    cm = "#" if isa == "x86" else "//"
    style = r.choice(["comment", "byte"])
    pro = [indep_line(isa, r, 0) for _ in range(r.randrange(0, 3))]
    epi = [indep_line(isa, r, 0) for _ in range(r.randrange(0, 3))]
    if style == "comment":
        return pro + ["%s OSACA-BEGIN" % cm] + lines + ["%s OSACA-END" % cm] + epi
    if isa == "x86":
        return pro + ["movl $111, %ebx", ".byte 100,103,144"] + lines + ["movl $222, %ebx", ".byte 100,103,144"] + epi
    return pro + ["mov x1, #111", ".byte 213,3,32,31"] + lines + ["mov x1, #222", ".byte 213,3,32,31"] + epi


def make_case(cls, isa, arch, r, pools):
    """Returns a JSON-able case dict."""
    cm = "#" if isa == "x86" else "//"
    case = {"cls": cls, "isa": isa, "arch": arch, "fixed": r.random() < 0.5, "ignore_unknown": r.random() < 0.5,
            "lines": None, "path": None, "text": None, "gen_unknown": [], "marked": None}
    pool = pools[isa]
    if cls.startswith("corpus"):
        case["path"] = r.choice(corpus(isa))
        if "triad_x86_unmarked" in case["path"] and r.random() < 0.7:
            case["path"] = r.choice(corpus(isa))  # 345-line file: keep it rare (LCD search is slow)
        if cls == "corpus_noarch":
            case["arch"] = None
        if cls == "corpus_lines":
            with open(case["path"]) as f:
                fl = f.read().split("\n")
            n = len(fl)
            for _ in range(50):  # the named range must contain at least one instruction (an empty kernel is no kernel)
                a = r.randrange(1, max(2, n - 3))
                b = min(n, a + r.randrange(2, 30))
                if any(l.strip() and not re.match(r"^\s*(#|//|\.|[.\w$]+:)", l) for l in fl[a - 1 : b]):
                    break
            case["lines"] = r.choice(["%d-%d", "%d:%d"]) % (a, b)
        return case
    lines = []
    if cls in ("mix", "mix_marked", "noarch"):
        src = pool
        if cls == "noarch":
            src = [l for l in pool if unambiguous_isa(l) == isa] or pool
            case["arch"] = None
        lines = [r.choice(src) for _ in range(r.randrange(3, 22))]
        if r.random() < 0.4:
            lines.insert(r.randrange(len(lines) + 1), ".L77:")
        if r.random() < 0.4:
            lines.insert(r.randrange(len(lines) + 1), "%s a comment" % cm)
        if r.random() < 0.3 and cls != "noarch":
            lines.insert(r.randrange(len(lines) + 1), r.choice(UNKNOWN[isa]))
        if r.random() < 0.3:
            lines.insert(r.randrange(len(lines) + 1), r.choice(ZERO[isa]))
    elif cls in ("unknown", "allunknown"):
        if cls == "allunknown":
            lines = [r.choice(UNKNOWN[isa]) for _ in range(r.randrange(1, 5))]
        else:
            lines = [r.choice(pool) for _ in range(r.randrange(2, 14))]
            for _ in range(r.randrange(1, 5)):
                lines.insert(r.randrange(len(lines) + 1), r.choice(UNKNOWN[isa]))
    elif cls == "partial":
        lines = [r.choice(pool) for _ in range(r.randrange(1, 9))]
        for _ in range(r.randrange(1, 4)):
            lines.insert(r.randrange(len(lines) + 1), r.choice(PARTIAL[arch]))
        if r.random() < 0.4:
            lines.insert(r.randrange(len(lines) + 1), r.choice(UNKNOWN[isa]))
    elif cls == "lcdtie":
        # two loop-carried dependencies of the same (maximal) latency with different numbers of members: text and dict must show
        # the same one in the LCD column
        chain = ["latonea %xmm1, %xmm1"] * 3
        single = ["latthreea %xmm2, %xmm2"]
        lines = (chain + single) if r.random() < 0.5 else (single + chain)
        if r.random() < 0.5:
            lines.insert(r.randrange(len(lines) + 1), "%s tie" % cm)
    elif cls == "widecol":
        lines = [r.choice(WIDECOL[:2])] + [r.choice(WIDECOL[2:]) for _ in range(r.randrange(1, 4))]
        if r.random() < 0.5:
            lines.append(r.choice(WIDECOL[:2]))
        lines += [r.choice(pool) for _ in range(r.randrange(0, 4))]
        r.shuffle(lines)
    elif cls == "zero":
        lines = [r.choice(pool) for _ in range(r.randrange(1, 10))]
        for _ in range(r.randrange(1, 4)):
            lines.insert(r.randrange(len(lines) + 1), r.choice(ZERO[isa]))
        if r.random() < 0.5:
            lines.append(".L77:")
    elif cls in ("heavy10", "heavy100"):
        n = r.randrange(3, 8) if cls == "heavy10" else r.randrange(24, 46)
        hv = r.sample(HEAVY[isa], r.randrange(1, 4))
        lines = [r.choice(hv) for _ in range(n)]
        for _ in range(r.randrange(0, 4)):
            lines.insert(r.randrange(len(lines) + 1), r.choice(pool))
    elif cls == "len_marked_intonly" and isa == "x86":
        # integer-only x86 code with hexadecimal literals: the ISA guessed from the text (no --arch) is AArch64, the analysis
        # falls back to the x86 parser; the byte markers must still be found (no large-kernel note for a marked file)
        regs = ["r8", "r9", "r10", "r11", "r12", "r13", "r14", "r15", "rsi", "rdi"]
        body = []
        for k in range(r.randrange(102, 125)):
            x = r.random()
            if x < 0.5:
                body.append("addq $0x%x, %%%s" % (r.choice([16, 31, 111]), r.choice(regs)))
            elif x < 0.8:
                body.append("movl $0x%x, %%%sd" % (r.choice([111, 18, 26]), r.choice(regs[:8])))
            else:
                body.append("movq 0x%x(%%rsp), %%%s" % (r.choice([16, 24, 32]), r.choice(regs)))
        lines = ["movl $111, %ebx", ".byte 100,103,144"] + body + ["movl $222, %ebx", ".byte 100,103,144"]
        case["arch"] = None
        case["marked"] = True
    elif cls.startswith("len"):
        n = {"len99": 99, "len100": 100, "len101": 101, "len150": 150}.get(cls, r.randrange(102, 140))
        # n counts PARSED (non-blank) lines; some of them are comments / labels, blanks are sprinkled in addition
        lines = []
        for k in range(n):
            x = r.random()
            if x < 0.03:
                lines.append("%s filler %d" % (cm, k))
            elif x < 0.05:
                lines.append(".Lf%d:" % k)
            else:
                lines.append(indep_line(isa, r, k))
        if cls == "len_noarch":
            # both notes of the report header are due at once: no --arch (a default is assumed) and a long unmarked file
            case["arch"] = None
        if cls == "len_marked":
            lines = mark(isa, lines, r)
            case["marked"] = True
        for _ in range(r.randrange(0, 6)):
            lines.insert(r.randrange(len(lines) + 1), "")
        if cls == "len_lines":
            tot = len(lines)
            a = r.randrange(1, 4)
            b = r.choice([tot, tot - 1, a + 100, a + 104])
            case["lines"] = r.choice(["%d-%d", "%d:%d"]) % (a, min(b, tot))
    if cls == "mix_marked":
        lines = mark(isa, lines, r)
        case["marked"] = True
    case["text"] = "\n".join(lines) + "\n"
    if case["marked"] is None:
        case["marked"] = False
    case["gen_unknown"] = [i + 1 for i, l in enumerate(lines) if l in UNKNOWN[isa]]
    return case


# ------------------------------------------------------------------------------------------------ drivers
class _Capture:
    installed = False
    last = {}
    dict_first = False


def _install():
    import osaca.osaca as oo

    if _Capture.installed:
        return
    F = oo.Frontend
    orig_fa, orig_fad = F.full_analysis, F.full_analysis_dict

    def full_analysis(self, kernel, kernel_dg, *a, **kw):
        _Capture.last["kernel"] = kernel
        _Capture.last["graph"] = kernel_dg
        _Capture.last["fa_kwargs"] = dict(kw)
        _Capture.last["n_full_analysis"] = _Capture.last.get("n_full_analysis", 0) + 1
        if _Capture.dict_first:
            # a library user may ask for the dict before (or without) the text report: taken here from the fresh graph and
            # compared later with the dict the CLI itself writes
            try:
                _Capture.last["dict_first"] = orig_fad(self, kernel, kernel_dg, **{k: v for k, v in kw.items() if k in ("arch_warning", "length_warning", "lcd_warning")})
            except Exception as e:  # noqa - judged where the case is judged
                _Capture.last["dict_first_exc"] = e
        return orig_fa(self, kernel, kernel_dg, *a, **kw)

    def full_analysis_dict(self, kernel, kernel_dg, *a, **kw):
        d = orig_fad(self, kernel, kernel_dg, *a, **kw)
        _Capture.last["dict"] = d
        _Capture.last["n_full_analysis_dict"] = _Capture.last.get("n_full_analysis_dict", 0) + 1
        return d

    F.full_analysis, F.full_analysis_dict = full_analysis, full_analysis_dict
    _Capture.installed = True


def argv_of(case, path, yaml_path):
    argv = []
    if case["arch"]:
        argv += ["--arch", case["arch"]]
    if case["fixed"]:
        argv.append("--fixed")
    if case["ignore_unknown"]:
        argv.append("--ignore-unknown")
    if case["lines"]:
        argv += ["--lines", case["lines"]]
    argv += ["--lcd-timeout", "60", "--yaml-out", yaml_path, path]
    return argv


def run_inprocess(case, path, yaml_path):
    """-> (text, dict, deps, timed_out).  Exceptions of the code under test propagate to the caller."""
    import osaca.osaca as oo

    _install()
    _Capture.last.clear()
    parser = oo.create_parser()
    args = parser.parse_args(argv_of(case, path, yaml_path))
    oo.check_arguments(args, parser)
    out = io.StringIO()
    try:
        oo.run(args, output_file=out)
    finally:
        for f in (args.file, args.yaml_out):
            try:
                f.close()
            except Exception:  # noqa
                pass
    g = _Capture.last.get("graph")
    deps = None
    if g is not None:
        deps = [
            {"latency": v["latency"], "members": [n.line_number for n, _ in v["dependencies"]],
             "lats": [[n.line_number, lat] for n, lat in v["dependencies"]]}
            for v in g.loopcarried_deps.values()
        ]
    return out.getvalue(), _Capture.last.get("dict"), deps, bool(getattr(g, "timed_out", False))


def load_yaml(path):
    from ruamel.yaml import YAML

    with open(path) as f:
        return YAML(typ="unsafe", pure=True).load(f)


def run_cli(case, path, yaml_path):
    p = subprocess.run([PY, "-m", "osaca"] + argv_of(case, path, yaml_path), capture_output=True, text=True, timeout=600,
                       env=dict(os.environ))
    return p.returncode, p.stdout, p.stderr


# ------------------------------------------------------------------------------------------------ oracle
def norm(s):
    return re.sub(r"\s+", " ", (s or "").strip())


class Judge:
    def __init__(self, case, R):
        self.case, self.R, self.n = case, R, 0
        self.seen = set()

    def bad(self, key, what):
        self.n += 1
        if key in self.seen:  # one witness per mechanism and case
            return
        self.seen.add(key)
        c = {k: v for k, v in self.case.items()}
        self.R.violation(key, what, c)


def judge(case, text, d, deps, R, file_text, from_yaml=False):
    """All checks of one observed run.  Returns (number of findings, parsed report)."""
    J = Judge(case, R)
    rep = rp.parse_report(text)
    R.count("monitor:report_parsed")
    if rep["problems"]:
        J.bad("layout/report-structure", "; ".join(rep["problems"])[:300])
        if not rep["has_combined"] or not rep["ports"]:
            return J.n, rep, 0
    K = d["Kernel"]
    ports = list(d["Target"]["Ports"])
    # ---- header / warnings
    exp_arch_warn = case["arch"] is None
    if rep["arch_warning"] != exp_arch_warn:
        J.bad("warning/arch", "no-micro-architecture warning shown=%s, --arch given=%s" % (rep["arch_warning"], not exp_arch_warn))
    if ("ArchWarning" in d["Warnings"]) != rep["arch_warning"]:
        J.bad("warning/arch-text-vs-dict", "text arch warning=%s, dict Warnings=%s" % (rep["arch_warning"], d["Warnings"]))
    R.count("arch_warning_expected" if exp_arch_warn else "arch_warning_not_expected")
    harch = rep["header"].get("Architecture", "")
    if case["arch"]:
        if harch.upper() != case["arch"].upper():
            J.bad("header/architecture", "header Architecture %r, --arch %r" % (harch, case["arch"]))
    else:
        isa = unambiguous_isa(file_text)
        if isa is None:
            R.count("default_arch_dontcare")
        else:
            R.count("default_arch_checked:" + isa)
            if harch.upper() != DEFAULTS[isa]:
                J.bad("header/default-architecture", "no --arch, %s register names, header Architecture %r, default is %s"
                      % (isa, harch, DEFAULTS[isa]))
    if norm(str(d["Header"].get("Architecture", ""))).upper() != harch.upper() or str(d["Target"]["Name"]).upper() != harch.upper():
        J.bad("header/architecture-text-vs-dict", "text %r, dict Header %r, Target %r"
              % (harch, d["Header"].get("Architecture"), d["Target"]["Name"]))
    marked = case["marked"] if case["marked"] is not None else has_markers(file_text)
    exp_len = case["lines"] is None and not marked and nonblank(file_text) > 100
    R.count("length_warning_expected" if exp_len else "length_warning_not_expected")
    if nonblank(file_text) > 100 and not exp_len:
        R.count("over100_but_marked_or_lines")
    if rep["length_warning"] != exp_len:
        J.bad("warning/length", "large-kernel warning shown=%s, expected=%s (parsed lines=%d, marked=%s, --lines=%s)"
              % (rep["length_warning"], exp_len, nonblank(file_text), marked, case["lines"]))
    if ("LengthWarning" in d["Warnings"]) != rep["length_warning"]:
        J.bad("warning/length-text-vs-dict", "text=%s dict Warnings=%s" % (rep["length_warning"], d["Warnings"]))
    if ("LCDWarning" in d["Warnings"]) != rep["lcd_warning"]:
        J.bad("warning/lcd-text-vs-dict", "text=%s dict Warnings=%s" % (rep["lcd_warning"], d["Warnings"]))
    # ---- ports
    if rep["ports"] != [str(p) for p in ports]:
        J.bad("layout/port-header", "header ports %s, dict Target.Ports %s" % (rep["ports"], ports))
        return J.n, rep, 0
    # ---- rows
    rows = rep["rows"]
    if len(rows) != len(K):
        J.bad("rows/count", "%d rows in the table, %d Kernel entries in the dict" % (len(rows), len(K)))
        return J.n, rep, 0
    all_lcd_zero = all(float(k["LatencyLCD"]) == 0.0 for k in K)
    nonblank_cells = 0
    lcd_bad = []
    for row, k in zip(rows, K):
        ln = row["line_number"]
        if ln != k["LineNumber"] or norm(row.get("text")) != norm(k["Line"]):
            J.bad("rows/alignment", "row %r / %r vs dict %r / %r" % (ln, row.get("text"), k["LineNumber"], k["Line"]))
            continue
        if row["problems"]:
            J.bad("layout/row", "line %d: %s" % (ln, "; ".join(row["problems"])[:250]))
            continue
        for p in ports:
            cell = row["cells"][str(p)]
            v = k["PortPressure"][p]
            R.count("monitor:pressure_cells")
            if cell == "":
                if abs(float(v)) >= 0.005:
                    J.bad("cell/pressure-blank-hides-value", "line %d port %s: blank cell, dict %r" % (ln, p, v))
            else:
                nonblank_cells += 1
                cv = rp.cell_value(cell)
                if cv[0] >= 10:
                    R.count("cell_ge_10")
                if cv[0] < 0:
                    R.count("cell_negative")
                if cv[1] != 0.005:
                    R.count("cell_precision_not_2")
                    if abs(float(v) * 100 - round(float(v) * 100)) > 1e-6:
                        R.count("thirds_next_to_wide_cell")  # a value that two decimals cannot show, in a column with more
                if not rp.agrees(cell, v):
                    J.bad("cell/pressure", "line %d port %s: cell %r, dict %r" % (ln, p, cell, v))
        if row["cp"] != "":
            R.count("monitor:cp_cells")
            if not rp.agrees(row["cp"], k["LatencyCP"]):
                J.bad("cell/CP", "line %d: CP cell %r, dict LatencyCP %r" % (ln, row["cp"], k["LatencyCP"]))
        if row["lcd"] != "":
            R.count("monitor:lcd_cells")
            if not rp.agrees(row["lcd"], k["LatencyLCD"]):
                lcd_bad.append((ln, row["lcd"], k["LatencyLCD"]))
            if deps is not None:
                ok = any(
                    m[0] == ln and rp.agrees(row["lcd"], m[1]) for dep in deps for m in dep["lats"]
                )
                if not ok:
                    J.bad("cell/LCD-not-in-any-dependency", "line %d: LCD cell %r matches no member latency of any "
                          "loop-carried dependency of the graph" % (ln, row["lcd"]))
    if lcd_bad:
        ln, cell, v = lcd_bad[0]
        if all_lcd_zero:
            J.bad("dict/LatencyLCD-always-zero", "line %d: LCD cell %r, dict LatencyLCD %r; all %d dict LatencyLCD values "
                  "are 0.0 (%d cells differ)" % (ln, cell, v, len(K), len(lcd_bad)))
        else:
            J.bad("cell/LCD", "line %d: LCD cell %r, dict LatencyLCD %r (%d cells differ)" % (ln, cell, v, len(lcd_bad)))
    # ---- unknown-instruction branch
    unk = [k["LineNumber"] for k in K if "tp_unknown" in k["Flags"]]
    R.count("partial_tp_unknown_lt_known_lines", sum(1 for k in K if "tp_unknown" in k["Flags"] and "lt_unknown" not in k["Flags"]))
    R.count("partial_lt_unknown_tp_known_lines", sum(1 for k in K if "lt_unknown" in k["Flags"] and "tp_unknown" not in k["Flags"]))
    analysed = set(k["LineNumber"] for k in K)
    gen_unk = [l for l in case.get("gen_unknown") or [] if l in analysed]
    for l in gen_unk:
        if l not in unk:
            J.bad("unknown/made-up-mnemonic-has-data", "line %d has a made-up mnemonic but no tp_unknown flag in the dict" % l)
    branch = bool(unk or gen_unk) and not case["ignore_unknown"]
    if unk:
        R.count("runs_with_unknown_ignore" if case["ignore_unknown"] else "runs_with_unknown_noignore")
    else:
        R.count("runs_without_unknown")
    xrows = [row["line_number"] for row, k in zip(rows, K) if "X" in row.get("flags", "") and k["Instruction"] is not None]
    xnon = [row["line_number"] for row, k in zip(rows, K) if row.get("flags", "") and k["Instruction"] is None]
    if any("*" in row.get("flags", "") for row in rows):
        R.count("runs_with_not_bound_flag")
    if branch:
        R.count("monitor:unknown_branch")
        if sorted(xrows) != sorted(set(unk) | set(gen_unk)) or xnon:
            J.bad("unknown/X-marks", "X on lines %s (+ flags on non-instruction lines %s), lines lacking data %s"
                  % (xrows, xnon, sorted(set(unk) | set(gen_unk))))
        if rep["missing_warning"] is None:
            J.bad("unknown/warning-missing", "%d instructions lack data, no --ignore-unknown, but no missing-data warning" % len(unk))
        elif rep["missing_warning"] != len(set(unk) | set(gen_unk)):
            J.bad("unknown/warning-count", "warning states %d, %d lines lack data" % (rep["missing_warning"], len(set(unk) | set(gen_unk))))
        if rep["summary"] is not None:
            J.bad("unknown/totals-printed", "totals row printed although data is missing and --ignore-unknown not given")
    else:
        if case["ignore_unknown"] and unk:
            R.count("x_marks_dontcare")
        if rep["missing_warning"] is not None:
            J.bad("unknown/warning-unexpected", "missing-data warning (%d) although %s" % (
                rep["missing_warning"], "--ignore-unknown given" if case["ignore_unknown"] else "no line lacks data"))
        if rep["summary"] is None:
            J.bad("summary/missing", "no totals row (ignore_unknown=%s, lines lacking data=%d)" % (case["ignore_unknown"], len(unk)))
    if ("UnknownInstrWarning" in d["Warnings"]) != bool(unk):
        J.bad("warning/unknown-dict", "dict Warnings %s, tp_unknown lines %s" % (d["Warnings"], unk))
    # ---- totals
    S = rep["summary"]
    if S is not None:
        R.count("monitor:summary_rows")
        if S["problems"]:
            J.bad("layout/summary-row", "; ".join(S["problems"])[:250] + " | " + S["raw"][:200])
        else:
            for p in ports:
                cell = S["ports"][str(p)]
                v = d["Summary"]["PortPressure"][p]
                col_all = sum(float(k["PortPressure"][p]) for k in K)
                # OSACA documents that lines with throughput 0.0 are not summed (get_throughput_sum): such lines are
                # DON'T-CARE for the column-sum check (counted), every other line must be in the total
                col = sum(float(k["PortPressure"][p]) for k in K if float(k["Throughput"]) != 0.0)
                if abs(col_all - col) > 0.005:
                    R.count("dontcare:zero_throughput_line_with_pressure_not_in_total")
                    R.observe("zero_tp_lines", [case["arch"], [norm(k["Line"]) for k in K if float(k["Throughput"]) == 0.0 and float(k["PortPressure"][p])][:2]])
                if cell == "":
                    if abs(float(v)) >= 0.005:
                        J.bad("summary/port-blank-hides-value", "port %s: blank total, dict Summary %r" % (p, v))
                    if abs(col) >= 0.005 + 0.005:
                        J.bad("summary/port-total-vs-rows", "port %s: blank total, column sum of the dict rows %r" % (p, col))
                    continue
                cv = rp.cell_value(cell)
                if cv[0] >= 100:
                    R.count("sum_ge_100")
                elif cv[0] >= 10:
                    R.count("sum_ge_10")
                if not rp.agrees(cell, v):
                    J.bad("summary/port-total", "port %s: total %r, dict Summary.PortPressure %r" % (p, cell, v))
                if abs(cv[0] - col) > cv[1] + 0.005 + 1e-9:
                    J.bad("summary/port-total-vs-rows", "port %s: total %r, column sum of the dict rows %r" % (p, cell, col))
            if not rp.agrees(S["cp"], d["Summary"]["CriticalPath"]):
                J.bad("summary/CP", "CP total %r, dict Summary.CriticalPath %r" % (S["cp"], d["Summary"]["CriticalPath"]))
            if not rp.agrees(S["lcd"], d["Summary"]["LCD"]):
                J.bad("summary/LCD", "LCD total %r, dict Summary.LCD %r" % (S["lcd"], d["Summary"]["LCD"]))
            # CP total vs the CP column that is shown
            cps = [rp.cell_value(row["cp"]) for row in rows if row.get("cp")]
            if all(c is not None for c in cps):
                tot, tol = sum(c[0] for c in cps), sum(c[1] for c in cps)
                cv = rp.cell_value(S["cp"])
                if cv is not None and abs(cv[0] - tot) > tol + cv[1] + 1e-9:
                    J.bad("summary/CP-vs-column", "CP total %r, shown CP cells sum to %r" % (S["cp"], tot))
    # ---- LCD list and maximum
    L = rep["lcd_list"]
    lat_cells = [rp.cell_value(e["latency"]) for e in L]
    if L:
        R.count("runs_with_lcd")
        R.count("monitor:lcd_list_entries", len(L))
    mx = float(d["Summary"]["LCD"])
    if L and all(c is not None for c in lat_cells):
        top = max(c[0] for c in lat_cells)
        if abs(top - mx) > 0.05 + 1e-9:
            J.bad("summary/LCD-vs-list", "dict Summary.LCD %r, largest latency in the LCD list %r" % (mx, top))
    if not L and mx != 0.0:
        J.bad("summary/LCD-vs-list", "dict Summary.LCD %r but the LCD list is empty" % mx)
    if deps is not None:
        R.count("monitor:graph_deps", len(deps))
        if deps and abs(max(x["latency"] for x in deps) - mx) > 1e-9:
            J.bad("summary/LCD-vs-graph", "dict Summary.LCD %r, longest dependency of the graph %r" % (mx, max(x["latency"] for x in deps)))
        used = [False] * len(L)
        for dep in deps:
            hit = None
            for i, e in enumerate(L):
                if not used[i] and e["members"] == dep["members"]:
                    hit = i
                    break
            if hit is None:
                J.bad("lcdlist/dependency-not-shown", "dependency with member lines %s (latency %r) is not in the LCD list"
                      % (dep["members"], dep["latency"]))
                continue
            used[hit] = True
            e = L[hit]
            if not rp.agrees(e["latency"], dep["latency"]):
                J.bad("lcdlist/latency", "members %s: list shows %r, graph %r" % (dep["members"], e["latency"], dep["latency"]))
            if dep["members"] and e["line_number"] != dep["members"][0]:
                J.bad("lcdlist/first-line", "members %s: list row is labelled %d" % (dep["members"], e["line_number"]))
        if not all(used):
            extra = [e["members"] for i, e in enumerate(L) if not used[i]]
            J.bad("lcdlist/extra-entry", "LCD list shows %s which are not dependencies of the graph" % extra[:3])
    return J.n, rep, nonblank_cells + len(xrows)


def compare_dicts(d, y, J, tag="yaml"):
    """The --yaml-out file, loaded back, must carry the numbers of the dict that was rendered."""
    try:
        if len(d["Kernel"]) != len(y["Kernel"]):
            J.bad(tag + "/kernel-length", "dict %d, file %d" % (len(d["Kernel"]), len(y["Kernel"])))
            return
        for a, b in zip(d["Kernel"], y["Kernel"]):
            for f in ("LineNumber", "Latency", "LatencyCP", "LatencyLCD", "Throughput", "LatencyWithoutLoad", "Line"):
                if a[f] != b[f]:
                    J.bad(tag + "/field-differs", "line %s field %s: dict %r, file %r" % (a["LineNumber"], f, a[f], b[f]))
            if dict(a["PortPressure"]) != dict(b["PortPressure"]) or list(a["Flags"]) != list(b["Flags"]):
                J.bad(tag + "/field-differs", "line %s PortPressure/Flags differ" % a["LineNumber"])
        if dict(d["Summary"]["PortPressure"]) != dict(y["Summary"]["PortPressure"]) or any(
            d["Summary"][f] != y["Summary"][f] for f in ("CriticalPath", "LCD")
        ):
            J.bad(tag + "/summary-differs", "dict %r, file %r" % (d["Summary"], y["Summary"]))
        if list(d["Warnings"]) != list(y["Warnings"]) or list(d["Target"]["Ports"]) != list(y["Target"]["Ports"]):
            J.bad(tag + "/warnings-or-target-differ", "dict %r/%r" % (d["Warnings"], y["Warnings"]))
    except KeyError as e:
        J.bad(tag + "/key-missing", "key %s missing in the loaded file" % e)


# ------------------------------------------------------------------------------------------------ execution
def execute(case, R, workdir, mode="inproc", load=False):
    os.makedirs(workdir, exist_ok=True)
    if case["path"]:
        path = case["path"]
        with open(path) as f:
            file_text = f.read()
    else:
        path = os.path.join(workdir, "k-%s.s" % digest(case["text"]))
        file_text = case["text"]
        with open(path, "w") as f:
            f.write(file_text)
    yaml_path = os.path.join(workdir, "out.yml")
    if os.path.exists(yaml_path):
        os.unlink(yaml_path)
    ident = digest([file_text, case["arch"], case["fixed"], case["ignore_unknown"], case["lines"], mode])
    R.count("class:" + case["cls"])
    R.count("mode:" + mode)
    R.count("config:%s,%s" % ("fixed" if case["fixed"] else "optimal", "ignore" if case["ignore_unknown"] else "noignore"))
    R.observe("models", case["arch"] or "default")
    deps = None
    try:
        if mode == "inproc":
            try:
                _Capture.dict_first = int(ident[:2], 16) % 2 == 0
                with time_limit(120):
                    text, d, deps, timed_out = run_inprocess(case, path, yaml_path)
            except CaseTimeout:
                R.inconclusive += 1
                R.case(ident)
                return
            except Exception as e:  # noqa  -- only exceptions raised inside osaca are findings
                from ..common import in_osaca

                if not in_osaca(e):
                    raise
                R.case(ident)
                R.exception(e, dict(case))
                return
            if d is None:
                raise RuntimeError("harness: full_analysis_dict was not called although --yaml-out was given")
            if timed_out:
                R.count("lcd_timed_out")
            R.count("monitor:full_analysis", _Capture.last.get("n_full_analysis", 0))
            R.count("monitor:full_analysis_dict", _Capture.last.get("n_full_analysis_dict", 0))
        else:
            rc, text, err = run_cli(case, path, yaml_path)
            if rc != 0:
                R.case(ident)
                # same mechanism key as common.exception_key gives in-process: type @ innermost osaca function
                key = "cli/exit-%d" % rc
                m = re.findall(r"^(\w+(?:Error|Exception|Interrupt))\b", err, re.M)
                fr = re.findall(r'File ".*?/osaca/(?:[\w/]*/)?(\w+)\.py", line \d+, in (\w+)', err)
                if m and fr:
                    key = "exception/%s@%s.%s" % (m[-1], fr[-1][0], fr[-1][1])
                R.violation(key, "python -m osaca exited %d: %s" % (rc, err.strip()[-300:]), dict(case, mode="cli"))
                return
            d = load_yaml(yaml_path)
            R.count("monitor:yaml_loaded")
        res = judge(case, text, d, deps, R, file_text)
        n, nt = res[0], res[2]
        if mode == "inproc" and _Capture.dict_first:
            R.count("dict_taken_before_the_text_report")
            if "dict_first_exc" in _Capture.last:
                R.exception(_Capture.last["dict_first_exc"], dict(case), prefix="dict-before-text/")
                n += 1
            elif _Capture.last.get("dict_first") is not None:
                J0 = Judge(case, R)
                compare_dicts(_Capture.last["dict_first"], d, J0, tag="dict-before-text")
                n += J0.n
        if mode == "inproc" and load:
            J = Judge(case, R)
            y = load_yaml(yaml_path)
            R.count("monitor:yaml_loaded")
            compare_dicts(d, y, J)
            n += J.n
        R.case(ident, nontrivial=nt > 0)
        if n == 0:
            R.count("runs_clean")
        R.sample({"cls": case["cls"], "arch": case["arch"], "fixed": case["fixed"], "ignore_unknown": case["ignore_unknown"],
                  "lines": case["lines"], "file": case["path"] or (case["text"][:160] + "...")})
    finally:
        if not case["path"] and os.path.exists(path):
            os.unlink(path)
        if os.path.exists(yaml_path):
            os.unlink(yaml_path)


def plan(tier, seed):
    models = isolate.arch_models()
    specs = []
    if tier == "quick":
        for a in models:
            specs.append({"arch": a, "runs": 17, "mode": "inproc"})
        specs.append({"arch": None, "runs": 10, "mode": "cli"})
        specs.append({"arch": "csx", "runs": 18, "mode": "synth"})
    else:
        for part in range(2):
            specs.append({"arch": "csx", "runs": 100, "mode": "synth", "part": part})
        for a in models:
            for part in range(2):
                specs.append({"arch": a, "runs": 180, "mode": "inproc", "part": part})
        for part in range(5):
            specs.append({"arch": None, "runs": 40, "mode": "cli", "part": part})
    return specs


def floors(tier):
    q = tier == "quick"
    f = {
        "evaluations": 150 if q else 3000,
        "distinct_nontrivial": 100 if q else 2000,
        "mode:inproc": 150 if q else 3000,
        "mode:cli": 5 if q else 100,
        "monitor:report_parsed": 150 if q else 3000,
        "monitor:full_analysis": 150 if q else 3000,
        "monitor:full_analysis_dict": 150 if q else 3000,
        "monitor:yaml_loaded": 10 if q else 200,
        "monitor:pressure_cells": 20000 if q else 400000,
        "monitor:cp_cells": 200 if q else 4000,
        "monitor:lcd_cells": 100 if q else 2000,
        "monitor:summary_rows": 80 if q else 1500,
        "monitor:unknown_branch": 10 if q else 200,
        "monitor:graph_deps": 100 if q else 2000,
        "runs_with_unknown_noignore": 5 if q else 100,
        "runs_with_unknown_ignore": 5 if q else 100,
        "runs_without_unknown": 30 if q else 600,
        "runs_with_not_bound_flag": 5 if q else 100,
        "runs_with_lcd": 50 if q else 1000,
        "sum_ge_10": 20 if q else 400,
        "sum_ge_100": 3 if q else 60,
        "cell_ge_10": 3 if q else 60,
        "arch_warning_expected": 10 if q else 200,
        "arch_warning_not_expected": 100 if q else 2000,
        "default_arch_checked:x86": 2 if q else 40,
        "default_arch_checked:aarch64": 2 if q else 40,
        "length_warning_expected": 4 if q else 120,
        "over100_but_marked_or_lines": 4 if q else 120,
        "config:fixed,ignore": 15 if q else 300,
        "config:fixed,noignore": 15 if q else 300,
        "config:optimal,ignore": 15 if q else 300,
        "config:optimal,noignore": 15 if q else 300,
        "set:models": 9,
    }
    for c in CLASSES:
        f["class:" + c] = (2 if c in LEN_CLASSES else 3) if q else 60
    f["class:partial"] = 10 if q else 100
    f["class:widecol"] = 3 if q else 60
    f["class:lcdtie"] = 2 if q else 30
    f["dict_taken_before_the_text_report"] = 80 if q else 1500
    f["class:len_marked_intonly"] = 1 if q else 20
    f["thirds_next_to_wide_cell"] = 3 if q else 60
    f["partial_tp_unknown_lt_known_lines"] = 8 if q else 120
    return f


def run_shard(spec, R):
    r = random.Random(spec["seed"])
    work = os.path.join(os.environ.get("VERIF_HOME", "/tmp"), "c13-work-%d" % os.getpid())
    pools = {"x86": instr_pool("x86"), "aarch64": instr_pool("aarch64")}
    try:
        if spec["mode"] == "cli":
            models = isolate.arch_models()
            for i in range(spec["runs"]):
                arch = r.choice(models)
                isa = isolate.isa_of(arch)
                cls = CLASSES[(i + spec.get("part", 0) * 7) % len(CLASSES)]
                if cls in ("len150", "len101", "len100", "len99", "len_marked", "len_lines") and r.random() < 0.5:
                    cls = "mix"
                case = make_case(cls, isa, arch, r, pools)
                execute(case, R, work, mode="cli")
            return
        if spec["mode"] == "synth":
            with synth_model(work):
                for i in range(spec["runs"]):
                    case = make_case("lcdtie" if i % 6 == 1 else ("partial" if i % 3 else "widecol"), "x86", "csx", r, pools)
                    case["fixed"], case["ignore_unknown"] = bool(i & 1), bool(i & 2)
                    if case["cls"] == "widecol":
                        case["fixed"] = (i // 3) % 3 != 2  # uniform shares are where thirds come from
                    execute(case, R, work, mode="inproc", load=(i % 5 == 0))
            return
        arch = spec["arch"]
        isa = isolate.isa_of(arch)
        if arch == "zen1":
            for i in range(4 if spec["tier"] == "quick" else 24):
                case = make_case("partial", isa, arch, r, pools)
                case["fixed"], case["ignore_unknown"] = bool(i & 1), bool(i & 2)
                execute(case, R, work, mode="inproc", load=(i % 4 == 0))
        if spec["tier"] == "quick":
            # the >=100-line files take the multi-process LCD path (16 forks each): two of the six per shard
            k = spec["shard"]
            order = BASE_CLASSES + [LEN_CLASSES[(2 * k) % len(LEN_CLASSES)], LEN_CLASSES[(2 * k + 1) % len(LEN_CLASSES)]]
            order += [r.choice(BASE_CLASSES) for _ in range(max(0, spec["runs"] - len(order)))]
        else:
            order, j = [], spec["shard"]
            while len(order) < spec["runs"]:
                order += BASE_CLASSES + [LEN_CLASSES[(2 * j) % len(LEN_CLASSES)], LEN_CLASSES[(2 * j + 1) % len(LEN_CLASSES)]]
                j += 1
            order = order[: spec["runs"]]
        for i, cls in enumerate(order):
            case = make_case(cls, isa, arch, r, pools)
            execute(case, R, work, mode="inproc", load=(i % 9 == 0))
    finally:
        subprocess.run(["rm", "-rf", work])


class synth_model(object):
    """zen1 plus the synthetic forms, installed as csx.yml in a private data directory that is searched first."""

    def __init__(self, work):
        self.work = work

    def __enter__(self):
        import osaca.utils as utils

        os.makedirs(self.work, exist_ok=True)
        src = dict(isolate.model_files())["zen1"]
        with open(src) as fh:
            text = fh.read().replace("arch_code: ZEN1", "arch_code: CSX")
        with open(os.path.join(self.work, "csx.yml"), "w") as fh:
            fh.write(text.rstrip("\n") + "\n" + SYNTH_FORMS)
        self.utils, self.old = utils, list(utils.DATA_DIRS)
        utils.DATA_DIRS.insert(0, self.work)
        return self

    def __exit__(self, *a):
        self.utils.DATA_DIRS[:] = self.old


def replay(case, R):
    work = os.path.join(os.environ.get("VERIF_HOME", "/tmp"), "c13-replay-%d" % os.getpid())
    case = dict(case)
    mode = case.pop("mode", "inproc")
    case.pop("traceback", None)
    try:
        if case.get("arch") == "csx":
            with synth_model(work):
                execute(case, R, work, mode="inproc", load=True)
        else:
            execute(case, R, work, mode=mode, load=True)
    finally:
        subprocess.run(["rm", "-rf", work])
