"""C15 Every shipped model entry is well-formed and can be costed; --db-check counts.

Four monitors, all driven by the shipped data files of the tree under test:

``file`` shards (one per model file, 17 micro-architectures + 2 ISA DBs)
    * parse the YAML text INDEPENDENTLY (ruamel safe loader, nothing of osaca) and judge every entry and the
      load/store tables and their defaults with the shape oracle written from the statement;
    * observe the real loader's internal tables (``MachineModel(arch=...)``) and compare them entry by entry with the
      independent parse ("loads"): entries per name (multi-name entries split per name), throughput, latency,
      micro-op list, ports, tables, defaults;
    * run the real ``--db-check`` (``osaca.osaca.run`` in-process; thorough: also as a true subprocess) and compare
      the three "have no ..." counts and the total with the numbers counted in the independent parse.
``cost`` shards (real path, API level)
    for every loaded entry the real costing function ``MachineModel.average_port_pressure`` on the entry's own
    micro-op list (all entries, both tiers) and - for every entry (thorough) / a seed-rotated sixth (quick) - a one
    line kernel rendered from the entry's own operand pattern -> real parser -> ``ArchSemantics.assign_src_dst`` ->
    ``assign_tp_lt``: must not raise, the pressure vector must be the cost of (an alternative of) the matched entry's
    micro-op list.  ISA DB entries are rendered the same way and run through the same path on a small model of the ISA.
    The table rows and defaults are costed by the real function, and memory variants of register forms are analysed so
    that the real load/store composition reads the tables and the defaults.
``cli`` shards
    the same one-line kernels through the true command line path ``osaca.osaca.run(--arch A file)`` in-process.

Classification: a defect of the shipped data is keyed ``malformed/<file>/<MNEMONIC or table>/<defect-kind>`` - also
when it is observed as a crash of the real path on that entry (same mechanism, same key).  Other keys:
``load/<what>``, ``dbcheck/<count>``, ``cost/...`` (real path misbehaves on a well-formed entry).
"""
import io
import json
import math
import numbers
import os
import re
import subprocess
import tempfile

from .. import entry_render as er
from .. import isolate
from ..common import digest, time_limit, CaseTimeout, exception_key

LEVEL = "exploration"
RULE = (
    "cases = (model file, mnemonic, k-th form of that mnemonic, path) for ALL entries of the 17 non-empty arch models "
    "and 2 ISA DBs (multi-name entries per name) on the paths shape / loaded-table comparison / real "
    "average_port_pressure (all entries, both tiers; again with all models costed one after the other in one process, in several orders), rendered one-line kernel through parser + assign_src_dst + "
    "assign_tp_lt (thorough: every entry; quick: the sixth selected by VERIF_SEED mod 6), in-process CLI runs "
    "(quick ~100 entries chosen by seed; thorough all entries of small models, a seed-rotated 1/2 or 1/6 of the big "
    "ones), all rows of the load/store tables and defaults, memory variants of register forms, and --db-check of all "
    "17 models; non-trivial = the entry has a non-empty micro-op list (arch models) or operands (ISA DBs), a table "
    "row, or a --db-check run; distinct = distinct (file, mnemonic, k, path)"
)
ASSUMPTIONS = [
    "the independent view of a model file is ruamel.yaml's safe loader applied to the file text",
    "port collection: a string stands for its single characters, a list for the names it contains",
    "a rendered line that the parser rejects or that the lookup resolves to a different/no entry is not a violation "
    "(counted as render_unparsed / matched_other / matched_none); duplicates shadowed by an earlier form can only be "
    "reached through average_port_pressure",
    "which alternative of a {0: [...], 1: [...]} micro-op mapping the analysis picks is left open",
    "throughput/latency reported by the analysis are only required to be finite numbers >= 0",
    "memory variants are only built from register forms whose throughput and latency are numbers (composition with "
    "null values belongs to C08)",
]
EXHAUSTIVE = {"quick": False, "thorough": True}
SHARD_TIMEOUT = {"quick": 240, "thorough": 1500}

SMALL_X86 = "zen4"
SMALL_A64 = "tx2"
BIG = ("icl", "ivb", "snb")
MID = ("hsw", "icx", "zen2", "spr")


# ----------------------------------------------------------------------------------------------------------------
# oracle: shape of micro-op lists, numbers


def is_num(v):
    return isinstance(v, numbers.Real) and not isinstance(v, bool) and math.isfinite(v)


def ports_of(P):
    """Port collection -> list of port names, or None when it is neither a string nor a list."""
    if isinstance(P, str):
        return list(P)
    if isinstance(P, (list, tuple)):
        return list(P)
    return None


def uop_defects(pp, ports):
    """Defects of a micro-op list (or mapping of alternatives) against the statement; [] when well-formed.

    Returns a list of (kind, detail) with kind in not-a-list, uop-shape, cycles, ports-type, empty-ports,
    undeclared-port.  ``None`` (no port pressure) is not judged here.
    """
    out = []
    if isinstance(pp, dict):
        alts = list(pp.values())
        if not alts:
            out.append(("not-a-list", "empty mapping of alternatives"))
    else:
        alts = [pp]
    for alt in alts:
        if not isinstance(alt, (list, tuple)):
            out.append(("not-a-list", repr(alt)[:60]))
            continue
        for u in alt:
            if not (isinstance(u, (list, tuple)) and len(u) == 2):
                out.append(("uop-shape", repr(u)[:80]))
                continue
            c, P = u
            if not is_num(c) or c < 0:
                out.append(("cycles", repr(c)[:40]))
            pl = ports_of(P)
            if pl is None:
                out.append(("ports-type", repr(P)[:40]))
                continue
            if not pl:
                out.append(("empty-ports", repr(u)[:40]))
                continue
            for p in pl:
                if not isinstance(p, str) or p not in ports:
                    out.append(("undeclared-port", repr(p)))
    # one finding per kind
    seen, uniq = set(), []
    for k, d in out:
        if k not in seen:
            seen.add(k)
            uniq.append((k, d))
    return uniq


def value_defect(v):
    """throughput / latency: absent or null (None) or a non-negative number."""
    if v is None:
        return None
    if not is_num(v) or v < 0:
        return repr(v)[:40]
    return None


def cost(alt, ports):
    """Reference cost of one well-formed micro-op list: cycles spread evenly over the ports of each micro-op."""
    v = [0.0] * len(ports)
    for c, P in alt:
        pl = ports_of(P)
        for p in pl:
            v[ports.index(p)] += c / len(pl)
    return v


def alternatives(pp):
    return list(pp.values()) if isinstance(pp, dict) else [pp]


def close(a, b):
    return len(a) == len(b) and all(abs(x - y) <= 1e-9 for x, y in zip(a, b))


def norm(x):
    """JSON-comparable form of micro-op data (tuples -> lists, int keys -> str)."""
    return json.loads(json.dumps(x, default=str, sort_keys=True))


def mkey(file, what, kind):
    return "malformed/%s/%s/%s" % (file.replace("isa/", "isa-"), what, kind)


# ----------------------------------------------------------------------------------------------------------------
# plan


def floors(tier):
    if tier == "quick":
        return {
            "evaluations": 20000,
            "distinct_nontrivial": 12000,
            "files_parsed": 19,
            "entries_shape_checked": 14000,
            "entries_loaded_compared": 14000,
            "tables_shape_checked": 17 * 2,
            "real_app_calls": 7000,
            "real_path_cases": 1200,
            "matched_own": 800,
            "isa_entries_real_path": 60,
            "isa_entries_through_cli": 50,
            "cli_runs": 50,
            "dbcheck_runs": 17,
            "dbcheck_counts_compared": 17 * 4,
            "table_rows_costed": 60,
            "composed_cases": 40,
            "set:files": 19,
            "multi_models_costed": 34,
            "real_app_calls_after_other_models": 1500,
        }
    return {
        "evaluations": 30000,
        "distinct_nontrivial": 20000,
        "files_parsed": 19,
        "entries_shape_checked": 14000,
        "entries_loaded_compared": 14000,
        "tables_shape_checked": 17 * 2,
        "real_app_calls": 7000,
        "real_path_cases": 7500,
        "matched_own": 5000,
        "isa_entries_real_path": 380,
        "isa_entries_through_cli": 300,
        "cli_runs": 3000,
        "dbcheck_runs": 17,
        "dbcheck_subprocess_runs": 17,
        "dbcheck_counts_compared": 17 * 8,
        "table_rows_costed": 60,
        "composed_cases": 400,
        "set:files": 19,
        "multi_models_costed": 100,
        "real_app_calls_after_other_models": 15000,
    }


def plan(tier, seed):
    files = [a for a, _ in isolate.model_files()]
    archs = [a for a in files if not a.startswith("isa/")]
    # biggest first so that the long shards start early
    sizes = {a: os.path.getsize(p) for a, p in isolate.model_files()}
    specs = []
    for a in sorted(files, key=lambda x: -sizes[x]):
        specs.append({"kind": "file", "file": a, "subprocess": tier == "thorough" or a in ("zen1", "tx2")})
    rot = seed % 6
    for a in sorted(archs, key=lambda x: -sizes[x]):
        if tier == "thorough":
            parts = 6 if a in BIG else (3 if a in MID else 1)
            for k in range(parts):
                specs.append({"kind": "cost", "arch": a, "part": k, "parts": parts, "every": 1, "rot": 0})
        else:
            specs.append({"kind": "cost", "arch": a, "part": 0, "parts": 1, "every": 6, "rot": rot})
    # every model after every other one at least once over seeds: alphabetical, reversed, and (thorough) two rotations of a shuffle
    orders = [sorted(archs), sorted(archs, reverse=True)]
    if tier == "thorough":
        import random

        rr = random.Random(seed)
        for _ in range(4):
            o = list(archs)
            rr.shuffle(o)
            orders.append(o)
    for o in orders:
        specs.append({"kind": "multi", "order": o, "every": 4 if tier == "thorough" else 12, "rot": seed})
    for isa_file in ("isa/x86", "isa/aarch64"):
        if isa_file in files:
            specs.append({"kind": "isa", "file": isa_file, "every": 1, "rot": 0})
    if tier == "thorough":
        for a in sorted(archs, key=lambda x: -sizes[x]):
            every = 6 if a in BIG else (2 if a in MID else 1)
            parts = 4 if a in BIG + MID else 1
            for k in range(parts):
                specs.append({"kind": "cli", "arch": a, "part": k, "parts": parts, "every": every, "rot": seed % every, "n": None})
    else:
        for a in archs:
            n = 3 if a in BIG else (4 if a in MID else 8)
            specs.append({"kind": "cli", "arch": a, "part": 0, "parts": 1, "every": 1, "rot": 0, "n": n})
    return specs


# ----------------------------------------------------------------------------------------------------------------
# file shard: independent parse, shape oracle, loaded tables, --db-check


def parse_yaml(path):
    import ruamel.yaml

    with open(path) as f:
        text = f.read()
    return ruamel.yaml.YAML(typ="safe", pure=True).load(text)


def yaml_entries(doc):
    """(NAME upper, entry dict) per name, as OSACA splits multi-name entries."""
    out = []
    for e in doc.get("instruction_forms") or []:
        for n in er.names_of(e):
            out.append((n.upper(), e))
    return out


def judge_entry_shape(file, name, entry, ports, R, case):
    bad = False
    pp = entry.get("port_pressure")
    if pp is not None:
        for kind, detail in uop_defects(pp, ports):
            bad = True
            R.violation(mkey(file, name, kind), "%s %s: micro-op list %s: %s (%s)" % (file, name, json.dumps(norm(pp))[:120], kind, detail),
                        dict(case, defect=kind, port_pressure=norm(pp)))
    for k in ("throughput", "latency"):
        d = value_defect(entry.get(k))
        if d is not None:
            bad = True
            R.violation(mkey(file, name, k), "%s %s: %s = %s is not a non-negative number" % (file, name, k, d), dict(case, defect=k))
    return bad


def run_file(spec, R):
    file = spec["file"]
    path = dict(isolate.model_files())[file]
    doc = parse_yaml(path)
    R.count("files_parsed")
    R.observe("files", file)
    is_arch = not file.startswith("isa/")
    ports = doc.get("ports") if is_arch else []
    if is_arch and not (isinstance(ports, list) and ports and all(isinstance(p, str) for p in ports)):
        R.violation(mkey(file, "ports", "port-list"), "%s: ports is not a non-empty list of names: %r" % (file, ports), {"kind": "file", "file": file})
        ports = [str(p) for p in (ports or [])]
    ents = yaml_entries(doc)
    per_name_k = {}
    n_null = {"throughput": 0, "latency": 0, "port_pressure": 0}
    for name, e in ents:
        k = per_name_k.get(name, 0)
        per_name_k[name] = k + 1
        case = {"kind": "shape", "file": file, "name": name, "k": k}
        pp = e.get("port_pressure")
        nontrivial = bool(pp) if is_arch else bool(e.get("operands"))
        R.case(digest([file, name, k, "shape"]), nontrivial=nontrivial)
        R.count("entries_shape_checked")
        if isinstance(pp, dict):
            R.count("entries_with_alternatives")
        if isinstance(e.get("name"), list):
            R.count("entries_from_multi_name")
        for f in n_null:
            if e.get(f) is None:
                n_null[f] += 1
                R.count("entries_null_or_absent_" + f)
        if judge_entry_shape(file, name, e, ports, R, case):
            R.count("entries_malformed")
    if is_arch:
        for t in ("load_throughput", "store_throughput"):
            rows = doc.get(t)
            R.count("tables_shape_checked")
            for i, row in enumerate(rows or []):
                R.case(digest([file, t, i, "shape"]), nontrivial=True)
                R.count("table_rows_shape_checked")
                rpp = row.get("port_pressure") if isinstance(row, dict) else None
                defs = uop_defects(rpp, ports) if rpp is not None else [("not-a-list", "row without port_pressure")]
                for kind, detail in defs:
                    R.violation(mkey(file, t, kind), "%s %s row %d: %s (%s)" % (file, t, i, kind, detail), {"kind": "shape", "file": file, "table": t, "row": i})
        for t in ("load_throughput_default", "store_throughput_default"):
            R.case(digest([file, t, "shape"]), nontrivial=True)
            R.count("table_defaults_shape_checked")
            dv = doc.get(t)
            defs = uop_defects(dv, ports) if dv is not None else [("not-a-list", "missing")]
            for kind, detail in defs:
                R.violation(mkey(file, t, kind), "%s %s = %s: %s (%s)" % (file, t, json.dumps(norm(dv))[:80], kind, detail), {"kind": "shape", "file": file, "table": t})
    R.sample({"file": file, "entries": len(ents), "null_or_absent": n_null})
    compare_loaded(file, doc, ents, R)
    if is_arch:
        expected = dict(n_null, total=len(ents))
        dbcheck(file, expected, R, inproc=True)
        if spec.get("subprocess"):
            dbcheck(file, expected, R, inproc=False)


def compare_loaded(file, doc, ents, R):
    """The real loader's internal tables against the independent parse."""
    from osaca.semantics import MachineModel

    case = {"kind": "file", "file": file}
    try:
        mm = MachineModel(arch=file)
        fd = mm["instruction_forms_dict"]
    except Exception as e:  # noqa
        R.exception(e, case, prefix="load/")
        return
    want = {}
    for name, e in ents:
        want.setdefault(name, []).append(e)
    got_names = set(k for k, v in fd.items() if v)
    for name in sorted(set(want) | got_names):
        w = want.get(name, [])
        g = list(fd.get(name, [])) if name in got_names else []
        if len(w) != len(g):
            R.violation("load/entry-count", "%s %s: %d form(s) in the file, %d in the loaded model" % (file, name, len(w), len(g)), dict(case, name=name))
            continue
        for field in ("throughput", "latency", "port_pressure"):
            ws = sorted(json.dumps(norm(e.get(field)), sort_keys=True) for e in w)
            gs = sorted(json.dumps(norm(getattr(f, field)), sort_keys=True) for f in g)
            if ws != gs:
                R.violation("load/" + field, "%s %s: %s in file %s, loaded %s" % (file, name, field, ws[:3], gs[:3]), dict(case, name=name))
        wo = sorted(len(e.get("operands") or []) for e in w)
        go = sorted(len(f.operands or []) for f in g)
        if wo != go:
            R.violation("load/operand-count", "%s %s: operand counts %s vs loaded %s" % (file, name, wo, go), dict(case, name=name))
        R.count("entries_loaded_compared", len(w))
        for k in range(len(w)):
            R.case(digest([file, name, k, "loaded"]), nontrivial=False)
    n_list = len(mm["instruction_forms"])
    if n_list != len(ents):
        R.violation("load/list-length", "%s: %d names in the file, %d entries in the loaded list" % (file, len(ents), n_list), case)
    if file.startswith("isa/"):
        return
    if norm(mm["ports"]) != norm(doc.get("ports")):
        R.violation("load/ports", "%s: ports %s vs loaded %s" % (file, doc.get("ports"), mm["ports"]), case)
    for t in ("load_throughput", "store_throughput"):
        w = [norm(r.get("port_pressure")) for r in (doc.get(t) or [])]
        g = [norm(r[1]) for r in mm[t]]
        if w != g:
            R.violation("load/table", "%s: %s micro-op lists differ from the file" % (file, t), dict(case, table=t))
    for t in ("load_throughput_default", "store_throughput_default"):
        if norm(mm[t]) != norm(doc.get(t)):
            R.violation("load/table-default", "%s: %s %s vs loaded %s" % (file, t, doc.get(t), mm[t]), dict(case, table=t))
    R.count("tables_loaded_compared", 4)


REPORT = {
    "throughput": re.compile(r"\((\d+)/(\d+)\) of instruction forms have no throughput value"),
    "latency": re.compile(r"\((\d+)/(\d+)\) of instruction forms have no latency value"),
    "port_pressure": re.compile(r"\((\d+)/(\d+)\) of instruction forms have no port pressure assignment"),
}


def dbcheck(arch, expected, R, inproc=True):
    """Real --db-check on ``arch``; counts must equal ``expected`` (counted in the independent parse)."""
    case = {"kind": "dbcheck", "arch": arch, "expected": expected, "inproc": inproc}
    with tempfile.TemporaryDirectory(prefix="c15-") as d:
        dummy = os.path.join(d, "dummy.s")
        with open(dummy, "w") as f:
            f.write("nop\n")
        argv = ["--arch", arch.upper(), "--db-check", dummy]
        if inproc:
            import osaca.osaca as oo

            parser = oo.create_parser()
            args = parser.parse_args(argv)
            out = io.StringIO()
            try:
                oo.check_arguments(args, parser)
                with time_limit(600):
                    oo.run(args, output_file=out)
            except CaseTimeout:
                R.inconclusive += 1
                return
            except Exception as e:  # noqa
                R.case(digest([arch, "dbcheck", inproc]), nontrivial=True)
                R.exception(e, case, prefix="dbcheck/")
                return
            finally:
                args.file.close()
            text = out.getvalue()
        else:
            try:
                p = subprocess.run([isolate.PY, "-m", "osaca"] + argv, capture_output=True, text=True, timeout=900)
            except subprocess.TimeoutExpired:
                R.inconclusive += 1
                return
            text = p.stdout
            R.count("dbcheck_subprocess_runs")
            if p.returncode != 0:
                R.case(digest([arch, "dbcheck", inproc]), nontrivial=True)
                R.violation("dbcheck/cli-exit", "osaca --arch %s --db-check exited %d: %s" % (arch, p.returncode, p.stderr[-300:]), case)
                return
    R.case(digest([arch, "dbcheck", inproc]), nontrivial=True)
    R.count("dbcheck_runs")
    for field, rx in REPORT.items():
        m = rx.search(text)
        if not m:
            R.violation("dbcheck/report-line-missing", "%s: no '%s' line in the --db-check report" % (arch, field), dict(case, report=text[:600]))
            continue
        got, total = int(m.group(1)), int(m.group(2))
        R.count("dbcheck_counts_compared")
        if got != expected[field]:
            R.violation("dbcheck/" + field, "%s: --db-check reports %d forms without %s, the model file has %d" % (arch, got, field, expected[field]),
                        dict(case, report=text[:600]))
        if field == "throughput":
            R.count("dbcheck_counts_compared")
            if total != expected["total"]:
                R.violation("dbcheck/total", "%s: --db-check counts %d instruction forms, the model file has %d" % (arch, total, expected["total"]),
                            dict(case, report=text[:600]))
        elif total != expected["total"]:
            R.violation("dbcheck/total", "%s: --db-check total %d in the %s line, the model file has %d" % (arch, total, field, expected["total"]),
                        dict(case, report=text[:600]))


# ----------------------------------------------------------------------------------------------------------------
# cost shards: the real path


class Real:
    """Real objects of one model: machine model, semantics, parser."""

    def __init__(self, arch):
        from osaca.parser import get_parser
        from osaca.semantics import ArchSemantics, MachineModel

        self.arch = arch
        self.mm = MachineModel(arch=arch)
        self.isa = self.mm.get_ISA()
        self.sem = ArchSemantics(self.mm)
        self.parser = get_parser(self.isa)
        self.ports = list(self.mm["ports"])

    def entries(self):
        """(NAME, k, form) in the loaded model's own order."""
        out = []
        for name, forms in self.mm["instruction_forms_dict"].items():
            for k, fo in enumerate(forms):
                out.append((name, k, fo))
        return out


def entry_defects(fo, ports):
    pp = fo.port_pressure
    d = uop_defects(pp, ports) if pp is not None else []
    for k in ("throughput", "latency"):
        if value_defect(getattr(fo, k)) is not None:
            d.append((k, repr(getattr(fo, k))))
    return d


def report_crash(R, real, exc, matched, case, path):
    """An exception on the real path: data defect of the matched entry (same key as the shape finding) or code defect."""
    if matched is not None:
        defs = entry_defects(matched, real.ports)
        if defs:
            kind = defs[0][0]
            R.count("crash_on_malformed_entry")
            R.observe("crashes", "%s %s: %s" % (real.arch, matched.mnemonic, exception_key(exc)))
            R.violation(mkey(real.arch, matched.mnemonic, kind),
                        "%s %s: %s on the entry's malformed data %s -> %s: %s" % (real.arch, matched.mnemonic, path, json.dumps(norm(matched.port_pressure))[:100], type(exc).__name__, str(exc)[:80]),
                        dict(case, defect=kind))
            return
    R.exception(exc, case, prefix="cost/")


def real_app(real, name, k, fo, R, after=None):
    """Real costing function on the entry's own micro-op list (reaches shadowed duplicates too).

    after: models costed earlier in this process (every model must be costed on its own ports whatever was loaded before)."""
    pp = fo.port_pressure
    if pp is None:
        R.count("entries_without_port_pressure")
        return
    case = {"kind": "app", "arch": real.arch, "name": name, "k": k}
    if after is not None:
        case["after"] = list(after)
    R.case(digest([real.arch, name, k, "app", after]), nontrivial=bool(pp))
    R.count("real_app_calls" if after is None else "real_app_calls_after_other_models")
    defs = uop_defects(pp, real.ports)
    try:
        got = real.mm.average_port_pressure(pp)
    except Exception as e:  # noqa
        report_crash(R, real, e, fo, case, "average_port_pressure")
        return
    if defs:
        # malformed but did not crash: silently costed
        R.count("malformed_costed_silently")
        R.violation(mkey(real.arch, name, defs[0][0]), "%s %s: malformed micro-op list %s costed silently as %s" % (real.arch, name, json.dumps(norm(pp))[:100], got),
                    dict(case, defect=defs[0][0]))
        return
    if not any(close(got, cost(alt, real.ports)) for alt in alternatives(pp)):
        R.violation("cost/average-port-pressure" + ("" if not after else "/after-other-models"), "%s %s: average_port_pressure(%s) = %s, reference %s" % (real.arch, name, json.dumps(norm(pp))[:100], got, cost(alternatives(pp)[0], real.ports)), case)


def analyse_line(real, line, R, case, own=None, klass="real_path_cases"):
    """parser -> assign_src_dst -> assign_tp_lt on one line; returns the matched entry class."""
    try:
        il = real.parser.parse_line(line, 1)
    except Exception:  # noqa  the renderer's shortcoming, not the property's subject
        R.count("render_unparsed")
        return "unparsed"
    if il.mnemonic is None:
        R.count("render_unparsed")
        return "unparsed"
    matched = real.mm.get_instruction(il.mnemonic, il.operands)
    how = "own" if (own is not None and matched is own) else ("none" if matched is None else "other")
    R.count(klass)
    try:
        with time_limit(60):
            real.sem.assign_src_dst(il)
            real.sem.assign_tp_lt(il)
    except CaseTimeout:
        R.inconclusive += 1
        return how
    except Exception as e:  # noqa
        report_crash(R, real, e, matched, dict(case, line=line), "assign_tp_lt")
        return how
    # the result must be a costing
    pv = il.port_pressure
    ok = isinstance(pv, list) and len(pv) == len(real.ports) and all(is_num(x) and x >= -1e-12 for x in pv)
    if not ok:
        R.violation("cost/pressure-vector", "%s `%s`: port pressure %r is not a vector of %d non-negative numbers" % (real.arch, line, pv, len(real.ports)), dict(case, line=line))
    for f in ("throughput", "latency"):
        v = getattr(il, f)
        if not is_num(v) or v < 0:
            R.violation("cost/" + f, "%s `%s`: %s = %r after assign_tp_lt" % (real.arch, line, f, v), dict(case, line=line))
    if matched is not None and matched.port_pressure is not None and ok:
        defs = uop_defects(matched.port_pressure, real.ports)
        if defs:
            R.count("malformed_costed_silently")
            R.violation(mkey(real.arch, matched.mnemonic, defs[0][0]), "%s `%s`: malformed micro-op list %s costed silently as %s" % (real.arch, line, json.dumps(norm(matched.port_pressure))[:100], pv),
                        dict(case, line=line, defect=defs[0][0]))
        elif not any(close(pv, cost(alt, real.ports)) for alt in alternatives(matched.port_pressure)):
            R.violation("cost/pressure-differs", "%s `%s`: pressure %s is not the cost of the matched entry's micro-ops %s" % (real.arch, line, pv, json.dumps(norm(matched.port_pressure))[:100]),
                        dict(case, line=line))
    return how


def selected(i, spec):
    return i % spec["parts"] == spec["part"] and (i // spec["parts"] + spec["rot"]) % spec["every"] == 0


def run_cost(spec, R):
    real = Real(spec["arch"])
    R.observe("archs_costed", real.arch)
    ents = real.entries()
    for i, (name, k, fo) in enumerate(ents):
        if i % spec["parts"] == spec["part"]:
            real_app(real, name, k, fo, R)
        if not selected(i, spec):
            continue
        case = {"kind": "line", "arch": real.arch, "name": name, "k": k}
        if impossible_addressing(real.isa, fo):
            R.count("skipped_impossible_addressing")
            continue
        R.count("class:" + entry_class(fo))
        line = er.render(real.isa, fo)
        how = analyse_line(real, line, R, case, own=fo)
        R.case(digest([real.arch, name, k, "line"]), nontrivial=bool(fo.port_pressure))
        R.count("matched_" + how if how != "unparsed" else "unparsed_entries")
        if i % 997 == 0:
            R.sample({"arch": real.arch, "entry": name, "line": line, "matched": how})
    if spec["part"] == 0:
        run_tables(real, R)
        run_composed(real, ents, R, limit=None if spec["every"] == 1 else 60)


def run_multi(spec, R):
    """All models costed one after the other in one process (a harness or a tool looping over micro-architectures)."""
    for idx, arch in enumerate(spec["order"]):
        real = Real(arch)
        n = 0
        for i, (name, k, fo) in enumerate(real.entries()):
            if i % spec["every"] == spec["rot"] % spec["every"]:
                real_app(real, name, k, fo, R, after=spec["order"][:idx])
                n += 1
        R.count("multi_models_costed")
        R.observe("multi_orders", "%s after %s" % (arch, spec["order"][idx - 1] if idx else "-"))


def run_tables(real, R):
    """Real costing function on every row of the load/store tables and on the defaults."""
    mm = real.mm
    items = []
    for t in ("load_throughput", "store_throughput"):
        for i, row in enumerate(mm[t]):
            items.append((t, i, row[1]))
    for t in ("load_throughput_default", "store_throughput_default"):
        items.append((t, None, mm[t]))
    for t, i, pp in items:
        case = {"kind": "table", "arch": real.arch, "table": t, "row": i}
        R.case(digest([real.arch, t, i, "app"]), nontrivial=True)
        R.count("table_rows_costed")
        defs = uop_defects(pp, real.ports)
        try:
            got = mm.average_port_pressure(pp)
        except Exception as e:  # noqa
            if defs:
                R.count("crash_on_malformed_entry")
                R.observe("crashes", "%s %s: %s" % (real.arch, t, exception_key(e)))
                R.violation(mkey(real.arch, t, defs[0][0]), "%s %s = %s: average_port_pressure -> %s: %s" % (real.arch, t, json.dumps(norm(pp))[:80], type(e).__name__, str(e)[:80]),
                            dict(case, defect=defs[0][0]))
            else:
                R.exception(e, case, prefix="cost/")
            continue
        if defs:
            R.violation(mkey(real.arch, t, defs[0][0]), "%s %s = %s malformed but costed silently as %s" % (real.arch, t, json.dumps(norm(pp))[:80], got), dict(case, defect=defs[0][0]))
        elif not close(got, cost(pp, real.ports)):
            R.violation("cost/average-port-pressure", "%s %s: average_port_pressure = %s, reference %s" % (real.arch, t, got, cost(pp, real.ports)), case)


X86_MEMS = ["(%rsi)", "16(%rsi)", "16(%rsi,%rdi,8)", "(%rsi,%rdi)"]


def table_defect(real, names):
    for t in names:
        rows = [r[1] for r in real.mm[t]] if not t.endswith("_default") else [real.mm[t]]
        for pp in rows:
            d = uop_defects(pp, real.ports)
            if d:
                return t, d[0][0]
    return None


def run_composed(real, ents, R, limit=None):
    """Memory variants of register forms: the real composition reads the load/store tables and their defaults.

    x86 only: there any operand position of a register form may legitimately be a memory reference; AArch64 is a
    load/store architecture whose memory instructions are listed with their memory operands (their tables are
    costed by run_tables).
    """
    n = 0
    if real.isa != "x86":
        return
    for i, (name, k, fo) in enumerate(ents):
        ops = [er.describe_operand(o) for o in (fo.operands or [])]
        if not ops or not all(o["class"] in ("register", "immediate") for o in ops):
            continue
        if entry_defects(fo, real.ports) or fo.port_pressure is None:
            continue
        if not (is_num(fo.throughput) and is_num(fo.latency)):
            R.count("composition_skipped_null_tp_lt")
            continue
        regpos = [j for j, o in enumerate(ops) if o["class"] == "register"]
        for pos in regpos:
            mem = X86_MEMS[(i + pos) % len(X86_MEMS)]
            # render all operands with the renderer's position-dependent register numbering, then swap one
            full = er.render_desc(real.isa, name, ops)
            optexts = full.split(" ", 1)[1].split(", ") if " " in full else []
            if len(optexts) != len(ops):
                continue
            optexts[pos] = mem
            line = name.lower() + " " + ", ".join(optexts)
            case = {"kind": "composed", "arch": real.arch, "name": name, "k": k, "pos": pos}
            try:
                il = real.parser.parse_line(line, 1)
            except Exception:  # noqa
                R.count("render_unparsed")
                continue
            if real.mm.get_instruction(il.mnemonic, il.operands) is not None:
                R.count("composed_direct_entry_exists")
                continue
            R.case(digest([real.arch, name, k, "composed", pos]), nontrivial=True)
            R.count("composed_cases")
            try:
                with time_limit(60):
                    real.sem.assign_src_dst(il)
                    real.sem.assign_tp_lt(il)
            except CaseTimeout:
                R.inconclusive += 1
                continue
            except Exception as e:  # noqa
                td = table_defect(real, ("load_throughput", "load_throughput_default", "store_throughput", "store_throughput_default"))
                # a malformed table is only blamed when the costing function itself gave up
                if td and exception_key(e).endswith("hw_model.average_port_pressure"):
                    R.count("crash_on_malformed_entry")
                    R.observe("crashes", "%s %s: %s" % (real.arch, td[0], exception_key(e)))
                    R.violation(mkey(real.arch, td[0], td[1]), "%s `%s`: composition with malformed %s -> %s: %s" % (real.arch, line, td[0], type(e).__name__, str(e)[:80]),
                                dict(case, line=line, defect=td[1]))
                else:
                    R.exception(e, dict(case, line=line), prefix="cost/compose/")
                continue
            R.count("composed_unknown" if "tp_unknown" in il.flags else "composed_ok")
            n += 1
        if limit is not None and n >= limit:
            break


def run_isa(spec, R):
    """Every ISA DB entry: rendered from its own pattern through the real path on a small model of that ISA."""
    file = spec["file"]
    from osaca.semantics import MachineModel

    isa = file.split("/")[1]
    real = Real(SMALL_X86 if isa == "x86" else SMALL_A64)
    im = MachineModel(arch=file)
    R.observe("archs_costed", file)
    import osaca.osaca as oo

    cli_parser = oo.create_parser()
    tmpd = tempfile.mkdtemp(prefix="c15isa-")
    i = -1
    for name, forms in im["instruction_forms_dict"].items():
        for k, fo in enumerate(forms):
            i += 1
            if (i + spec["rot"]) % spec["every"]:
                continue
            line = er.render(isa, fo)
            case = {"kind": "isa-line", "file": file, "name": name, "k": k}
            how = analyse_line(real, line, R, case, own=None, klass="isa_entries_real_path")
            if how != "unparsed" and not impossible_addressing(isa, fo):
                # the whole analysis (dependency graph included: register-change operations of the entry are executed there)
                R.count("isa_entries_through_cli")
                cli_one(real, oo, cli_parser, tmpd, line, {"kind": "isa-cli", "file": file, "arch": real.arch, "name": name, "k": k}, None, R)
            R.case(digest([file, name, k, "line"]), nontrivial=bool(fo.operands))
            if how != "unparsed":
                # did the ISA lookup resolve to this entry?
                try:
                    il = real.parser.parse_line(line, 1)
                    got = im.get_instruction(il.mnemonic, il.operands)
                    R.count("isa_matched_own" if got is fo else ("isa_matched_none" if got is None else "isa_matched_other"))
                except Exception:  # noqa
                    pass
    subprocess.run(["rm", "-rf", tmpd])


def run_cli(spec, R):
    import random

    import osaca.osaca as oo

    real = Real(spec["arch"])
    ents = real.entries()
    if spec.get("n"):
        # stratified by entry class (one of each class present in the model), the rest uniformly
        rnd = random.Random(spec["seed"])
        by_class = {}
        for i, (name, k, fo) in enumerate(ents):
            by_class.setdefault(entry_class(fo), []).append(i)
        idx = set(rnd.choice(v) for _, v in sorted(by_class.items()))
        rest = [i for i in range(len(ents)) if i not in idx]
        idx |= set(rnd.sample(rest, max(0, min(spec["n"] - len(idx), len(rest)))))
        idx = sorted(idx)
    else:
        idx = [i for i in range(len(ents)) if selected(i, spec)]
    parser = oo.create_parser()
    with tempfile.TemporaryDirectory(prefix="c15-") as d:
        for i in idx:
            name, k, fo = ents[i]
            line = er.render(real.isa, fo)
            cli_one(real, oo, parser, d, line, {"kind": "cli", "arch": real.arch, "name": name, "k": k}, fo, R)


def entry_class(fo):
    """Data class of an entry (for stratified sampling and coverage counters)."""
    pp = fo.port_pressure
    if pp is None:
        return "no_port_pressure"
    if isinstance(pp, dict):
        return "alternatives"
    if fo.throughput is None:
        return "throughput_null"
    if fo.latency is None:
        return "latency_null"
    if not pp:
        return "empty_uop_list"
    if fo.throughput == 0:
        return "throughput_zero_with_uops"
    return "plain"


def impossible_addressing(isa, fo):
    """AArch64 pattern that no assembler syntax can express: pre-indexed addressing with an index register."""
    if isa != "aarch64":
        return False
    for o in fo.operands or []:
        d = er.describe_operand(o)
        if d.get("class") == "memory" and d.get("pre_indexed") is True and d.get("index") not in (None, er.WILD):
            return True
    return False


def cli_one(real, oo, parser, d, line, case, fo, R):
    if fo is not None and impossible_addressing(real.isa, fo):
        R.count("skipped_impossible_addressing")
        return
    if fo is not None:
        R.count("cli_class:" + entry_class(fo))
    try:
        il = real.parser.parse_line(line, 1)
        matched = real.mm.get_instruction(il.mnemonic, il.operands) if il.mnemonic else None
    except Exception:  # noqa
        R.count("render_unparsed")
        return
    p = os.path.join(d, "k.s")
    with open(p, "w") as f:
        f.write(line + "\n")
    # the structured report (--yaml-out) is produced in the same run: it converts every per-instruction number once more
    args = parser.parse_args(["--arch", real.arch.upper(), "--yaml-out", os.path.join(d, "k.yaml"), p])
    out = io.StringIO()
    R.case(digest([real.arch, case["name"], case["k"], "cli"]), nontrivial=bool(fo is not None and fo.port_pressure))
    R.count("cli_runs")
    try:
        oo.check_arguments(args, parser)
        with time_limit(120):
            oo.run(args, output_file=out)
    except CaseTimeout:
        R.inconclusive += 1
        return
    except Exception as e:  # noqa
        report_crash(R, real, e, matched, dict(case, line=line), "osaca --arch %s" % real.arch.upper())
        return
    finally:
        args.file.close()
        if getattr(args, "yaml_out", None) is not None:
            args.yaml_out.close()
    text = out.getvalue()
    try:
        with open(os.path.join(d, "k.yaml")) as f:
            if "Kernel" in f.read(4096):
                R.count("cli_structured_reports_ok")
    except OSError:
        pass
    if line.split()[0] not in text:
        R.violation("cost/cli-report", "%s `%s`: the analysis report does not list the instruction" % (real.arch, line), dict(case, line=line))
    else:
        R.count("cli_reports_ok")


# ----------------------------------------------------------------------------------------------------------------


def run_shard(spec, R):
    kind = spec["kind"]
    if kind == "file":
        run_file(spec, R)
    elif kind == "cost":
        run_cost(spec, R)
    elif kind == "isa":
        run_isa(spec, R)
    elif kind == "cli":
        run_cli(spec, R)
    elif kind == "multi":
        run_multi(spec, R)
    else:
        raise ValueError(kind)


def _find(real, name, k):
    forms = real.mm["instruction_forms_dict"].get(name, [])
    return forms[k] if k < len(forms) else None


def replay(case, R):
    kind = case.get("kind")
    if kind in ("shape", "file"):
        run_file({"file": case["file"], "subprocess": False}, R)
    elif kind == "dbcheck":
        dbcheck(case["arch"], case["expected"], R, inproc=case.get("inproc", True))
    elif kind in ("app", "line", "cli", "composed", "table"):
        real = Real(case["arch"])
        if kind == "table":
            run_tables(real, R)
            return
        fo = _find(real, case["name"], case["k"])
        if fo is None:
            raise ValueError("entry %s[%d] not in model %s" % (case["name"], case["k"], case["arch"]))
        if kind == "app" and case.get("after"):
            for a in case["after"]:
                ra = Real(a)
                ra.mm.average_port_pressure([[1, ra.ports[:1]]])
            real = Real(case["arch"])
            real_app(real, case["name"], case["k"], _find(real, case["name"], case["k"]), R, after=case["after"])
        elif kind == "app":
            real_app(real, case["name"], case["k"], fo, R)
        elif kind == "line":
            how = analyse_line(real, case.get("line") or er.render(real.isa, fo), R, {k: v for k, v in case.items() if k not in ("traceback", "line")}, own=fo)
            R.case(digest([real.arch, case["name"], case["k"], "line"]), nontrivial=True)
            R.count("matched_" + how)
        elif kind == "cli":
            import osaca.osaca as oo

            with tempfile.TemporaryDirectory(prefix="c15-") as d:
                cli_one(real, oo, oo.create_parser(), d, case.get("line") or er.render(real.isa, fo), {k: v for k, v in case.items() if k not in ("traceback", "line")}, fo, R)
        else:
            run_composed(real, [(case["name"], case["k"], fo)], R)
    elif kind in ("isa-line", "isa-cli"):
        run_isa({"file": case["file"], "every": 1, "rot": 0}, R)
    else:
        raise ValueError("unknown case kind %r" % kind)
