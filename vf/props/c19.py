"""C19 LCD timeout yields sound partial results and leaves no workers behind.

Monitors (installed on what osaca.semantics.kernel_dg sees): a proxy for its `time` module (records every clock poll and
sleep), a proxy for `os.kill`, wrappers on multiprocessing.Process.start/join of the workers, a counting generator around
networkx all_simple_paths (paths yielded, and the wall time of the first and last one), the KernelDG instance created by the
CLI (timed_out), the report text, and the process table (children of this process) after the call returned.
"""
import io
import os
import random
import signal
import time

from .. import depgen as D
from .. import gen_model, isolate
from ..common import CaseTimeout, digest, time_limit

LEVEL = "exploration"
RULE = (
    "kernels with exponentially many dependency paths (tests/test_files/kernel_x86_long_LCD.s; generated recurrence kernels in which "
    "every instruction reads the two previous results, 14-45 lines = below and 50-70 lines = above the multi-process threshold) and "
    "ordinary kernels x timeouts {0, 1, 2, generous (120), -1 where the search is feasible}; worker kill points are wherever the "
    "timeout strikes; the warning list of the structured report and the pauses the waiting parent asks for are observed as well. Non-trivial: the search was actually cut short (kill or abandoned enumeration observed) or >= 2 cycles were "
    "reported; distinct by digest of (kernel, timeout)"
)
ASSUMPTIONS = [
    "bounded progress instead of wall clock: the search is judged 'not stopped by the timeout' only when paths are still being "
    "produced 3*timeout + 30 s after it started (the case is then aborted from inside the counting generator); time spent after "
    "the search (copying / de-duplicating what was found) is reported, not judged; a 10x outer watchdog makes a case inconclusive",
    "a reported cycle is verified against the dependency graph the real create_DG yields for the explicitly doubled kernel",
]
SHARD_TIMEOUT = {"quick": 1500, "thorough": 7200}
ABORT_MARGIN = 30.0


class SearchNotStopped(Exception):
    pass


def floors(tier):
    q = tier == "quick"
    return {"evaluations": 30 if q else 300, "distinct_nontrivial": 10 if q else 100, "cut_short": 8 if q else 80, "completed": 10 if q else 100,
            "path:sequential": 10 if q else 100, "path:parallel": 6 if q else 60, "workers_killed": 10 if q else 200, "reported_cycles_verified": 20 if q else 300,
            "timeout:0": 3, "timeout:1": 3, "timeout:2": 3, "timeout:-1": 3, "timeout:120": 3, "no_child_left_checked": 30 if q else 300,
            "monitor:clock_polls": 30, "tp_cp_compared": 30 if q else 300, "virtual_strikes": 40 if q else 600,
            "completeness_checked_by_own_enumeration": 15 if q else 200, "structured_report_compared": 30 if q else 300, "parent_pauses_checked": 20 if q else 200, "untimed_after_cut_short": 3 if q else 30, "runs_with_sigterm_ignored": 4 if q else 40}


def plan(tier, seed):
    q = tier == "quick"
    specs = [{"kind": "longlcd", "timeouts": [0, 1] if q else [0, 1, 2]}]
    n = 10 if q else 40
    for i in range(n):
        specs.append({"kind": "dense", "isa": "x86" if i % 3 != 2 else "aarch64", "below": i % 2 == 0, "cases": 1 if q else 3})
    for i in range(4 if q else 12):
        specs.append({"kind": "ordinary", "isa": "x86" if i % 2 == 0 else "aarch64", "cases": 3 if q else 8})
    for i in range(4 if q else 16):
        specs.append({"kind": "virtual", "isa": "x86" if i % 2 == 0 else "aarch64", "cases": 2 if q else 6})
    return specs


# ---------------------------------------------------------------- monitors

class Probes:
    def __init__(self):
        import networkx as nx
        from osaca.semantics import kernel_dg
        import osaca.osaca as o

        self.kd = kernel_dg
        self.o = o
        self.nx = nx
        self.events = []
        self.clock_polls = 0
        self.first_clock = self.last_clock = None
        self.virtual = False
        self.vnow = 0.0
        self.deadline = None
        self.search_start = None
        self.paths = 0
        self.first_path = None
        self.last_path = None
        self.instances = []
        self.term_toggle = 0
        probe = self
        # the module need not use os at all (workers may be stopped through the Process API): wrap it only if it is there
        real_time, real_os = kernel_dg.time, getattr(kernel_dg, "os", None)

        class TimeProxy:
            def time(self_):
                if probe.virtual:
                    # virtual time: one tick per look at the clock, so that the timeout strikes at a chosen logical step
                    probe.vnow += 1.0
                    probe.clock_polls += 1
                    if probe.first_clock is None:
                        probe.first_clock = probe.vnow
                    probe.last_clock = probe.vnow
                    return probe.vnow
                t = real_time.time()
                probe.clock_polls += 1
                if probe.first_clock is None:
                    probe.first_clock = t
                probe.last_clock = t
                return t

            def sleep(self_, s):
                probe.events.append(("sleep", s, real_time.time()))
                if probe.virtual:
                    probe.vnow += s
                    return None
                return real_time.sleep(s)

            def __getattr__(self_, n):
                return getattr(real_time, n)

        class OsProxy:
            def kill(self_, pid, sig):
                probe.events.append(("kill", pid))
                return real_os.kill(pid, sig)

            def __getattr__(self_, n):
                return getattr(real_os, n)

        self._saved = (kernel_dg.time, real_os, kernel_dg.Process, nx.algorithms.simple_paths.all_simple_paths, o.KernelDG)
        kernel_dg.time = TimeProxy()
        if real_os is not None:
            kernel_dg.os = OsProxy()
        RealProcess = kernel_dg.Process

        class ProcessProxy(RealProcess):
            def start(self_):
                probe.events.append(("start", None))
                r = RealProcess.start(self_)
                probe.events.append(("started", self_.pid, real_time.time()))
                return r

            def join(self_, *a):
                r = RealProcess.join(self_, *a)
                probe.events.append(("join", self_.pid))
                return r

            def terminate(self_):
                probe.events.append(("kill", self_.pid))
                return RealProcess.terminate(self_)

            def kill(self_):
                probe.events.append(("kill", self_.pid))
                return RealProcess.kill(self_)

        kernel_dg.Process = ProcessProxy
        real_asp = nx.algorithms.simple_paths.all_simple_paths

        def counting(*a, **k):
            if probe.search_start is None:
                probe.search_start = time.time()
            for p in real_asp(*a, **k):
                probe.paths += 1
                now = time.time()
                if probe.first_path is None:
                    probe.first_path = now
                probe.last_path = now
                if probe.deadline is not None and probe.paths % 256 == 0 and now > probe.deadline:
                    raise SearchNotStopped("paths still produced %.1fs after the search started" % (now - probe.search_start))
                yield p

        nx.algorithms.simple_paths.all_simple_paths = counting
        self._own = None
        own = kernel_dg.KernelDG.__dict__.get("_simple_paths")
        if own is not None:
            fn = own.__func__ if isinstance(own, (staticmethod, classmethod)) else own
            self._own = own

            def counting_own(*a, **k):
                if probe.search_start is None:
                    probe.search_start = time.time()
                for p in fn(*a, **k):
                    probe.paths += 1
                    now = time.time()
                    if probe.first_path is None:
                        probe.first_path = now
                    probe.last_path = now
                    if probe.deadline is not None and probe.paths % 256 == 0 and now > probe.deadline:
                        raise SearchNotStopped("paths still produced %.1fs after the search started" % (now - probe.search_start))
                    yield p

            kernel_dg.KernelDG._simple_paths = staticmethod(counting_own)
        RealKDG = o.KernelDG

        def make(*a, **k):
            inst = RealKDG(*a, **k)
            probe.instances.append(inst)
            return inst

        o.KernelDG = make

    def reset(self, timeout):
        self.events = []
        self.vnow = 0.0
        self.clock_polls = 0
        self.first_clock = self.last_clock = None
        self.paths = 0
        self.first_path = self.last_path = None
        self.search_start = None
        self.instances = []
        self.deadline = None if timeout < 0 else time.time() + ((3 * timeout + ABORT_MARGIN) if not self.virtual else 120)

    def close(self):
        self.kd.time, saved_os, self.kd.Process, self.nx.algorithms.simple_paths.all_simple_paths, self.o.KernelDG = self._saved
        if saved_os is not None:
            self.kd.os = saved_os
        if self._own is not None:
            self.kd.KernelDG._simple_paths = self._own


def children():
    me = os.getpid()
    out = []
    for p in os.listdir("/proc"):
        if not p.isdigit():
            continue
        try:
            with open("/proc/%s/stat" % p) as f:
                st = f.read()
            rest = st[st.rindex(")") + 2:].split()
            if int(rest[1]) == me and rest[0] != "Z":
                out.append(int(p))
        except (OSError, ValueError):
            continue
    return out


def run_cli(argv):
    import osaca.osaca as o

    parser = o.create_parser()
    args = parser.parse_args(argv)
    o.check_arguments(args, parser)
    out = io.StringIO()
    try:
        o.run(args, output_file=out)
    finally:
        args.file.close()
        if getattr(args, "yaml_out", None) is not None:
            args.yaml_out.close()
    return out.getvalue()


WARN = "WARNING: LCD analysis timed out"


def summary_of(report):
    """(port totals text, CP, LCD) from the summary row; None when absent."""
    lines = [l for l in report.split("\n")]
    for i, l in enumerate(lines):
        if l.startswith("Loop-Carried Dependencies Analysis Report"):
            break
    body = report.split("Loop-Carried Dependencies Analysis Report")[0]
    rows = [l for l in body.split("\n") if l.strip()]
    return rows


def tp_cp_view(report):
    """Everything of the combined view except the LCD column / LCD summary figure: per line text up to '||', CP cell, summary tp+cp."""
    out = []
    inside = False
    for l in report.split("\n"):
        if l.startswith("Combined Analysis Report"):
            inside = True
            continue
        if l.startswith("Loop-Carried Dependencies Analysis Report"):
            break
        if not inside:
            continue
        if "||" in l:
            left, right = l.split("||", 1)
            cells = right.split("|")
            out.append((left, cells[0], cells[2] if len(cells) > 2 else ""))
        elif l.strip() and set(l.strip()) - set("-") and "WARNING" not in l and not l.lstrip().startswith(("While", "incomplete", "instructions", "with --lcd", "for more")):
            parts = l.split()
            out.append(("summary", tuple(parts[:-1])))
    return out


def verify_cycles(inst, R, case):
    """Every reported cycle is a genuine cross-iteration cycle of the doubled kernel with the right latency."""
    kernel = inst.kernel
    import copy

    n = len(kernel)
    shift = max(f.line_number for f in kernel) + 1
    k2 = list(kernel)
    for f in kernel:
        c = copy.copy(f)
        c.line_number += shift
        k2.append(c)
    g2 = inst.create_DG(k2, case.get("flags", False))
    lines = sorted(f.line_number for f in kernel)
    bad = 0
    for key, v in inst.loopcarried_deps.items():
        deps = [(d[0].line_number, float(d[1])) for d in v["dependencies"]]
        R.count("reported_cycles_verified")
        ok = abs(sum(l for _, l in deps) - float(v["latency"])) < 1e-6
        ms = [d[0] for d in deps]
        if ms != sorted(ms) or len(set(ms)) != len(ms):
            ok = False
        else:
            for j, (m, lat) in enumerate(deps):
                nxt = ms[j + 1] if j + 1 < len(ms) else ms[0] + shift
                if not g2.has_edge(m, nxt) or abs(float(g2.edges[m, nxt]["latency"]) - lat) > 1e-6:
                    ok = False
                    break
        if not ok:
            bad += 1
            if bad <= 2:
                R.violation("reported-cycle-is-not-a-cycle", "LCD %r %s (latency %s) is not a cross-iteration dependency cycle of the kernel" % (key, deps, v["latency"]), case)
    return len(inst.loopcarried_deps)


def own_cycles(inst, flags=False):
    """Independent enumeration (R-graph) of the cross-iteration cycles of the analysed kernel: {key string: latency}."""
    import copy
    from .. import ref_graph as RG

    kernel = inst.kernel
    n = len(kernel)
    shift = max(f.line_number for f in kernel) + 1
    k2 = list(kernel)
    for f in kernel:
        c = copy.copy(f)
        c.line_number += shift
        k2.append(c)
    g2 = inst.create_DG(k2, flags)
    idx = {f.line_number: i for i, f in enumerate(kernel)}
    for f in kernel:
        idx[f.line_number + shift] = idx[f.line_number] + n
    edges = {}
    for u, v, d in g2.edges(data=True):
        if int(u) == u and int(v) == v:
            edges[(idx[u], idx[v])] = round(float(d["latency"]), 6)
    cyc = RG.cycles_winding_one(n, edges)
    out = {}
    for members, lat in cyc.items():
        out["-".join(str(kernel[m[0]].line_number) for m in members)] = round(lat, 6)
    return out


def one_run(probes, arch, fn, timeout, R, case, reference=None, expect_complete=False):
    """Run the real CLI with the given timeout under all monitors and judge it."""
    before = set(children())
    probes.reset(timeout)
    t0 = time.time()
    aborted = None
    report = None

    def on_alarm(signum, frame):
        # bounded progress: long after the timeout, is the analysis still *searching* (path enumeration on the stack)?
        names = []
        f = frame
        while f is not None:
            names.append(f.f_code.co_name)
            f = f.f_back
        if any("simple_path" in n or "simple_edge_path" in n for n in names):
            raise SearchNotStopped("still enumerating paths %.1fs after the analysis started" % (time.time() - t0))
        if "check_for_loopcarried_dep" in names and [c for c in children() if c not in before]:
            # the parent is still inside the dependency search, waiting for worker processes that are still running
            raise SearchNotStopped("still waiting for searching worker processes %.1fs after the analysis started" % (time.time() - t0))
        raise CaseTimeout()

    # every other cut-short run of the multi-process search happens in a process that ignores SIGTERM (a job script with
    # "trap '' TERM", an application with its own shutdown handling): workers inherit that, they must be stopped all the same
    ign_term = None
    if timeout >= 0 and case.get("path") == "parallel" and not probes.virtual and (probes.term_toggle % 2 == 0):
        ign_term = signal.signal(signal.SIGTERM, signal.SIG_IGN)
        R.count("runs_with_sigterm_ignored")
    probes.term_toggle += 1
    if timeout >= 0:
        old = signal.signal(signal.SIGALRM, on_alarm)
        signal.setitimer(signal.ITIMER_REAL, (3 * timeout + ABORT_MARGIN) if not probes.virtual else 120)
    try:
        # the structured report is written in the same run (its warning list is compared with the flag as well)
        report = run_cli(["--arch", arch, "--lcd-timeout", str(timeout), "--ignore-unknown", "--yaml-out", fn + ".yaml", fn])
    except SearchNotStopped as e:
        aborted = str(e)
    except CaseTimeout:
        if timeout < 0:
            raise
        # not searching any more (post-processing of what was found): reported, not judged
        R.inconclusive += 1
        R.case()
        R.count("post_processing_exceeded_margin")
        return None
    except Exception as e:  # noqa
        R.exception(e, case)
        R.case()
        return None
    finally:
        if timeout >= 0:
            signal.setitimer(signal.ITIMER_REAL, 0)
            signal.signal(signal.SIGALRM, old)
        if ign_term is not None:
            signal.signal(signal.SIGTERM, ign_term)
    wall = time.time() - t0
    R.count("timeout:%s" % (timeout if timeout in (-1, 0, 1, 2, 120) else "virtual"))
    R.count("monitor:clock_polls", probes.clock_polls)
    time.sleep(0.3)
    left = [c for c in children() if c not in before]
    R.count("no_child_left_checked")
    if left:
        time.sleep(1.0)
        left = [c for c in children() if c not in before]
    if left:
        if not aborted:  # after an abort by the watchdog the workers are its leftovers, not the analysis'
            R.violation("worker-left-running", "%d child process(es) still alive after the analysis returned (timeout %s)" % (len(left), timeout), case)
        for c in left:
            try:
                os.kill(c, 9)
            except OSError:
                pass
    if aborted:
        for c in [c for c in children() if c not in before]:
            try:
                os.kill(c, 9)
            except OSError:
                pass
        R.violation("timeout-ignored/" + case.get("path", "?"), "timeout %ss: %s (%d paths so far) - the search does not look at the timeout"
                    % (timeout, aborted, probes.paths), case)
        R.case(digest([case.get("kernel_id"), timeout]), nontrivial=True)
        return None
    inst = probes.instances[-1] if probes.instances else None
    if inst is None:
        R.violation("no-kerneldg-created", "CLI did not create a KernelDG", case)
        return None
    warned = WARN in report
    kills = [e for e in probes.events if e[0] == "kill"]
    starts = [e for e in probes.events if e[0] == "started"]
    joins = [e for e in probes.events if e[0] == "join"]
    R.count("path:parallel" if starts else "path:sequential")
    R.count("workers_killed", len(kills))
    R.observe("kill_points", "%d of %d workers killed" % (len(kills), len(starts)))
    if starts and len(set(j[1] for j in joins)) < len(set(s[1] for s in starts)):
        R.violation("worker-not-joined", "%d workers started, %d joined" % (len(starts), len(set(j[1] for j in joins))), case)
    # bounded overhead, decided on what the waiting parent asks for (not on how long this machine took): while workers are searching,
    # no pause may be requested that ends more than a second after the deadline counted from the start of the last worker
    if starts and timeout >= 0 and not probes.virtual:
        t_go = max(e[2] for e in starts)
        R.count("parent_pauses_checked", sum(1 for e in probes.events if e[0] == "sleep"))
        late = [(round(e[2] - t_go, 2), e[1]) for e in probes.events if e[0] == "sleep" and e[2] + e[1] > t_go + timeout + 1.0]
        if late:
            R.violation("overshoot/pause-ends-after-the-deadline", "timeout %ss: %.2fs after the workers started the parent asks for a pause of %.2fs (%d such pauses)"
                        % (timeout, late[0][0], late[0][1], len(late)), case)
    if bool(inst.timed_out) != warned:
        R.violation("warning/flag-and-report-disagree", "timed_out=%s but the report %s the time-out warning" % (inst.timed_out, "shows" if warned else "does not show"), case)
    try:
        with open(fn + ".yaml") as fh:
            ytext = fh.read()
        os.unlink(fn + ".yaml")
    except OSError:
        ytext = None
    if ytext and "Warnings" in ytext:
        R.count("structured_report_compared")
        if bool(inst.timed_out) != ("LCDWarning" in ytext):
            R.violation("warning/flag-and-structured-report-disagree", "timed_out=%s but the structured report (--yaml-out) %s LCDWarning"
                        % (inst.timed_out, "lists" if "LCDWarning" in ytext else "does not list"), case)
    cut = bool(kills)
    if kills and not inst.timed_out:
        R.violation("warning/missing-after-kill", "%d workers were killed but timed_out is not set" % len(kills), case)
    if inst.timed_out:
        R.count("cut_short")
        if timeout < 0:
            R.violation("warning/with-timeout--1", "timed_out set although the timeout is -1", case)
        elif probes.clock_polls >= 2 and probes.last_clock - probes.first_clock <= timeout and not kills:
            # benign only if the module's own clock had passed the timeout at its last poll
            R.violation("warning/spurious", "timed_out set although the module's clock had only advanced %.3fs of %ss"
                        % (probes.last_clock - probes.first_clock, timeout), case)
    else:
        R.count("completed")
    ncyc = verify_cycles(inst, R, case)
    view = tp_cp_view(report)
    if reference is not None:
        R.count("tp_cp_compared")
        if view != reference["view"]:
            diff = [(a, b) for a, b in zip(view, reference["view"]) if a != b][:2]
            R.violation("throughput-or-cp-changed", "port pressure / CP part of the report differs from the untimed analysis: %s" % (diff,), case)
        if reference.get("lcd") is not None:
            mine = {k: round(float(v["latency"]), 6) for k, v in inst.loopcarried_deps.items()}
            if not inst.timed_out and mine != reference["lcd"]:
                R.violation("incomplete-without-warning", "no warning, but %d cycles reported where the untimed search finds %d" % (len(mine), len(reference["lcd"])), case)
            if any(k not in reference["lcd"] or abs(reference["lcd"][k] - v) > 1e-6 for k, v in mine.items()):
                R.violation("reported-cycle-not-in-untimed-result", "a reported cycle is not part of the untimed result", case)
    if expect_complete and inst.timed_out:
        R.violation("warning/with-generous-timeout", "search reported as timed out with timeout %s" % timeout, case)
    if expect_complete and not inst.timed_out:
        try:
            with time_limit(60):
                own = own_cycles(inst)
        except (CaseTimeout, OverflowError):
            own = None
        if own is not None:
            R.count("completeness_checked_by_own_enumeration")
            mine = {k: round(float(v["latency"]), 6) for k, v in inst.loopcarried_deps.items()}
            lost = sorted(set(own) - set(mine))
            if lost:
                R.violation("incomplete-without-warning/%s" % case.get("path", "?"), "timeout %s, no warning, but the cycles %s of the kernel are not reported (%d reported, %d exist)"
                            % (timeout, lost[:4], len(mine), len(own)), case)
    R.observe("post_processing_s", int(max(0.0, (t0 + wall) - (probes.last_path or t0))))
    R.case(digest([case.get("kernel_id"), timeout]), nontrivial=(inst.timed_out or ncyc >= 2))
    return {"view": view, "lcd": {k: round(float(v["latency"]), 6) for k, v in inst.loopcarried_deps.items()}, "timed_out": inst.timed_out, "wall": wall,
            "paths": probes.paths}


def stub_reference(probes, arch, fn, R, case):
    """Throughput and critical path of the untimed analysis without paying for the LCD search: the search itself is stubbed."""
    from osaca.semantics import kernel_dg

    orig = kernel_dg.KernelDG.check_for_loopcarried_dep
    kernel_dg.KernelDG.check_for_loopcarried_dep = lambda self, *a, **k: {}
    try:
        probes.reset(-1)
        report = run_cli(["--arch", arch, "--lcd-timeout", "-1", "--ignore-unknown", fn])
    finally:
        kernel_dg.KernelDG.check_for_loopcarried_dep = orig
    return {"view": tp_cp_view(report), "lcd": None}


def dense_lines(rng, isa, n):
    """Recurrence kernel: every instruction reads the two previous results -> Fibonacci-many dependency paths."""
    lines = []
    if isa == "x86":
        regs = ["%%ymm%d" % i for i in range(16)]
        for i in range(n):
            a, b, c = regs[(i - 1) % 16], regs[(i - 2) % 16], regs[i % 16]
            lines.append("%s %s, %s, %s" % (rng.choice(["vaddpd", "vmulpd"]), a, b, c))
    else:
        regs = ["d%d" % i for i in range(24)]
        for i in range(n):
            a, b, c = regs[(i - 1) % 24], regs[(i - 2) % 24], regs[i % 24]
            lines.append("%s %s, %s, %s" % (rng.choice(["fadd", "fmul"]), c, a, b))
    return lines


def run_dense(spec, R, probes, d):
    rng = random.Random(spec["seed"])
    isa = spec["isa"]
    arch = "zen2" if isa == "x86" else "tx2"
    for c in range(spec["cases"]):
        n = rng.choice([16, 20, 28, 36, 45]) if spec["below"] else rng.choice([50, 56, 64])
        if isa == "x86" and n % 16 in (0, 1):
            n += 2
        lines = dense_lines(rng, isa, n)
        fn = os.path.join(d, "dense%d.s" % c)
        open(fn, "w").write("\n".join(lines) + "\n")
        kid = "dense-%s-%d" % (isa, n)
        base = {"kind": "dense", "isa": isa, "arch": arch, "lines": n, "kernel_id": kid, "path": "sequential" if n < 50 else "parallel", "kernel": "\n".join(lines)}
        ref = stub_reference(probes, arch, fn, R, base)
        for t in ([0, 1, 2] if spec.get("tier") == "thorough" else [rng.choice([0, 1, 2])]):
            one_run(probes, arch, fn, t, R, dict(base, timeout=t), reference=ref)
        R.sample({"kind": "dense", "isa": isa, "lines": n, "first_lines": lines[:3]}, limit=2)


def run_longlcd(spec, R, probes, d):
    fn = os.path.join(isolate.repo(), "tests", "test_files", "kernel_x86_long_LCD.s")
    base = {"kind": "longlcd", "arch": "icx", "kernel_id": "long_LCD", "path": "parallel", "file": fn}
    arch = "icx"
    ref = stub_reference(probes, arch, fn, R, base)
    for t in spec["timeouts"]:
        r = one_run(probes, arch, fn, t, R, dict(base, timeout=t), reference=ref)
        if r:
            R.sample({"kind": "longlcd", "timeout": t, "timed_out": r["timed_out"], "cycles_reported": len(r["lcd"]), "paths_seen_in_parent": r["paths"],
                      "wall_s": round(r["wall"], 1)}, limit=3)


def run_ordinary(spec, R, probes, d):
    """Kernels whose search finishes quickly: timeout -1 and a generous one give the complete result without warning; small
    timeouts may or may not cut the search, but whatever is reported is part of the untimed result."""
    rng = random.Random(spec["seed"])
    isa = spec["isa"]
    arch = rng.choice(["zen2", "spr", "zen1"]) if isa == "x86" else rng.choice(["tx2", "n1", "v2"])
    vocab = D.curated_vocab(isa)
    for c in range(spec["cases"]):
        krng = random.Random(rng.getrandbits(48))
        n = krng.choice([6, 10, 14, 52, 60])
        # long kernels must stay sparse enough for the complete (-1) search to be feasible
        pool = D.Pool(krng, isa, ng=3, nv=3) if n < 50 else D.Pool(krng, isa, ng=12, nv=14)
        lines = [D.instantiate_curated(krng, isa, krng.choice(vocab), pool)["text"] for _ in range(n)]
        # loops end with pointer and counter updates: self-dependent instructions on the last lines
        lines += (["addq $64, %rax", "subq $1, %rcx"] if isa == "x86" else ["add x1, x1, #64", "sub x2, x2, #1"])
        n = len(lines)
        fn = os.path.join(d, "ord%d.s" % c)
        open(fn, "w").write("\n".join(lines) + "\n")
        kid = digest(lines)
        base = {"kind": "ordinary", "isa": isa, "arch": arch, "lines": n, "kernel_id": kid, "path": "sequential" if n < 50 else "parallel", "kernel": "\n".join(lines)}
        if c % 2 == 1:
            # the very first analysis of this kernel in the process is one that is cut short at once; the untimed one that
            # follows must be complete all the same (judged by the own enumeration)
            one_run(probes, arch, fn, 0, R, dict(base, timeout=0, step="cut-short-first"))
            R.count("untimed_after_cut_short")
        try:
            with time_limit(90):
                full = one_run(probes, arch, fn, -1, R, dict(base, timeout=-1), expect_complete=True)
        except CaseTimeout:
            # outer watchdog: the untimed search of this kernel is not feasible here -> inconclusive, never a verdict
            R.inconclusive += 1
            R.case()
            for c_ in children():
                try:
                    os.kill(c_, 9)
                except OSError:
                    pass
            continue
        if not full:
            continue
        one_run(probes, arch, fn, 120, R, dict(base, timeout=120), reference=full, expect_complete=True)
        one_run(probes, arch, fn, krng.choice([0, 1, 2]), R, dict(base, timeout="small"), reference=full)
        # and once more after the timed runs
        one_run(probes, arch, fn, -1, R, dict(base, timeout=-1, step="after-timed-runs"), reference=full, expect_complete=True)


def run_virtual(spec, R, probes, d):
    """In-process search under a virtual clock (one tick per look at the clock): the timeout is made to strike at sampled logical
    steps over the whole search, in particular inside the search of the last instructions. Whatever is cut short must be flagged."""
    rng = random.Random(spec["seed"])
    isa = spec["isa"]
    arch = rng.choice(["zen2", "zen1"]) if isa == "x86" else rng.choice(["tx2", "n1"])
    vocab = D.curated_vocab(isa)
    for c in range(spec["cases"]):
        krng = random.Random(rng.getrandbits(48))
        pool = D.Pool(krng, isa, ng=3, nv=3)
        n = krng.choice([6, 9, 12, 16])
        lines = [D.instantiate_curated(krng, isa, krng.choice(vocab), pool)["text"] for _ in range(n)]
        lines += (["addq $64, %rax", "subq $1, %rcx"] if isa == "x86" else ["add x1, x1, #64", "sub x2, x2, #1"])
        fn = os.path.join(d, "virt%d.s" % c)
        open(fn, "w").write("\n".join(lines) + "\n")
        base = {"kind": "virtual", "isa": isa, "arch": arch, "lines": len(lines), "kernel_id": digest(lines), "path": "sequential", "kernel": "\n".join(lines)}
        try:
            with time_limit(90):
                full = one_run(probes, arch, fn, -1, R, dict(base, timeout=-1), expect_complete=True)
        except CaseTimeout:
            R.inconclusive += 1
            R.case()
            continue
        if not full:
            continue
        # how many looks at the clock does the complete search take?
        probes.virtual = True
        try:
            big = 10 ** 9
            r0 = one_run(probes, arch, fn, big, R, dict(base, timeout="virtual-generous"), reference=full, expect_complete=True)
            polls = probes.clock_polls
            if not r0 or polls < 3:
                continue
            strikes = sorted(set([1, 2, polls - 1, polls - 2, polls - 3, polls - 5] + [krng.randrange(1, polls) for _ in range(10)]))
            for t in [x for x in strikes if 0 < x < polls]:
                r = one_run(probes, arch, fn, t, R, dict(base, timeout=t, virtual=True), reference=full)
                R.count("virtual_strikes")
                R.observe("virtual_strike_fraction", "%d%%" % (100 * t // polls // 10 * 10))
        finally:
            probes.virtual = False


def run_shard(spec, R):
    probes = Probes()
    try:
        with gen_model.ScratchDir("c19") as d:
            {"dense": run_dense, "longlcd": run_longlcd, "ordinary": run_ordinary, "virtual": run_virtual}[spec["kind"]](spec, R, probes, d)
    finally:
        probes.close()


def replay(case, R):
    probes = Probes()
    try:
        with gen_model.ScratchDir("c19r") as d:
            if case["kind"] == "longlcd":
                fn = case["file"]
            else:
                fn = os.path.join(d, "k.s")
                open(fn, "w").write(case["kernel"] + "\n")
            t = case.get("timeout", 1)
            t = 1 if t == "small" else t
            ref = stub_reference(probes, case["arch"], fn, R, case)
            one_run(probes, case["arch"], fn, t, R, case, reference=ref)
    finally:
        probes.close()
