"""C09 x86 AT&T parser recovers every line and operand exactly as written.

Monitor: the results of the real ``ParserX86ATT().parse_line`` / ``parse_file``.  Oracle: the AST every line was rendered
from (``vf/asmgen.py``): one result per non-blank line, 1-based file line number, verbatim text, exactly one of
comment / label / directive / instruction, mnemonic and operands field by field, trailing comment.
"""
from .. import asmgen

ISA = "x86"
LEVEL = "exploration"
NEEDS_MODELS = False
RULE = (
    "random instruction ASTs (0-4 operands: registers of all GPR widths incl. ah..dh and the rbp/rsp families, xmm/ymm/zmm0-31; "
    "$immediates decimal/hex, negative, up to 64 bit; $symbol; bare identifier as first operand; memory references with all "
    "base/index/displacement combinations, scale omitted/1/2/4/8, decimal/hex/negative/symbolic displacement) rendered with "
    "random layout (leading blanks/tabs, separator spacing, blanks inside parentheses, trailing blanks, trailing '#' or '//' "
    "comment), parsed by parse_line; files of 3-40 such lines interleaved with empty and whitespace-only lines, '#'/'//' comment "
    "lines, symbol and numeric labels, directives, parsed by parse_file. Non-trivial line: >= 2 operands incl. a memory operand or "
    "a hexadecimal immediate; distinct = distinct (operand-tag tuple x layout class [lead, separator style, tail, inner blanks]). "
    "Non-trivial file: has a blank line before a later line and a non-trivial instruction; distinct by its line-kind sequence."
)
ASSUMPTIONS = [
    "displacement-only memory operands are generated non-negative and never as first operand (a bare number there is a numeric label in AT&T syntax)",
    "hexadecimal numbers are written with a lower-case '0x' prefix (digits in either case), decimals without leading zeros",
    "identifiers/labels use [A-Za-z_.][A-Za-z0-9_.$]*; no relocations (@PLT), no '*' indirection, no segment overrides, no "
    "instruction prefixes (lock/rep), no {%k} masks - the statement does not speak about them",
    "a comment is recovered as its blank-separated words joined by single blanks; an empty comment may be reported as '' or None",
    "directive lines: only classification and directive name are judged, a trailing '#' comment too; parameters are don't-care",
    "register names keep the written case; parse_file is called with the default start_line",
]
SHARD_TIMEOUT = {"quick": 600, "thorough": 3600}
SIZES = {"quick": (40000, 400), "thorough": (500000, 5008)}
NSHARDS = {"quick": 16, "thorough": 64}

REQUIRED = (
    ["ops:%d" % i for i in range(5)]
    + ["reg:" + c for c in ("g64", "g32", "g16", "g8", "g8h", "xmm", "ymm", "zmm", "upper-case")]
    + ["imm:" + c for c in ("dec+", "dec-", "dec64", "hex+", "hex-", "hex64")]
    + ["id:first", "immid"]
    + ["mem:" + c for c in ("b--", "b-d", "bi-", "bid", "-i-", "-id", "--d")]
    + ["scale:" + c for c in ("omitted", "1", "2", "4", "8")]
    + ["disp:" + c for c in ("dec+", "dec-", "hex+", "hex-", "sym")]
    + ["lead:none", "lead:space", "lead:tab", "tail:none", "tail:ws", "tail:cmt#", "tail:cmt//", "tail:cmt-tight#", "inner-ws:in1"]
    + ["sep:" + s for s in ("tight", "after", "before", "both", "wide", "tab")]
    + ["line:comment/#", "line:comment///", "line:label/symbol", "line:label/numeric", "line:directive", "line:label+trailing-comment", "line:directive+trailing-comment",
       "line:directive+trailing-comment-with-comma"]
    + ["file/line:blank-empty", "file/line:blank-whitespace", "file/line:comment/#", "file/line:comment///", "file/line:label/symbol",
       "file/line:label/numeric", "file/line:directive", "file/final-newline", "file/starts-with-blank", "file/line:blank-other-whitespace", "file/mem:bid", "file/tail:cmt#"]
)


def plan(tier, seed):
    lines, files = SIZES[tier]
    n = NSHARDS[tier]
    return [{"lines": lines // n, "files": files // n} for _ in range(n)]


def floors(tier):
    lines, files = SIZES[tier]
    f = {
        "evaluations": (lines + files) // 2,
        "distinct_nontrivial": {"quick": 6000, "thorough": 80000}[tier],
        "monitor:parse_line": lines // 2,
        "monitor:parse_file": files // 2,
        "file-lines-judged": files * 6,
        "file-lines-judged-after-blank": files * 3,
        "set:operand-tags": 45,
    }
    for c in REQUIRED:
        f[c] = 1
    return f


# ----------------------------------------------------------------------------------------------------------------------
# oracle for instruction lines
# ----------------------------------------------------------------------------------------------------------------------
WANT = {"reg": "RegisterOperand", "imm": "ImmediateOperand", "immid": "IdentifierOperand", "id": "IdentifierOperand", "mem": "MemoryOperand"}


def _is_int(v):
    return isinstance(v, int) and not isinstance(v, bool)


def _cmp_regname(o, name, key, what, V):
    if type(o).__name__ != "RegisterOperand" or o.name != name:
        V.bad(key, what + ": %s, written %%%s" % (asmgen.show(o), name))


def cmp_operand(pos, e, o, follow, text, V):
    k = e["k"]
    tn = type(o).__name__
    tag = asmgen.x86_optag(e)
    ctx = "operand %d of %r" % (pos + 1, text)
    if tn != WANT[k]:
        V.bad("x86/operand-kind/%s->%s/before-%s" % (k, tn, follow), "%s: %s, written as %s" % (ctx, asmgen.show(o), tag))
        return
    if k == "reg":
        if o.name != e["name"]:
            V.bad("x86/reg.name/" + e["cls"], "%s: register name %r, written %r" % (ctx, o.name, e["name"]))
        for f in ("prefix", "shape", "lanes", "index", "predication"):
            if getattr(o, f, None) is not None:
                V.bad("x86/reg.%s/spurious" % f, "%s: %s=%r on a plain register" % (ctx, f, getattr(o, f)))
    elif k == "imm":
        if not _is_int(o.value):
            V.bad("x86/imm.type/" + e["cls"], "%s: value %r (%s) is not an int, written %s" % (ctx, o.value, type(o.value).__name__, e["txt"]))
        elif o.value != e["value"]:
            V.bad("x86/imm.value/" + e["cls"], "%s: value %r, written %s = %d" % (ctx, o.value, e["txt"], e["value"]))
    elif k in ("id", "immid"):
        if o.name != e["name"]:
            V.bad("x86/%s.name" % k, "%s: identifier %r, written %r" % (ctx, o.name, e["name"]))
    else:
        combo = tag.split("/")[0][4:]
        for f in ("base", "index"):
            got = getattr(o, f)
            if e[f] is None:
                if got is not None:
                    V.bad("x86/mem.%s/spurious/%s" % (f, combo), "%s: %s %s, none written" % (ctx, f, asmgen.show(got)))
            elif got is None:
                V.bad("x86/mem.%s/missing/%s" % (f, combo), "%s: no %s, written %%%s" % (ctx, f, e[f]))
            else:
                _cmp_regname(got, e[f], "x86/mem.%s/name/%s" % (f, combo), "%s: %s" % (ctx, f), V)
        want_scale = 1 if e["scale"] is None else e["scale"]
        if not _is_int(o.scale) or o.scale != want_scale:
            sk = "omitted" if e["scale"] is None else str(e["scale"])
            V.bad("x86/mem.scale/%s%s" % (sk, "" if e["index"] else "/no-index"), "%s: scale %r, expected %d" % (ctx, o.scale, want_scale))
        d = e["disp"]
        got = o.offset
        if d is None:
            if got is not None:
                V.bad("x86/mem.offset/spurious/" + combo, "%s: offset %s, none written" % (ctx, asmgen.show(got)))
        elif "sym" in d:
            if type(got).__name__ != "IdentifierOperand" or got.name != d["sym"]:
                V.bad("x86/mem.offset/sym", "%s: offset %s, written %s" % (ctx, asmgen.show(got), d["sym"]))
        else:
            if type(got).__name__ != "ImmediateOperand" or not _is_int(got.value) or got.value != d["value"]:
                V.bad("x86/mem.offset/%s%s" % (d["cls"], "" if combo != "d" else "/disp-only"),
                      "%s: offset %s, written %s = %d" % (ctx, asmgen.show(got), d["txt"], d["value"]))
        if o.segment_ext is not None or o.pre_indexed or o.post_indexed:
            V.bad("x86/mem.extras/spurious", "%s: %s has segment/pre/post-index attributes" % (ctx, asmgen.show(o)))


def cmp_instr(form, item, V):
    ast = item["ast"]
    text = item["text"]
    if form.mnemonic != ast["mnemonic"]:
        V.bad("x86/mnemonic", "%r: mnemonic %r, written %r" % (text, form.mnemonic, ast["mnemonic"]))
    ops = list(form.operands)
    want = ast["operands"]
    if len(ops) != len(want):
        V.bad("x86/operand-count/%s" % ("fewer" if len(ops) < len(want) else "more"),
              "%r: %d operands %s, written %d %s" % (text, len(ops), asmgen.show(ops), len(want), [asmgen.x86_optag(o) for o in want]))
        return
    for i, (e, o) in enumerate(zip(want, ops)):
        cmp_operand(i, e, o, item["follow"][i], text, V)


def run_shard(spec, R):
    from osaca.parser import ParserX86ATT

    asmgen.run_roundtrip(ISA, ParserX86ATT(), spec, R, cmp_instr)


def replay(case, R):
    from osaca.parser import ParserX86ATT

    asmgen.replay_roundtrip(ISA, ParserX86ATT(), case, R, cmp_instr)
