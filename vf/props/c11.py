"""C11 Kernel selection is exact and non-instruction lines are transparent.

Three monitors on the real code:
 (a) ``reduce_to_section(parser.parse_file(text), isa)`` on generated files prologue + start marker + body + end marker +
     epilogue (every marker style, decoy look-alikes everywhere); oracle: the generator's own body line numbers.
     A sample of the files is also run through the real ``inspect()`` and the kernel handed to the frontend is compared.
 (b) ``osaca.osaca.get_line_range`` on random ``--lines`` strings (oracle: set semantics written here) and the kernel that
     ``inspect()`` analyses with ``--lines``.
 (c) metamorphic: for shipped marked kernels, ``inspect()`` of the marked file, of the same file with ``--lines`` naming
     the marked lines, of a file holding only those lines, and of the kernel with comment / label / directive / blank
     lines inserted must yield the same analysis (aligned by instruction order).  The analysis is *observed* where the
     report is built (wrappers on ``Frontend.full_analysis`` and ``KernelDG.get_critical_path``), not re-computed.
"""
import io
import os
import random
import re
import subprocess

from .. import isolate
from ..common import CaseTimeout, digest, in_osaca, time_limit

LEVEL = "exploration"
RULE = (
    "(a) random files = prologue + start marker + body + end marker + epilogue: styles x86 {movl|mov $111,%ebx + .byte "
    "100,103,144 on 1/2/3 lines, #/'//' OSACA-BEGIN..END, none}, AArch64 {mov x1,#111 + .byte 213,3,32,31 on 1/2/4 lines, "
    "// OSACA-BEGIN..END, none}; decoys (other value, other register + NOP bytes; right mov without bytes or with other/fewer bytes) in all three "
    "parts; a third of the x86 files are integer-only code with hexadecimal literals (no register the ISA guess recognises), a sample "
    "of all files goes through inspect() with --arch; non-trivial = file has a marker and (a decoy or a non-instruction line in the body); (b) random --lines "
    "strings of 1-6 items a | a-b | a:b; (c) shipped marked kernel x model x {fixed,optimal}: 4 variants; non-trivial = "
    ">=1 noise line inserted and kernel has a CP; distinct = digest of file text / string / (file, model, noise seed)"
)
ASSUMPTIONS = [
    "one start and one end marker per file, start before end, both of the same style; a .byte line never directly "
    "follows a start marker's bytes; the bytes-less decoy is never followed (ignoring blank lines) by a .byte line; a "
    "wrong-bytes decoy never has the NOP bytes as a prefix of its byte sequence (NOP bytes + more bytes: not generated)",
    "hexadecimal marker bytes and marker comments with extra text are outside the statement (not generated); 'mov w1, #111' counts as "
    "a look-alike that uses another register (the marker is written with x1)",
    "blank lines are not lines of the kernel (the parser drops them); expected selections list non-blank lines only",
    "--lines strings: ascending ranges, no spaces; the analysed kernel = parsed lines whose number is named, in file order",
    "metamorphic comparison tolerance 1e-9 on every number; instructions aligned by order; LCDs compared as a set of "
    "(latency, multiset of (instruction index, latency)); CP as membership + per-line latency_cp",
    "kernel_x86_long_LCD.s (190 lines, LCD enumeration takes minutes) is excluded here - it is C19's workload",
    "noise keeps every line number < 1000 (the >=1000 IndexError in check_for_loopcarried_dep belongs to C05)",
    "a variant whose LCD search timed out (--lcd-timeout 30) or exceeded the 180 s watchdog makes the case inconclusive",
]
SHARD_TIMEOUT = {"quick": 420, "thorough": 3000}
QUICK_MODELS = {"x86": ["zen1", "zen2", "spr"], "aarch64": ["tx2", "n1", "v2"]}

FILL = {
    "x86": ["vaddpd %xmm1, %xmm2, %xmm3", "addq $8, %rax", "movl $111, %ecx", "cmpq %rbx, %rax", "jne .L1",
            "vmovupd (%rax,%rcx,8), %ymm0", "movl %ebx, %eax", "movl $5, %ebx", "vmulsd %xmm3, %xmm0, %xmm0",
            "movq $222, %rbx", "incq %rcx", "vmovsd %xmm0, 8(%rax)"],
    "aarch64": ["fadd v0.2d, v1.2d, v2.2d", "add x0, x0, #8", "ldr q1, [x2, x3]", "mov x1, x2", "mov x3, #111",
                "cmp x1, x2", "bne .L1", "str d0, [x4, 8]!", "fmul d0, d0, d4", "mov x5, #222", "ldr d3, [x6]"],
}
# integer-only x86 code with hexadecimal literals and names like 'idx2': nothing in it that the ISA guess from register names
# (used when no --arch is given) recognises as x86; with --arch the file must be treated as x86 all the same
FILL_INT = ["addq $8, %rax", "movl $0x6f, %edx", "andl $0x1f, %ecx", "cmpq %rbx, %rax", "jne .L1", "movl %ebx, %eax", "incq %rcx",
            "movq 0x10(%rsp), %r9", "leaq (%rax,%rcx,8), %r8", "shlq $0x4, %rdx", "movl $111, %ecx", "movq idx2(%rip), %rsi", "movq $222, %rbx"]
DIRECTIVES = [".p2align 4", ".text", ".align 16", ".globl main", ".cfi_startproc", ".loc 1 23 0", ".p2align 4,,10"]


# ------------------------------------------------------------------------------------------------ (a) generator
def cmt(isa, r):
    return "#" if isa == "x86" and r.random() < 0.8 else "//"


def marker(isa, which, style, r):
    """List of text lines of a start ('s') or end ('e') marker."""
    val = 111 if which == "s" else 222
    if style.startswith("comment"):
        c = "//" if (isa == "aarch64" or style == "comment-slash") else "#"
        word = "OSACA-BEGIN" if which == "s" else "OSACA-END"
        return [r.choice(["", "    ", "\t"]) + c + r.choice([" ", "", "  "]) + word + r.choice(["", " ", "  "])]
    tail = r.choice(["", "", " %s OSACA %s MARKER" % ("#" if isa == "x86" else "//", "START" if which == "s" else "END"),
                     " %s INSERTED BY KERNCRAFT IACA MARKER UTILITY" % ("#" if isa == "x86" else "//")])
    ind = r.choice(["", "    ", "\t"])
    if isa == "x86":
        mn = "mov" if style.endswith("-mov") else "movl"
        mov = ind + r.choice(["%s $%d, %%ebx", "%s      $%d, %%ebx", "%s\t$%d, %%ebx", "%s $%d,%%ebx"]) % (mn, val) + tail
        by = ["100", "103", "144"]
    else:
        mov = ind + r.choice(["mov x1, #%d", "mov       x1, #%d", "mov\tx1, #%d", "mov x1,#%d"]) % val + tail
        by = ["213", "3", "32", "31"]
    n = style.split("-")[0]
    sep = r.choice([",", ", "])
    if n == "byte1":
        groups = [by]
    elif n == "byteN":
        groups = [[b] for b in by]
    else:  # byte2
        k = r.randrange(1, len(by))
        groups = [by[:k], by[k:]]
    return [mov] + [ind + r.choice([".byte ", ".byte     "]) + sep.join(g) + tail for g in groups]


STYLES = {
    "x86": ["byte1", "byteN", "byte2", "byte1-mov", "byteN-mov", "comment", "comment-slash", "none"],
    "aarch64": ["byte1", "byteN", "byte2", "comment", "none"],
}


DECOY_KINDS = ["other-reg", "other-val", "other-reg-end", "other-val-end", "no-bytes", "no-bytes-end", "wrong-bytes",
               "wrong-bytes-end", "trailing-comment", "trailing-comment-end"]


def decoy(isa, r):
    """(kind, lines).  Either the mov differs and the NOP bytes are the genuine ones, or the mov is the genuine one and
    the bytes are missing / are other bytes (same count or fewer, never the NOP bytes plus more)."""
    k = r.choice(DECOY_KINDS)
    if k.startswith("trailing-comment"):
        # an ordinary instruction whose trailing comment reads like a comment marker: a marker is a comment line of its own
        return k, ["%s   %s %s" % (r.choice(FILL[isa]), cmt(isa, r), "OSACA-END" if k.endswith("end") else "OSACA-BEGIN")]
    if isa == "x86":
        good = ["100", "103", "144"]
        mov = {"other-reg": "movl $111, %eax", "other-val": "movl $112, %ebx", "other-reg-end": "movl $222, %ecx",
               "other-val-end": "movl $223, %ebx", "no-bytes": "movl $111,%ebx", "no-bytes-end": "movl $222, %ebx",
               "wrong-bytes": "movl $111, %ebx", "wrong-bytes-end": "movl $222, %ebx"}[k]
    else:
        good = ["213", "3", "32", "31"]
        # "another register" includes the 32-bit name w1 (the marker is written with x1)
        mov = {"other-reg": r.choice(["mov x2, #111", "mov w1, #111", "mov x11, #111"]), "other-val": "mov x1, #112",
               "other-reg-end": r.choice(["mov x3, #222", "mov w1, #222"]),
               "other-val-end": "mov x1, #221", "no-bytes": "mov x1, #111", "no-bytes-end": "mov x1, #222",
               "wrong-bytes": "mov x1, #111", "wrong-bytes-end": "mov x1, #222"}[k]
    if k.startswith("no-bytes"):
        # followed by something that is not a .byte line (an instruction, a directive, a label or a comment)
        nxt = r.choice([r.choice(FILL[isa]), r.choice(DIRECTIVES), ".Ld%d:" % r.randrange(100), "%s after" % ("#" if isa == "x86" else "//")])
        return k, [mov, nxt]
    by = list(good)
    if k.startswith("wrong-bytes"):
        x = r.random()
        if x < 0.5:
            i = r.randrange(len(by))
            by[i] = str((int(by[i]) + r.choice([1, 2, 16, 101])) % 256)
        elif x < 0.75:
            by = by[: r.randrange(1, len(by))]
        else:
            by = by[::-1]
        tail = [r.choice(FILL[isa])]  # a non-.byte line ends the byte sequence
    else:
        tail = []
    lines = [".byte " + ",".join(by)] if r.random() < 0.5 else [".byte " + b for b in by]
    return k, [mov] + lines + tail


def part(isa, r, n, stats, fill=None):
    out = []
    for _ in range(n):
        x = r.random()
        if x < 0.45:
            out.append(r.choice(fill or FILL[isa]))
        elif x < 0.55:
            out.append(".L%d:" % r.randrange(1000))
            stats["nonins"] += 1
        elif x < 0.65:
            out.append(r.choice(DIRECTIVES))
            stats["nonins"] += 1
        elif x < 0.75:
            out.append("%s some comment %d" % (cmt(isa, r), r.randrange(100)))
            stats["nonins"] += 1
        elif x < 0.83:
            # an empty line, sometimes a page break (^L) or another white-space character that some line-splitting routines
            # take for a line boundary: still one blank line of the file
            out.append("" if r.random() < 0.8 else r.choice(["\x0c", "\x0c", "\x0b", "\x1c", "\x85", "\u2028"]))
            if out[-1]:
                stats["formfeed"] = stats.get("formfeed", 0) + 1
        else:
            k, ls = decoy(isa, r)
            stats["decoys"].append(k)
            out.extend(ls)
    return out


def gen_file(isa, r):
    style = r.choice(STYLES[isa])
    st = {"nonins": 0, "decoys": []}
    fill = FILL_INT if isa == "x86" and r.random() < 0.3 else None
    pro = part(isa, r, r.randrange(0, 9), st, fill)
    body_stats = {"nonins": 0, "decoys": []}
    body = part(isa, r, r.randrange(0, 14), body_stats, fill)
    epi = part(isa, r, r.randrange(0, 9), st, fill)
    if style == "none":
        lines = pro + body + epi
        exp = [i + 1 for i, l in enumerate(lines) if l.strip()]
        s, e = [], []
    else:
        s, e = marker(isa, "s", style, r), marker(isa, "e", style, r)
        lines = pro + s + body + e + epi
        off = len(pro) + len(s)
        exp = [off + i + 1 for i, l in enumerate(body) if l.strip()]
    return {
        "isa": isa, "style": style, "integer_only": fill is not None, "text": "\n".join(lines) + r.choice(["\n", ""]), "expected": exp,
        "decoys": sorted(set(st["decoys"] + body_stats["decoys"])), "body_decoys": sorted(set(body_stats["decoys"])),
        "body_nonins": body_stats["nonins"], "n_body": len(exp),
        "layout": [len(pro), len(s), len(body), len(e), len(epi)],
    }


def _off(d):
    return "=" if d == 0 else ("%+d" % d if abs(d) <= 3 else ("+far" if d > 0 else "-far"))


def classify_selection(got, exp, layout):
    """Mechanism key for a wrong selection: offset of the first / last selected line, small offsets literally."""
    if not exp and got:
        return "extra-lines-for-empty-body"
    if got and exp:
        a, b = _off(got[0] - exp[0]), _off(got[-1] - exp[-1])
        if a == "=" and b == "=":
            return "inner-lines-differ"
        return "start%s/end%s" % (a, b)
    return "nothing-selected"


def classify_named(got, exp):
    """Mechanism key for a wrong --lines selection."""
    g, e = set(got), set(exp)
    if g < e:
        return "named-lines-missing"
    if g > e:
        return "unnamed-lines-analysed"
    if len(got) != len(set(got)):
        return "line-analysed-twice"
    return "other-lines-analysed"


# ------------------------------------------------------------------------------------------------ drivers / monitors
class _Cap:
    installed = False
    last = {}
    counts = {}


def _install():
    import osaca.osaca as oo

    if _Cap.installed:
        return
    F = oo.Frontend
    orig_fa = F.full_analysis
    orig_cp = oo.KernelDG.get_critical_path

    def full_analysis(self, kernel, kernel_dg, *a, **kw):
        _Cap.last["kernel"] = kernel
        _Cap.last["graph"] = kernel_dg
        _Cap.counts["full_analysis"] = _Cap.counts.get("full_analysis", 0) + 1
        return orig_fa(self, kernel, kernel_dg, *a, **kw)

    def get_critical_path(self):
        cp = orig_cp(self)
        _Cap.last["cp"] = [f.line_number for f in cp]
        _Cap.last["cp_lat"] = [f.latency_cp for f in cp]
        _Cap.counts["get_critical_path"] = _Cap.counts.get("get_critical_path", 0) + 1
        return cp

    F.full_analysis = full_analysis
    oo.KernelDG.get_critical_path = get_critical_path
    _Cap.installed = True


def run_inspect(path, arch, lines=None, fixed=False):
    """Runs the real CLI path in-process; returns the snapshot observed where the report is built."""
    import osaca.osaca as oo

    _install()
    _Cap.last.clear()
    argv = (["--arch", arch] if arch else []) + ["--lcd-timeout", "30"]
    if fixed:
        argv.append("--fixed")
    if lines:
        argv += ["--lines", lines]
    argv.append(path)
    parser = oo.create_parser()
    args = parser.parse_args(argv)
    oo.check_arguments(args, parser)
    out = io.StringIO()
    try:
        oo.run(args, output_file=out)
    finally:
        args.file.close()
    if "kernel" not in _Cap.last or "cp" not in _Cap.last:
        raise RuntimeError("harness: monitors saw no full_analysis / get_critical_path call")
    return snapshot(_Cap.last["kernel"], _Cap.last["graph"], _Cap.last["cp"], _Cap.last["cp_lat"], report=out.getvalue())


def rnd(x):
    return None if x is None else round(float(x), 9)


def snapshot(kernel, graph, cp, cp_lat, report=None):
    ins = [f for f in kernel if f.mnemonic is not None]
    lcd_cells = None
    if report is not None:
        from .. import report_parse

        rep = report_parse.parse_report(report)
        if not rep["problems"] and not any(row["problems"] for row in rep["rows"]):
            lcd_cells = {row["line_number"]: row["lcd"] for row in rep["rows"]}
    idx = {f.line_number: i for i, f in enumerate(ins)}
    cpl = dict(zip(cp, cp_lat))
    per = []
    for f in ins:
        per.append({
            "text": re.sub(r"\s+", " ", f.line.strip()),
            "port_pressure": [rnd(p) for p in f.port_pressure],
            "throughput": rnd(f.throughput),
            "latency": rnd(f.latency),
            "latency_wo_load": rnd(f.latency_wo_load),
            "flags": sorted(set(f.flags)),
            "cp": rnd(cpl[f.line_number]) if f.line_number in cpl else None,
            # LCD column of the text report (which of several equally long dependencies is shown must not depend on where
            # the kernel sits in the file)
            "lcd_cell": lcd_cells.get(f.line_number, "") if lcd_cells is not None else None,
        })
    non = [f for f in kernel if f.mnemonic is None]
    non_dirty = [f.line_number for f in non if any(float(p) != 0.0 for p in f.port_pressure) or f.latency or f.throughput
                 or (f.line_number in cpl and cpl[f.line_number])]
    lcds = []
    for v in graph.loopcarried_deps.values():
        mem = sorted((idx.get(n.line_number, "non-instruction:" + n.line.strip()), rnd(lat)) for n, lat in v["dependencies"])
        lcds.append([rnd(v["latency"]), [list(m) for m in mem]])
    lcds.sort(key=lambda x: repr(x))
    nports = len(ins[0].port_pressure) if ins else 0
    summ = {
        "pressure": [rnd(sum(f.port_pressure[i] for f in kernel)) for i in range(nports)],
        "cp_total": rnd(sum(cp_lat)),
        "max_lcd": max([x[0] for x in lcds] or [0.0]),
    }
    return {
        "lines": [f.line_number for f in kernel], "n_instr": len(ins), "per": per, "lcds": lcds, "summary": summ,
        "non_dirty": non_dirty, "timed_out": bool(graph.timed_out), "klen": len(kernel),
    }


def compare(a, b):
    """First differing field between two snapshots (None if equal), with a short description."""
    if a["n_instr"] != b["n_instr"]:
        return "instruction-count", "%d vs %d instructions" % (a["n_instr"], b["n_instr"])
    fields = ["text", "port_pressure", "throughput", "latency", "latency_wo_load", "flags", "cp"]
    if a["summary"]["cp_total"] == 0.0 and b["summary"]["cp_total"] == 0.0:
        # degenerate: no instruction has a latency; which zero-latency line is called "the path" is DON'T-CARE
        fields.remove("cp")
    if all(x["lcd_cell"] is not None for x in a["per"] + b["per"]):
        fields.append("lcd_cell")
    for i, (x, y) in enumerate(zip(a["per"], b["per"])):
        for f in fields:
            if x[f] != y[f]:
                return f, "instruction #%d %r: %s %r vs %r" % (i, x["text"], f, x[f], y[f])
    if a["lcds"] != b["lcds"]:
        da = [l for l in a["lcds"] if l not in b["lcds"]]
        db = [l for l in b["lcds"] if l not in a["lcds"]]
        return "lcd", "LCD sets differ: only in first %s, only in second %s" % (str(da)[:150], str(db)[:150])
    if a["summary"] != b["summary"]:
        return "summary", "%r vs %r" % (a["summary"], b["summary"])
    return None


# ------------------------------------------------------------------------------------------------ corpus for (c)
def marked_corpus(isa):
    repo = isolate.repo()
    out = []
    for d in sorted(os.listdir(os.path.join(repo, "examples"))):
        p = os.path.join(repo, "examples", d)
        if os.path.isdir(p):
            for f in sorted(os.listdir(p)):
                if f.endswith(".s") and (isa == "aarch64") == (".tx2." in f):
                    out.append(os.path.join(p, f))
    tf = os.path.join(repo, "tests", "test_files")
    names = {
        "x86": ["kernel_x86.s", "kernel_x86_memdep.s", "triad_x86_iaca.s"],
        "aarch64": ["kernel_aarch64.s", "kernel_aarch64_deps.s", "kernel_aarch64_memdep.s", "kernel_aarch64_sve.s",
                    "triad_arm_iaca.s"],
    }[isa]
    return out + [os.path.join(tf, n) for n in names if os.path.exists(os.path.join(tf, n))]


def lines_string(nums, r):
    """A --lines string naming exactly the line numbers ``nums`` (sorted ints), in random item order and notation."""
    runs, i = [], 0
    while i < len(nums):
        j = i
        while j + 1 < len(nums) and nums[j + 1] == nums[j] + 1:
            j += 1
        runs.append((nums[i], nums[j]))
        i = j + 1
    items = []
    for a, b in runs:
        while a <= b:
            k = r.choice([0, 0, 1, 2, 5, b - a])
            e = min(b, a + k)
            if e == a:
                items.append("%d" % a)
            else:
                items.append(("%d-%d" if r.random() < 0.5 else "%d:%d") % (a, e))
            a = e + 1
    r.shuffle(items)
    return ",".join(items)


def noise_lines(isa, r, k):
    x = r.random()
    if x < 0.3:
        return "%s verif noise %d" % ("#" if isa == "x86" else "//", k)
    if x < 0.55:
        return ".LVFNOISE%d:" % k
    if x < 0.8:
        return r.choice([".p2align 4", ".align 16", ".loc 1 %d 0" % (k + 1), ".p2align 4,,10", ".cfi_def_cfa_offset 16"])
    return r.choice(["", "   ", "\t"])


# ------------------------------------------------------------------------------------------------ checks
def check_select(c, R, workdir=None, e2e=False):
    from osaca.parser import get_parser
    from osaca.semantics import reduce_to_section

    isa = c["isa"]
    ident = digest([c["text"], isa])
    nontrivial = c["style"] != "none" and bool(c["decoys"] or c["body_nonins"])
    try:
        parsed = get_parser(isa).parse_file(c["text"])
        got = [f.line_number for f in reduce_to_section(parsed, isa)]
    except Exception as e:  # noqa
        if not in_osaca(e):
            raise
        R.case(ident, nontrivial)
        R.exception(e, c, prefix="select/")
        return
    R.case(ident, nontrivial)
    R.count("monitor:reduce_to_section")
    R.count("style:%s:%s" % (isa, c["style"]))
    for d in c["decoys"]:
        R.count("decoy:" + d)
    for d in c["body_decoys"]:
        R.count("decoy_in_body:" + d)
    if not c["expected"]:
        R.count("empty_body")
    if got != c["expected"]:
        R.violation("select/%s/%s" % ("marked" if c["style"] != "none" else "unmarked", classify_selection(got, c["expected"], c["layout"])),
                    "%s style %s: selected lines %s, lines strictly between the markers %s" % (isa, c["style"], got[:40], c["expected"][:40]), c)
        return
    R.sample({"isa": isa, "style": c["style"], "decoys": c["decoys"], "selected": got[:12], "text": c["text"][:300]})
    if e2e and any(l.strip() and not re.match(r"^\s*(#|//|\.|\w+:)", l) for l in [c["text"].split("\n")[i - 1] for i in c["expected"]]):
        arch = c.get("arch") or "zen2"
        path = os.path.join(workdir, "sel-%s.s" % ident)
        with open(path, "w") as f:
            f.write(c["text"])
        try:
            with time_limit(120):
                snap = run_inspect(path, arch)
        except CaseTimeout:
            R.inconclusive += 1
            return
        except Exception as e:  # noqa
            if not in_osaca(e):
                raise
            R.exception(e, c, prefix="inspect/")
            return
        finally:
            os.unlink(path)
        R.count("monitor:inspect_selection")
        if c.get("integer_only") and c["style"] != "none":
            R.count("inspect_marked_integer_only_x86")
            # the same file without --arch: the ISA guessed from the text is wrong for such code, the analysis falls back to the
            # other ISA's parser - the selection must be the same
            path2 = os.path.join(workdir, "sel2-%s.s" % ident)
            with open(path2, "w") as f:
                f.write(c["text"])
            try:
                with time_limit(120):
                    snap2 = run_inspect(path2, None)
                R.count("inspect_without_arch_integer_only_x86")
                if snap2["lines"] != c["expected"]:
                    R.violation("inspect/marked/no-arch/" + classify_selection(snap2["lines"], c["expected"], c["layout"]),
                                "inspect() without --arch analysed lines %s, lines strictly between the markers %s" % (snap2["lines"][:40], c["expected"][:40]), c)
            except CaseTimeout:
                R.inconclusive += 1
            except Exception as e:  # noqa
                if not in_osaca(e):
                    raise
                R.exception(e, c, prefix="inspect-no-arch/")
            finally:
                os.unlink(path2)
        if snap["lines"] != c["expected"]:
            R.violation("inspect/%s/%s" % ("marked" if c["style"] != "none" else "unmarked", classify_selection(snap["lines"], c["expected"], c["layout"])),
                        "inspect() analysed lines %s, lines strictly between the markers %s" % (snap["lines"][:40], c["expected"][:40]), c)


def gen_lines_case(r):
    n = r.randrange(1, 7)
    items, exp = [], set()
    for _ in range(n):
        a = r.randrange(1, 120)
        x = r.random()
        if x < 0.4:
            items.append(str(a))
            exp.add(a)
        else:
            b = a + r.choice([0, 1, 2, 3, 10, 40])
            items.append(("%d-%d" if x < 0.7 else "%d:%d") % (a, b))
            exp.update(range(a, b + 1))
    return {"kind": "lines", "s": ",".join(items), "expected": sorted(exp)}


def check_lines(c, R, workdir=None, e2e=False, r=None):
    import osaca.osaca as oo

    ident = digest(["lines", c["s"], c.get("text")])
    R.case(ident, nontrivial=("," in c["s"] and ("-" in c["s"] or ":" in c["s"])))
    try:
        got = oo.get_line_range(c["s"])
    except Exception as e:  # noqa
        if not in_osaca(e):
            raise
        R.exception(e, c, prefix="lines/")
        return
    R.count("monitor:get_line_range")
    for t in ("-", ":", ","):
        if t in c["s"]:
            R.count("lines_with:" + {"-": "dash", ":": "colon", ",": "comma"}[t])
    if set(got) != set(c["expected"]):
        g, e = set(got), set(c["expected"])
        key = "lines/range/" + ("named-lines-missing" if e - g and not g - e else "extra-lines" if g - e and not e - g else "differs")
        R.violation(key, "get_line_range(%r) names %s, set semantics give %s (missing %s extra %s)"
                    % (c["s"], sorted(g)[:30], sorted(e)[:30], sorted(e - g)[:10], sorted(g - e)[:10]), c)
        return
    if not e2e or not c.get("text"):
        return
    text = c["text"]
    flines = text.split("\n")
    exp = [i + 1 for i, l in enumerate(flines) if l.strip() and (i + 1) in set(c["expected"])]
    if not any(not re.match(r"^\s*(#|//|\.|\w+:)", flines[i - 1]) for i in exp):
        R.count("lines_e2e_skipped_no_instruction")
        return
    path = os.path.join(workdir, "lines-%s.s" % ident)
    with open(path, "w") as f:
        f.write(text)
    try:
        with time_limit(120):
            snap = run_inspect(path, c.get("arch") or "zen2", lines=c["s"])
    except CaseTimeout:
        R.inconclusive += 1
        return
    except Exception as e:  # noqa
        if not in_osaca(e):
            raise
        R.exception(e, c, prefix="inspect-lines/")
        return
    finally:
        os.unlink(path)
    R.count("monitor:inspect_lines")
    if snap["lines"] != exp:
        R.violation("inspect-lines/" + classify_named(snap["lines"], exp),
                    "--lines %s: inspect() analysed lines %s, named (non-blank) lines %s" % (c["s"], snap["lines"][:40], exp[:40]), c)


def meta_case(path, arch, seed, fixed, text=None):
    c = {"kind": "meta", "path": path, "arch": arch, "noise_seed": seed, "fixed": fixed}
    if text is not None:
        c["text"] = text  # generated file: (re-)created before the run
    return c


TWO_ACC = {
    "x86": [".L2:", "\tvaddpd\t(%rsi,%rax), %ymm0, %ymm0", "\tvaddpd\t32(%rsi,%rax), %ymm1, %ymm1", "\taddq\t$64, %rax",
            "\tcmpq\t%rdx, %rax", "\tjne\t.L2"],
    "aarch64": [".L2:", "\tfadd\tv0.2d, v0.2d, v2.2d", "\tfadd\tv1.2d, v1.2d, v3.2d", "\tadd\tx0, x0, #32", "\tcmp\tx0, x1", "\tbne\t.L2"],
}


def two_accumulator_file(isa, r):
    """A marked loop with two equally long loop-carried dependencies whose first lines straddle a change in the number of digits
    of the line number (9/10, 99/100) or not."""
    first = r.choice([9, 99, 9, 99, 8, 12, 100])  # file line of the first accumulator
    c = "#" if isa == "x86" else "//"
    pro = ["%s line %d" % (c, i + 1) for i in range(first - 3)]
    return "\n".join(pro + ["%s OSACA-BEGIN" % c] + TWO_ACC[isa] + ["%s OSACA-END" % c, "\tret"]) + "\n"


def check_meta(c, R, workdir):
    from osaca.parser import get_parser
    from osaca.semantics import reduce_to_section

    isa = isolate.isa_of(c["arch"])
    r = random.Random(c["noise_seed"])
    if c.get("text") is not None:
        c = dict(c, path=os.path.join(workdir, os.path.basename(c["path"])))
        with open(c["path"], "w") as f:
            f.write(c["text"])
        R.count("meta_generated_two_accumulator_files")
    with open(c["path"]) as f:
        text = f.read()
    flines = text.split("\n")
    ident = digest(["meta", c["path"], c["arch"], c["noise_seed"], c["fixed"]])
    # the marked lines: taken from the marked run itself (variant 0), cross-checked against an own textual scan
    paths = []

    def put(name, content):
        p = os.path.join(workdir, "%s-%s.s" % (name, ident))
        with open(p, "w") as fh:
            fh.write(content)
        paths.append(p)
        return p

    def finding(key, what):
        R.violation(key, what, c)

    snaps = {}
    try:
        try:
            with time_limit(180):
                s0 = run_inspect(c["path"], c["arch"], fixed=c["fixed"])
                snaps["marked"] = s0
                klines = s0["lines"]
                a, b = klines[0], klines[-1]
                # own scan: the markers must sit directly around [a, b]
                own = own_marked_range(flines, isa)
                if own is not None:
                    R.count("monitor:marked_range_crosscheck")
                    if own != (a, b):
                        finding("meta/marked-range", "inspect() analysed lines %d..%d, own scan of the markers gives %d..%d" % (a, b, own[0], own[1]))
                        R.case(ident)
                        return
                ls = lines_string(klines, r)
                snaps["lines"] = run_inspect(c["path"], c["arch"], lines=ls, fixed=c["fixed"])
                only = "\n".join(flines[a - 1 : b]) + "\n"
                snaps["only"] = run_inspect(put("only", only), c["arch"], fixed=c["fixed"])
                # noise inside the kernel: either in the body-only file or inside the marked file
                body = flines[a - 1 : b]
                budget = max(1, min(int(len(body) * r.choice([0.1, 0.4, 1.0])) + 1, 950 - b - 5, 300))
                inside_marked = r.random() < 0.5
                noisy = list(body)
                n_noise = 0
                for k in range(budget):
                    pos = r.randrange(0, len(noisy) + 1)
                    noisy.insert(pos, noise_lines(isa, r, k))
                    n_noise += 1
                if inside_marked:
                    ntext = "\n".join(flines[: a - 1] + noisy + flines[b:])
                else:
                    ntext = "\n".join(noisy) + "\n"
                snaps["noisy"] = run_inspect(put("noisy", ntext), c["arch"], fixed=c["fixed"])
        except CaseTimeout:
            R.inconclusive += 1
            R.case(ident)
            return
        except Exception as e:  # noqa
            if not in_osaca(e):
                raise
            R.case(ident)
            R.exception(e, c, prefix="meta/")
            return
    finally:
        for p in paths:
            if os.path.exists(p):
                os.unlink(p)
    R.count("monitor:inspect_variants", len(snaps))
    R.count("monitor:full_analysis", _Cap.counts.get("full_analysis", 0))
    R.count("monitor:get_critical_path", _Cap.counts.get("get_critical_path", 0))
    _Cap.counts.clear()
    if any(s["timed_out"] for s in snaps.values()):
        R.inconclusive += 1
        R.case(ident)
        R.count("meta_lcd_timeout")
        return
    has_cp = any(p["cp"] is not None for p in s0["per"])
    R.case(ident, nontrivial=n_noise > 0 and has_cp)
    R.count("meta:%s" % isa)
    R.count("meta_noise_lines", n_noise)
    R.count("meta_noise_inside_marked_file" if inside_marked else "meta_noise_in_body_only_file")
    if s0["lcds"]:
        R.count("meta_kernels_with_lcd")
    if s0["klen"] < 50 <= snaps["noisy"]["klen"]:
        R.count("meta_noise_crosses_parallel_threshold")
    R.observe("meta_models", c["arch"])
    R.observe("meta_files", os.path.basename(c["path"]))
    if snaps["lines"]["lines"] != s0["lines"]:
        finding("meta/lines-selection", "--lines %s analysed %s, markers %s" % (ls, snaps["lines"]["lines"][:30], s0["lines"][:30]))
    for name in ("lines", "only", "noisy"):
        d = compare(s0, snaps[name])
        if d is not None:
            finding("meta/%s-vs-marked/%s" % (name, d[0]), "%s on %s (%s): %s" % (os.path.basename(c["path"]), c["arch"],
                    "fixed" if c["fixed"] else "optimal", d[1][:300]))
    for name, s in snaps.items():
        if s["non_dirty"]:
            finding("meta/non-instruction-line-not-neutral", "variant %s: non-instruction lines %s carry pressure/latency or are on the CP" % (name, s["non_dirty"][:5]))
    R.sample({"file": os.path.basename(c["path"]), "arch": c["arch"], "fixed": c["fixed"], "marked_lines": [a, b], "--lines": ls[:60],
              "noise_lines": n_noise, "instructions": s0["n_instr"], "lcds": len(s0["lcds"]), "cp_total": s0["summary"]["cp_total"]})


def own_marked_range(flines, isa):
    """(first, last) non-blank line strictly between the markers found by a plain textual scan, None if unsure."""
    start = end = None
    n = len(flines)
    i = 0
    while i < n:
        l = flines[i]
        s = l.strip()
        if re.match(r"^(#|//)\s*OSACA-BEGIN\s*$", s):
            start = i + 1
        elif re.match(r"^(#|//)\s*OSACA-END\s*$", s):
            end = i
        elif re.match(r"^mov[l]?\s+\$(111|222)\s*,\s*%ebx\b", s) if isa == "x86" else re.match(r"^mov\s+x1\s*,\s*#?(111|222)\b", s):
            val = int(re.search(r"(111|222)", s).group(1))
            j = i + 1
            while j < n and (not flines[j].strip() or flines[j].strip().startswith(".byte")):
                j += 1
            if j > i + 1:
                if val == 111:
                    start = j
                else:
                    end = i
        i += 1
    if start is None or end is None or start >= end:
        return None
    body = [k + 1 for k in range(start, end) if flines[k].strip()]
    if not body:
        return None
    return body[0], body[-1]


# ------------------------------------------------------------------------------------------------ plan / shards
def plan(tier, seed):
    specs = []
    if tier == "quick":
        for k in range(8):
            specs.append({"part": "select", "files": 60, "strings": 60, "e2e_every": 6})
        for k in range(10):
            specs.append({"part": "meta", "triples": 5, "models": "quick"})
    else:
        for k in range(16):
            specs.append({"part": "select", "files": 640, "strings": 400, "e2e_every": 8})
        triples = []
        for isa in ("x86", "aarch64"):
            for f in marked_corpus(isa):
                for a in isolate.archs_of(isa):
                    triples.append([f, a])
        rr = random.Random(seed)
        rr.shuffle(triples)
        nsh = 32
        for k in range(nsh):
            specs.append({"part": "meta", "list": triples[k::nsh]})
    return specs


def floors(tier):
    q = tier == "quick"
    f = {
        "evaluations": 500 if q else 8000,
        "distinct_nontrivial": 150 if q else 3000,
        "monitor:reduce_to_section": 240 if q else 5000,
        "monitor:get_line_range": 240 if q else 3000,
        "monitor:inspect_selection": 20 if q else 300,
        "monitor:inspect_lines": 10 if q else 150,
        "inspect_marked_integer_only_x86": 5 if q else 60,
        "inspect_without_arch_integer_only_x86": 5 if q else 60,
        "meta_generated_two_accumulator_files": 10 if q else 40,
        "monitor:inspect_variants": 80 if q else 1000,
        "monitor:full_analysis": 80 if q else 1000,
        "monitor:get_critical_path": 80 if q else 1000,
        "monitor:marked_range_crosscheck": 20 if q else 250,
        "meta:x86": 8 if q else 150,
        "meta:aarch64": 8 if q else 80,
        "meta_kernels_with_lcd": 10 if q else 150,
        "meta_noise_inside_marked_file": 5 if q else 80,
        "meta_noise_in_body_only_file": 5 if q else 80,
        "empty_body": 3 if q else 60,
        "lines_with:dash": 50 if q else 800,
        "lines_with:colon": 50 if q else 800,
        "lines_with:comma": 50 if q else 800,
        "set:meta_models": 6 if q else 12,
        "set:meta_files": 15 if q else 40,
    }
    for isa in ("x86", "aarch64"):
        for s in STYLES[isa]:
            f["style:%s:%s" % (isa, s)] = 5 if q else 100
    for d in DECOY_KINDS:
        f["decoy:" + d] = 20 if q else 400
        f["decoy_in_body:" + d] = 5 if q else 100
    return f


def run_shard(spec, R):
    r = random.Random(spec["seed"])
    work = os.path.join(os.environ.get("VERIF_HOME", "/tmp"), "c11-work-%d" % os.getpid())
    os.makedirs(work, exist_ok=True)
    try:
        if spec["part"] == "select":
            for i in range(spec["files"]):
                isa = "x86" if i % 2 == 0 else "aarch64"
                c = gen_file(isa, r)
                c["kind"] = "select"
                c["arch"] = r.choice(QUICK_MODELS[isa])
                check_select(c, R, work, e2e=(i % spec["e2e_every"] == 0))
            for i in range(spec["strings"]):
                c = gen_lines_case(r)
                e2e = i % 8 == 0
                if e2e:
                    isa = "x86" if (i // 8) % 2 == 0 else "aarch64"
                    g = gen_file(isa, r)
                    # a file long enough for the named numbers to matter
                    extra = [r.choice(FILL[isa] + ["", ".L%d:" % k]) for k in range(r.randrange(20, 120))]
                    c["text"] = g["text"].rstrip("\n") + "\n" + "\n".join(extra) + "\n"
                    c["arch"] = r.choice(QUICK_MODELS[isa])
                check_lines(c, R, work, e2e=e2e)
            return
        if "list" in spec:
            todo = [(f, a) for f, a in spec["list"]]
        else:
            todo = []
            for i in range(spec["triples"]):
                isa = "x86" if (i + spec["shard"]) % 2 == 0 else "aarch64"
                todo.append((r.choice(marked_corpus(isa)), r.choice(QUICK_MODELS[isa])))
        for f, a in todo:
            check_meta(meta_case(f, a, r.randrange(1 << 30), r.random() < 0.4), R, work)
        for k in range(2):
            isa = "x86" if (k + spec["shard"]) % 2 == 0 else "aarch64"
            check_meta(meta_case("twoacc-%d-%d.s" % (spec["shard"], k), r.choice(QUICK_MODELS[isa]), r.randrange(1 << 30), r.random() < 0.4,
                                 text=two_accumulator_file(isa, r)), R, work)
    finally:
        subprocess.run(["rm", "-rf", work])


def replay(case, R):
    work = os.path.join(os.environ.get("VERIF_HOME", "/tmp"), "c11-replay-%d" % os.getpid())
    os.makedirs(work, exist_ok=True)
    case = {k: v for k, v in case.items() if k != "traceback"}
    try:
        if case.get("kind") == "meta":
            check_meta(case, R, work)
        elif case.get("kind") == "lines":
            check_lines(case, R, work, e2e=bool(case.get("text")))
        else:
            check_select(case, R, work, e2e=True)
    finally:
        subprocess.run(["rm", "-rf", work])
