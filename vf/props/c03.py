"""C03 Register dependency graph is exactly the read-after-write relation.

Monitor: the edge set and 'latency' attributes of KernelDG(...).dg (instruction nodes) built by the real pipeline
(parser -> ISASemantics -> ArchSemantics -> KernelDG) on rendered kernels; oracle: R-deps on the generator's AST.
"""
import os
import random

from .. import depgen as D
from .. import gen_model, isolate, ref_compose as RC
from ..common import EPS, CaseTimeout, digest, time_limit

LEVEL = "exploration"
RULE = (
    "(a) synthetic ISA databases (random per-operand source/destination roles, hidden flag operands, zero idioms, forms without ISA "
    "entry = default destination rule, loads/stores/read-modify-write, composed loads, write-back addressing) on synthetic latency "
    "models, kernels of 2-12 instructions over a pool of 3-6 GPR and 2-4 vector families in all widths, with and without flag "
    "dependencies; (b) curated real vocabulary on every shipped model. Non-trivial: the reference relation has >= 1 edge and "
    "(>= 1 killed candidate, i.e. a write between a producer and a later reader, or >= 1 edge whose producer and consumer spell "
    "the register differently); distinct by digest of the kernel text"
)
ASSUMPTIONS = [
    "register families as in C12; flag reads/writes of the curated vocabulary are taken from the hidden operands the shipped ISA "
    "database declares (DESIGN.md C03)",
    "edges whose only explanation is store->load forwarding are C06's business and ignored here",
    "admissible weights: producer's latency without load (register / flag), model p_index_latency (write-back), "
    "producer latency (+/- load stage) + forwarding latency when a store->load relation also exists",
]
SHARD_TIMEOUT = {"quick": 600, "thorough": 3600}


def floors(tier):
    q = tier == "quick"
    return {"evaluations": 1500 if q else 20000, "distinct_nontrivial": 500 if q else 8000, "kind:synth": 800 if q else 14000,
            "kind:curated": 300 if q else 5000, "edges_checked": 4000 if q else 60000, "flags_on": 300 if q else 5000,
            "edge_reason:wb": 30 if q else 400, "zero_idiom_active": 40 if q else 600, "alias_edges": 300 if q else 5000,
            "killed_candidates": 500 if q else 8000, "default_rule_forms": 100 if q else 1500, "hidden_register_operand_instances": 100 if q else 1500, "isa:x86": 1, "isa:aarch64": 1,
            "weights_checked": 4000 if q else 60000,
            "sve_view_kernels_with_z": 100 if q else 1000}


def plan(tier, seed):
    q = tier == "quick"
    specs = []
    for i in range(12 if q else 40):
        specs.append({"kind": "synth", "isa": "x86" if i % 2 == 0 else "aarch64", "models": 8 if q else 30, "kernels": 16 if q else 16})
    archs = ["zen2", "spr", "zen1", "hsw", "tx2", "v2", "n1", "a64fx"] if q else isolate.arch_models()
    for a in archs:
        specs.append({"kind": "curated", "arch": a, "kernels": 80 if q else 350})
    return specs


# ---------------------------------------------------------------- oracle

def count_killed(kernel, flags):
    """Candidates killed by an intervening write: (a, b) with a write of A read by B but overwritten in between."""
    n = len(kernel)
    k = 0
    for a in range(n):
        for fam in kernel[a]["writes"] | kernel[a]["wb"]:
            dead = False
            for b in range(a + 1, n):
                B = kernel[b]
                if dead and fam in B["reads"]:
                    k += 1
                if fam in B["writes"] or fam in B["wb"]:
                    dead = True
    return k


def spelled(ins):
    return set(r.lower() for r in ins["regs"]) | set(m["base"] for m in ins["mems"]) | set(m["index"] for m in ins["mems"] if m["index"])


def alias_edge(kernel, a, b, isa):
    """The consumer spells none of the producer's written registers literally (dependency only through aliasing)."""
    wa = [r for r in kernel[a]["regs"]] + [m["base"] for m in kernel[a]["mems"]]
    sb = spelled(kernel[b])
    fams_b = kernel[b]["reads"]
    for r in wa:
        f = D.fam_of(isa, r)
        if (f in kernel[a]["writes"] or f in kernel[a]["wb"]) and f in fams_b and r.lower() not in sb:
            return True
    return False


def explain_missing(kernel, a, b, isa, flags, vocab_by_name):
    A, B = kernel[a], kernel[b]
    tags = []
    shared = (A["writes"] | A["wb"]) & B["reads"]
    if shared:
        if any(f in A["wb"] for f in shared):
            tags.append("write-back")
        if any(D.fam_of(isa, m["base"]) in shared or (m["index"] and D.fam_of(isa, m["index"]) in shared) for m in B["mems"]):
            tags.append("address-register-read")
        if alias_edge(kernel, a, b, isa):
            tags.append("alias")
    if flags and (A["flag_writes"] & B["flag_reads"]):
        tags.append("flag")
    fa, fb = vocab_by_name.get(A["form"]), vocab_by_name.get(B["form"])
    for f in (fa, fb):
        if f and not f["has_isa"]:
            tags.append("default-rule")
        if f and f["zero"]:
            tags.append("zero-idiom-form")
    return "+".join(sorted(set(tags))) or "plain"


def explain_extra(kernel, a, b, isa, flags, vocab_by_name):
    A, B = kernel[a], kernel[b]
    tags = []
    shared = (A["writes"] | A["wb"]) & B["reads"]
    if shared:
        tags.append("overwritten-in-between")
    elif flags and (A["flag_writes"] & B["flag_reads"]):
        tags.append("flag-overwritten-in-between")
    elif (A["flag_writes"] & B["flag_reads"]) and not flags:
        tags.append("flag-without-flag-deps")
    else:
        ra = set(D.fam_of(isa, r) for r in A["regs"]) | set(D.fam_of(isa, m["base"]) for m in A["mems"])
        rb = set(D.fam_of(isa, r) for r in B["regs"]) | set(D.fam_of(isa, m["base"]) for m in B["mems"])
        if ra & rb:
            if ra & B["reads"]:
                tags.append("producer-does-not-write-it")
            else:
                tags.append("consumer-does-not-read-it")
        else:
            tags.append("no-common-register")
    fa, fb = vocab_by_name.get(A["form"]), vocab_by_name.get(B["form"])
    for f in (fa, fb):
        if f and not f["has_isa"]:
            tags.append("default-rule")
        if f and f["zero"]:
            tags.append("zero-idiom-form")
    return "+".join(sorted(set(tags)))


def judge(isa, kernel_ast, forms, dg, mm, flags, R, case, vocab_by_name):
    ref = D.ref_edges(kernel_ast, flags)
    stl, stl_dc = D.ref_store_load(kernel_ast, isa)
    obs, loads = D.observed_edges(forms, dg)
    n = len(kernel_ast)
    nontrivial_alias = 0
    # forward edges only
    for (a, b) in obs:
        if not a < b:
            R.violation("backward-edge", "edge from line %d to line %d does not point forward" % (a + 1, b + 1), case)
    for (u, v), w in loads.items():
        if int(u) != int(v) or int(v) != v or abs(u - v - 0.1) > 1e-6:
            R.violation("load-node/odd-edge", "load node edge %r -> %r" % (u, v), case)
    p_index = mm.get("p_index_latency", 1)
    fwd = mm.get("store_to_load_forward_latency", 0) or 0
    for (a, b), reasons in ref.items():
        R.count("edges_checked")
        for r in reasons:
            R.count("edge_reason:" + r)
        if alias_edge(kernel_ast, a, b, isa):
            nontrivial_alias += 1
            R.count("alias_edges")
        if (a, b) not in obs:
            R.violation("missing/" + explain_missing(kernel_ast, a, b, isa, flags, vocab_by_name),
                        "no edge %d->%d although '%s' writes what '%s' reads (%s) and nothing in between overwrites it"
                        % (a + 1, b + 1, kernel_ast[a]["text"], kernel_ast[b]["text"], sorted((kernel_ast[a]["writes"] | kernel_ast[a]["wb"]) & kernel_ast[b]["reads"]) or "flags"), case)
            continue
        w = obs[(a, b)]
        A = forms[a]
        wo = A.latency_wo_load if A.latency_wo_load is not None else A.latency
        adm = set()
        if "reg" in reasons:
            adm.add(float(wo))
        if "wb" in reasons:
            adm.add(float(p_index))
        if (a, b) in stl or (a, b) in stl_dc:
            adm.add(float(wo) + fwd)
            adm.add(float(A.latency) + fwd)
        R.count("weights_checked")
        if w is None or not any(abs(float(w) - x) <= EPS for x in adm):
            R.violation("weight/" + "+".join(sorted(reasons)), "edge %d->%d ('%s' -> '%s') has weight %r, admissible %s (latency %s, without load %s)"
                        % (a + 1, b + 1, kernel_ast[a]["text"], kernel_ast[b]["text"], w, sorted(adm), A.latency, A.latency_wo_load), case)
    for (a, b), w in obs.items():
        if (a, b) in ref:
            continue
        A, B = kernel_ast[a], kernel_ast[b]
        # an edge from a storing instruction to a later instruction with a memory operand is the store->load search's doing
        # (also for address-only operands such as lea's, which the shipped ISA database declares as a memory source)
        if any("d" in m["role"] for m in A["mems"]) and B["mems"]:
            R.count("store_load_edges_left_to_C06")
            continue
        R.violation("extra/" + explain_extra(kernel_ast, a, b, isa, flags, vocab_by_name),
                    "edge %d->%d ('%s' -> '%s') although the reference relation has none" % (a + 1, b + 1, A["text"], B["text"]), case)
    killed = count_killed(kernel_ast, flags)
    R.count("killed_candidates", killed)
    return bool(ref) and (killed > 0 or nontrivial_alias > 0)


# ---------------------------------------------------------------- workloads

def gate_ok(isa, kernel_ast, forms, sem, vocab_by_name, R):
    """The kernel must have been recognised as intended (model entry found; ISA entry found where the vocabulary has one)."""
    if len(forms) != len(kernel_ast):
        R.count("gate:line-count")
        return False
    for ins, f in zip(kernel_ast, forms):
        if f.mnemonic is None or "tp_unknown" in f.flags:
            R.count("gate:model-entry-not-found")
            return False
        v = vocab_by_name[ins["form"]]
        found = sem._isa_model.get_instruction(f.mnemonic, f.operands) is not None
        if v["has_isa"] and not found:
            R.count("gate:isa-entry-not-found")
            return False
    return True


def run_synth(spec, R):
    from osaca.semantics import MachineModel

    rng = random.Random(spec["seed"])
    isa = spec["isa"]
    R.count("isa:" + isa)
    with gen_model.ScratchDir("c03") as d:
        for mi in range(spec["models"]):
            mseed = rng.getrandbits(48)
            mrng = random.Random(mseed)
            m, isa_db, vocab = D.dep_model(mrng, isa)
            path, ipath = os.path.join(d, "m%d.yml" % mi), os.path.join(d, "i%d.yml" % mi)
            open(path, "w").write(gen_model.model_yaml(m))
            open(ipath, "w").write(gen_model.model_yaml(isa_db))
            by = {v["name"]: v for v in vocab}
            R.count("default_rule_forms", sum(1 for v in vocab if not v["has_isa"]))
            for k in range(spec["kernels"]):
                kseed = mrng.getrandbits(48)
                synth_case(isa, m, isa_db, vocab, by, path, ipath, mseed, kseed, R)
            MachineModel._runtime_cache.pop(path, None)
            MachineModel._runtime_cache.pop(ipath, None)
            for fn in os.listdir(d):
                os.unlink(os.path.join(d, fn))


def synth_case(isa, m, isa_db, vocab, by, path, ipath, mseed, kseed, R, sample=True):
    from osaca.semantics import ArchSemantics, MachineModel

    krng = random.Random(kseed)
    n = krng.choice([2, 3, 4, 5, 6, 8, 10, 12])
    pool = D.Pool(krng, isa)
    if isa == "aarch64" and (kseed >> 3) & 1:
        # every other AArch64 kernel also names vector registers by their SVE (z) and narrow scalar (b, h) views
        pool.sve = True
        R.count("sve_view_kernels")
    kernel_ast = D.rand_kernel(krng, isa, vocab, n, pool=pool)
    if getattr(pool, "sve", False) and any(" z" in i["text"] or ",z" in i["text"] for i in kernel_ast):
        R.count("sve_view_kernels_with_z")
    flags = krng.random() < 0.5
    text = "\n".join(i["text"] for i in kernel_ast) + "\n"
    case = {"kind": "synth", "isa": isa, "model_seed": mseed, "kernel_seed": kseed, "kernel": text, "flags": flags}
    try:
        with time_limit(60):
            forms, dg, mm = D.analyse(isa, path, ipath, text, flags=flags, timeout=-1)
    except CaseTimeout:
        R.inconclusive += 1
        R.case()
        return
    except Exception as e:  # noqa
        R.exception(e, case)
        R.case()
        return
    if not gate_ok(isa, kernel_ast, forms, dg.arch_sem, by, R):
        R.case()
        return
    if flags:
        R.count("flags_on")
    R.count("zero_idiom_active", sum(1 for i in kernel_ast if by[i["form"]]["zero"] and not i["reads"]))
    R.count("hidden_register_operand_instances", sum(1 for i in kernel_ast if i["form"] in ("hr0a", "hr1a", "hn0a", "hn1a")))
    nt = judge(isa, kernel_ast, forms, dg, mm, flags, R, case, by)
    R.case(digest(text + str(flags)), nontrivial=nt)
    R.count("kind:synth")
    if sample:
        R.sample({"isa": isa, "flags": flags, "kernel": text.strip().split("\n"), "reference_edges": sorted([a + 1, b + 1] for a, b in D.ref_edges(kernel_ast, flags))}, limit=2)


_ISA_GROUPS = {}


def isa_db_groups(isa):
    if isa not in _ISA_GROUPS:
        import ruamel.yaml

        path = dict(isolate.model_files())["isa/" + isa]
        data = ruamel.yaml.YAML(typ="safe").load(open(path))
        _ISA_GROUPS[isa] = RC.entry_groups(data["instruction_forms"])
    return _ISA_GROUPS[isa]


def declared_flags(isa, ins):
    """Hidden flag operands the shipped ISA database declares for this instruction (None = undecidable)."""
    e, decided = RC.direct_status(isa, isa_db_groups(isa), ins["form"], ins["kinds"])
    if not decided:
        return None
    if e is None and any(k["k"] == "mem" for k in ins["kinds"]):
        mp = [i for i, k in enumerate(ins["kinds"]) if k["k"] == "mem"][0]
        e, decided = RC.regform_status(isa, isa_db_groups(isa), ins["form"], ins["kinds"], mp)
        if not decided:
            return None
    if e is None:
        return set(), set()
    r, w = set(), set()
    for h in e.get("hidden_operands") or []:
        if h.get("class") != "flag":
            return None
        if h.get("source"):
            r.add(h["name"])
        if h.get("destination"):
            w.add(h["name"])
    return r, w


def run_curated(spec, R):
    arch = spec["arch"]
    isa = isolate.isa_of(arch)
    R.count("isa:" + isa)
    rng = random.Random(spec["seed"])
    vocab = D.curated_vocab(isa)
    by = {v["name"]: v for v in vocab}
    for k in range(spec["kernels"]):
        curated_case(arch, isa, vocab, by, rng.getrandbits(48), R, sample=(k == 0))


def curated_case(arch, isa, vocab, by, kseed, R, sample=False):
    krng = random.Random(kseed)
    pool = D.Pool(krng, isa)
    n = krng.choice([2, 3, 4, 5, 6, 8, 10, 12])
    kernel_ast = []
    for _ in range(n):
        f = krng.choice(vocab)
        ins = D.instantiate_curated(krng, isa, f, pool)
        if f["zero"] and krng.random() < 0.5:
            # zero idiom with all operands equal
            o = ins["optexts"][0]
            ins = D.instantiate_curated(krng, isa, f, pool)
            r = ins["regs"][0]
            ins2 = D.instantiate(krng, isa, dict(f, ops=[dict(x) for x in f["ops"]]), pool, regs=[r] * len(f["ops"]))
            ins2["text"] = f["name"] + " " + ", ".join(["%" + r] * len(f["ops"]))
            ins2["optexts"] = ["%" + r] * len(f["ops"])
            ins = ins2
        kernel_ast.append(ins)
    flags = krng.random() < 0.4
    if flags:
        for ins in kernel_ast:
            fl = declared_flags(isa, ins)
            if fl is None:
                flags = False
                R.count("flags_undecidable")
                break
            ins["flag_reads"], ins["flag_writes"] = fl
            if by_zero_active(ins, by):
                ins["flag_writes"] = fl[0] | fl[1]
                ins["flag_reads"] = set()
    text = "\n".join(i["text"] for i in kernel_ast) + "\n"
    case = {"kind": "curated", "arch": arch, "kernel_seed": kseed, "kernel": text, "flags": flags}
    try:
        with time_limit(60):
            forms, dg, mm = D.analyse(isa, None, None, text, flags=flags, timeout=-1, arch=arch)
    except CaseTimeout:
        R.inconclusive += 1
        R.case()
        return
    except Exception as e:  # noqa
        R.exception(e, case)
        R.case()
        return
    if len(forms) != len(kernel_ast):
        R.count("gate:line-count")
        R.case()
        return
    if flags:
        R.count("flags_on")
    R.count("zero_idiom_active", sum(1 for i in kernel_ast if by_zero_active(i, by)))
    nt = judge(isa, kernel_ast, forms, dg, mm, flags, R, case, {})
    R.case(digest(arch + text + str(flags)), nontrivial=nt)
    R.count("kind:curated")
    R.count("arch:" + arch)
    if sample:
        R.sample({"arch": arch, "flags": flags, "kernel": text.strip().split("\n")}, limit=3)


def by_zero_active(ins, by):
    f = by.get(ins["form"])
    return bool(f and f["zero"] and len(set(ins["regs"])) == 1 and not ins["mems"] and not ins["reads"])


def run_shard(spec, R):
    if spec["kind"] == "synth":
        run_synth(spec, R)
    else:
        run_curated(spec, R)


def replay(case, R):
    if case["kind"] == "synth":
        isa = case["isa"]
        mrng = random.Random(case["model_seed"])
        m, isa_db, vocab = D.dep_model(mrng, isa)
        with gen_model.ScratchDir("c03r") as d:
            path, ipath = os.path.join(d, "m.yml"), os.path.join(d, "i.yml")
            open(path, "w").write(gen_model.model_yaml(m))
            open(ipath, "w").write(gen_model.model_yaml(isa_db))
            synth_case(isa, m, isa_db, vocab, {v["name"]: v for v in vocab}, path, ipath, case["model_seed"], case["kernel_seed"], R, sample=False)
    else:
        isa = isolate.isa_of(case["arch"])
        vocab = D.curated_vocab(isa)
        curated_case(case["arch"], isa, vocab, {v["name"]: v for v in vocab}, case["kernel_seed"], R)
