"""C12 Register dependence equals architectural register overlap.

Monitor: the real ``is_reg_dependend_of`` of both parsers is called on register operands that the
real parser produced from the written names; oracle: equality of the architectural family.
Exhaustive over all ordered pairs of names, in lower / upper (x86 also mixed) case.
"""
import re

from ..common import digest

LEVEL = "exploration"
NEEDS_MODELS = False
RULE = (
    "all ordered pairs (a,b) of register names of each ISA in lower/upper(/mixed) case, operands produced by the real "
    "parser; a pair is non-trivial when the two spellings differ after lower-casing (alias pairs of one family and "
    "cross-family near misses); distinct = distinct lower-cased (a,b) pairs"
)
ASSUMPTIONS = [
    "architectural families: x86 16 GPR families (ah/bh/ch/dh belong to a/b/c/d), {x,y,z}mmN, mmN, kN each alone; "
    "AArch64 {wN,xN}, {b,h,s,d,q,v,z}N, pN, {sp,wsp}; wzr/xzr: reflexive required, wzr-vs-xzr don't-care",
    "register operands are built by the real parser from a one-register instruction line",
]
EXHAUSTIVE = {"quick": True, "thorough": True}
SHARD_TIMEOUT = {"quick": 300, "thorough": 600}


def x86_names():
    fam = {}
    for l in "abcd":
        for n in ("r%sx", "e%sx", "%sx", "%sl", "%sh"):
            fam[n % l] = "gpr-" + l
    for base in ("si", "di", "bp", "sp"):
        for n in ("r%s", "e%s", "%s", "%sl"):
            fam[n % base] = "gpr-" + base
    for i in range(8, 16):
        for suf in ("", "d", "w", "b"):
            fam["r%d%s" % (i, suf)] = "gpr-r%d" % i
    for i in range(32):
        for p in "xyz":
            fam["%smm%d" % (p, i)] = "vec-%d" % i
    for i in range(8):
        fam["mm%d" % i] = "mmx-%d" % i
        fam["k%d" % i] = "k-%d" % i
    return fam


def a64_names():
    fam = {}
    for i in range(32):
        for p in "wx":
            fam["%s%d" % (p, i)] = "gpr-%d" % i
        for p in "bhsdqvz":
            fam["%s%d" % (p, i)] = "vec-%d" % i
        fam["p%d" % i] = "pred-%d" % i
    fam["sp"] = "sp"
    fam["wsp"] = "sp"
    fam["xzr"] = "zr"
    fam["wzr"] = "zr"
    return fam


def mixed(s):
    return "".join(c.upper() if i % 2 == 0 else c for i, c in enumerate(s))


def variants(isa, name):
    v = [name, name.upper()]
    if isa == "x86" and mixed(name) not in v:
        v.append(mixed(name))
    return v


def floors(tier):
    return {"evaluations": 500000, "distinct_nontrivial": 50000, "pairs_dependent": 2000, "pairs_independent": 100000,
            "isa:x86": 1, "isa:aarch64": 1}


def plan(tier, seed):
    specs = []
    for isa, n in (("x86", 4), ("aarch64", 12)):
        for k in range(n):
            specs.append({"isa": isa, "part": k, "parts": n})
    return specs


def _operand(parser, isa, text):
    if isa == "x86":
        line = "inc %" + text
    else:
        line = "mov " + text + ", " + text
    f = parser.parse_line(line, 1)
    return f.operands[0]


def expected(isa, fam, a, b):
    """True / False / None (don't care)."""
    fa, fb = fam[a.lower()], fam[b.lower()]
    if isa == "aarch64" and fa == "zr" and fb == "zr":
        return True if a.lower() == b.lower() else None
    return fa == fb


def check_pair(parser, isa, fam, ops, a, b, R):
    exp = expected(isa, fam, a, b)
    try:
        got = bool(parser.is_reg_dependend_of(ops[a], ops[b]))
    except Exception as e:  # noqa
        R.exception(e, {"isa": isa, "a": a, "b": b})
        return
    la, lb = a.lower(), b.lower()
    R.case(digest([isa, la, lb]), nontrivial=(la != lb))
    if exp is None:
        R.count("dont_care")
        return
    R.count("pairs_dependent" if exp else "pairs_independent")
    if got != exp:
        R.violation(classify(isa, fam, a, b, exp), "%s: is_reg_dependend_of(%s,%s)=%s, architectural overlap=%s" % (isa, a, b, got, exp),
                    {"isa": isa, "a": a, "b": b, "expected": exp, "got": got})


def classify(isa, fam, a, b, exp):
    fa, fb = fam[a.lower()], fam[b.lower()]
    kind = "missing" if exp else "spurious"
    cs = "/case" if (a.lower() != a or b.lower() != b) and a.lower() == b.lower() else ""
    return "%s/%s/%s~%s%s" % (isa, kind, re.sub(r"\d+", "N", fa), re.sub(r"\d+", "N", fb), cs)


def run_shard(spec, R):
    from osaca.parser import get_parser

    isa = spec["isa"]
    parser = get_parser(isa)
    fam = x86_names() if isa == "x86" else a64_names()
    texts = []
    for n in sorted(fam):
        texts.extend(variants(isa, n))
    ops = {}
    for t in texts:
        try:
            ops[t] = _operand(parser, isa, t)
        except Exception as e:  # noqa
            R.exception(e, {"isa": isa, "a": t, "b": t}, prefix="parse/")
    texts = [t for t in texts if t in ops]
    R.count("isa:" + isa)
    R.count("names", len(texts) if spec["part"] == 0 else 0)
    for i, a in enumerate(texts):
        if i % spec["parts"] != spec["part"]:
            continue
        for b in texts:
            check_pair(parser, isa, fam, ops, a, b, R)
        # symmetry on the observed relation itself
    if spec["part"] == 0:
        R.sample({"isa": isa, "pair": [texts[0], texts[1]], "operands": [str(ops[texts[0]])[:80], str(ops[texts[1]])[:80]]})
        R.sample({"isa": isa, "names": len(texts), "families": len(set(fam.values()))})


def replay(case, R):
    from osaca.parser import get_parser

    isa = case["isa"]
    parser = get_parser(isa)
    fam = x86_names() if isa == "x86" else a64_names()
    ops = {t: _operand(parser, isa, t) for t in (case["a"], case["b"])}
    check_pair(parser, isa, fam, ops, case["a"], case["b"], R)
